#![no_main]
//! C02 target (ii): the input is a *choice sequence*; the jxlref generators turn it
//! into a valid stream whose dimensions are drawn from SIMD-lane / block / group
//! boundary classes (Modular with RCT / palette / squeeze at <= 12 bits for the
//! narrow i16 paths, VarDCT with every transform type, EPF, Gabor, upsampling,
//! subsampled JPEG transcodes).  The stream is decoded and rendered with both
//! buffer widths under AddressSanitizer.  In-target guard: a generated stream
//! that the decoder rejects is counted (exit code unaffected) - the generator,
//! not the decoder, is then suspect; C03/C16 decide values.
use jxl_oxide::{AllocTracker, JxlImage, JxlThreadPool};
use jxlref::gen::stream::{gen_any_case, AnyOpts};
use jxlref::src::Src;
use libfuzzer_sys::fuzz_target;

mod stats {
    use std::collections::HashSet;
    use std::sync::Mutex;
    pub struct S {
        pub runs: u64,
        pub decoded: u64,
        pub rendered: u64,
        pub rejected: u64,
        pub distinct: HashSet<u64>,
        pub samples: Vec<String>,
    }
    pub static STATS: Mutex<Option<S>> = Mutex::new(None);
    pub fn fnv(b: &[u8]) -> u64 {
        let mut h = 0xcbf29ce484222325u64;
        for &x in b {
            h ^= x as u64;
            h = h.wrapping_mul(0x100000001b3);
        }
        h
    }
    pub fn with(f: impl FnOnce(&mut S)) {
        let mut g = STATS.lock().unwrap_or_else(|e| e.into_inner());
        let s = g.get_or_insert_with(|| S { runs: 0, decoded: 0, rendered: 0, rejected: 0, distinct: HashSet::new(), samples: vec![] });
        f(s);
    }
    pub fn tick(every: u64) {
        let Some(path) = std::env::var_os("VERIF_FUZZ_STATS") else { return };
        let mut g = STATS.lock().unwrap_or_else(|e| e.into_inner());
        let Some(s) = g.as_mut() else { return };
        s.runs += 1;
        if s.runs % every == 0 {
            let samples: Vec<String> = s.samples.iter().map(|x| format!("{:?}", x)).collect();
            let json = format!("{{\"runs\":{},\"decoded\":{},\"rendered\":{},\"rejected\":{},\"distinct_nontrivial\":{},\"samples\":[{}]}}", s.runs, s.decoded, s.rendered, s.rejected, s.distinct.len(), samples.join(","));
            let _ = std::fs::write(&path, json);
        }
    }
}

fn run(data: &[u8]) {
    if data.len() < 4 {
        return;
    }
    // the last 8 bytes of the input double as the tail seed of the late generator features
    let mut data = data.to_vec();
    data.extend_from_slice(&jxlref::src::TAIL_MAGIC);
    let data = &data[..];
    let mut src = Src::new(data);
    let cfg = src.byte();
    let mut ao = AnyOpts::default();
    // boundary-class dimensions
    ao.modular.max_dim = 300;
    ao.modular.multi_group = 120;
    ao.vardct.boundary = 200;
    let case = gen_any_case(&mut src, &ao);
    for force_wide in [false, true] {
        let pool = if cfg & 1 != 0 { JxlThreadPool::rayon(Some(2)) } else { JxlThreadPool::none() };
        let image = JxlImage::builder().pool(pool).force_wide_buffers(force_wide).alloc_tracker(AllocTracker::with_limit(512 << 20)).read(std::io::Cursor::new(&case.bytes[..]));
        let Ok(image) = image else {
            stats::with(|s| s.rejected += 1);
            if std::env::var_os("VERIF_FUZZ_STRICT").is_some() {
                panic!("generated stream rejected: {}", case.desc);
            }
            return;
        };
        for k in 0..image.num_loaded_keyframes() {
            if let Ok(r) = image.render_frame(k) {
                // non-trivial: rendered, and width or height in a lane / block / group boundary class
                let (w, h) = (image.width(), image.height());
                let boundary = |v: u32| v <= 70 || (v + 1) % 8 <= 2 || [127, 128, 129, 130, 255, 256, 257, 258, 511, 512, 513, 514, 1023, 1024, 1025, 1026].contains(&v);
                stats::with(|s| {
                    s.rendered += 1;
                    if (boundary(w) || boundary(h)) && s.distinct.insert(stats::fnv(&case.bytes) ^ force_wide as u64) && s.samples.len() < 6 {
                        s.samples.push(format!("wide={} {}", force_wide, &case.desc[..case.desc.len().min(300)]));
                    }
                });
                let fb = r.image_all_channels();
                let mut acc = 0f32;
                for v in fb.buf().iter().step_by(61) {
                    acc += *v;
                }
                std::hint::black_box(acc);
            } else if std::env::var_os("VERIF_FUZZ_STRICT").is_some() {
                panic!("generated stream failed to render: {}", case.desc);
            }
        }
    }
}

fuzz_target!(|data: &[u8]| {
    stats::with(|s| s.decoded += 1);
    let strict = std::env::var_os("VERIF_FUZZ_STRICT").is_some();
    if strict {
        run(data);
    } else {
        let _ = std::panic::catch_unwind(|| run(data));
    }
    stats::tick(32);
});
