#![no_main]
//! C02 target (i): arbitrary bytes -> decode and render under AddressSanitizer.
//! The last 2 bytes of the input select the configuration (buffer width, pool,
//! crop region); everything before them is the stream.  No semantic oracle: a
//! sanitizer report or a crash is the verdict.  Panics are *not* C02's business
//! (C01 decides them), so they are caught and ignored here.
use jxl_oxide::{AllocTracker, CropInfo, JxlImage, JxlThreadPool};
use libfuzzer_sys::fuzz_target;

mod stats {
    use std::collections::HashSet;
    use std::sync::Mutex;
    pub struct S {
        pub runs: u64,
        pub decoded: u64,
        pub rendered: u64,
        pub rejected: u64,
        pub distinct: HashSet<u64>,
        pub samples: Vec<String>,
    }
    pub static STATS: Mutex<Option<S>> = Mutex::new(None);
    pub fn fnv(b: &[u8]) -> u64 {
        let mut h = 0xcbf29ce484222325u64;
        for &x in b {
            h ^= x as u64;
            h = h.wrapping_mul(0x100000001b3);
        }
        h
    }
    pub fn with(f: impl FnOnce(&mut S)) {
        let mut g = STATS.lock().unwrap_or_else(|e| e.into_inner());
        let s = g.get_or_insert_with(|| S { runs: 0, decoded: 0, rendered: 0, rejected: 0, distinct: HashSet::new(), samples: vec![] });
        f(s);
    }
    pub fn tick(every: u64) {
        let Some(path) = std::env::var_os("VERIF_FUZZ_STATS") else { return };
        let mut g = STATS.lock().unwrap_or_else(|e| e.into_inner());
        let Some(s) = g.as_mut() else { return };
        s.runs += 1;
        if s.runs % every == 0 {
            let samples: Vec<String> = s.samples.iter().map(|x| format!("{:?}", x)).collect();
            let json = format!("{{\"runs\":{},\"decoded\":{},\"rendered\":{},\"rejected\":{},\"distinct_nontrivial\":{},\"samples\":[{}]}}", s.runs, s.decoded, s.rendered, s.rejected, s.distinct.len(), samples.join(","));
            let _ = std::fs::write(&path, json);
        }
    }
}

fn run(data: &[u8]) {
    if data.len() < 2 {
        return;
    }
    let (stream, cfg) = data.split_at(data.len() - 2);
    let force_wide = cfg[0] & 1 != 0;
    let pool = match (cfg[0] >> 1) & 3 {
        0 | 1 => JxlThreadPool::none(),
        2 => JxlThreadPool::rayon(Some(2)),
        _ => JxlThreadPool::rayon(Some(4)),
    };
    let image = JxlImage::builder().pool(pool).force_wide_buffers(force_wide).alloc_tracker(AllocTracker::with_limit(128 << 20)).read(std::io::Cursor::new(stream));
    let Ok(mut image) = image else { return };
    let (w, h) = (image.width(), image.height());
    stats::with(|s| s.decoded += 1);
    if w.max(h) > 65536 {
        return;
    }
    if cfg[0] & 0x20 != 0 && w > 0 && h > 0 {
        // crop inside the image
        let l = (cfg[1] as u32 & 0xf) * w / 16;
        let t = (cfg[1] as u32 >> 4) * h / 16;
        let cw = ((cfg[0] as u32 >> 6) + 1) * (w - l) / 4;
        let ch = ((cfg[0] as u32 >> 6) + 1) * (h - t) / 4;
        image.set_image_region(CropInfo { left: l, top: t, width: cw.max(1), height: ch.max(1) });
    }
    for k in 0..image.num_loaded_keyframes() {
        if let Ok(r) = image.render_frame(k) {
            // non-trivial: a keyframe of an accepted stream was rendered; distinct by stream hash
            stats::with(|s| {
                s.rendered += 1;
                if s.distinct.insert(stats::fnv(stream)) && s.samples.len() < 6 {
                    s.samples.push(format!("{}x{} frames={} keyframe={} len={} wide={} cfg={:02x}{:02x}", w, h, image.num_loaded_frames(), k, stream.len(), force_wide, cfg[0], cfg[1]));
                }
            });
            let fb = r.image_all_channels();
            let mut acc = 0f32;
            for v in fb.buf().iter().step_by(97) {
                acc += *v;
            }
            std::hint::black_box(acc);
            let mut s = r.stream();
            let n = (s.width() as usize * s.height() as usize * s.channels() as usize).min(1 << 22);
            let mut out = vec![0u8; n];
            s.write_to_buffer(&mut out);
        }
    }
    let mut jpeg = vec![];
    let _ = image.reconstruct_jpeg(&mut jpeg);
}

fuzz_target!(|data: &[u8]| {
    stats::with(|_| ());
    let _ = std::panic::catch_unwind(|| run(data));
    stats::tick(256);
});
