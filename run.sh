#!/bin/bash
# ./run.sh <Cxx> quick|thorough     build the harness against /repo's working tree, run one check
# ./run.sh replay <file>            strict replay of one saved case
# Exit: 0 held / 1 violation (VIOLATION line printed) / 2 infrastructure problem (inconclusive)
set -u
HERE="$(cd "$(dirname "$0")" && pwd)"
# VERIF_ROOT_OVERRIDE: evidence/replays/known-findings root for sensitivity runs (tools/mutant.sh)
export VERIF_ROOT="${VERIF_ROOT_OVERRIDE:-$HERE}"
export CARGO_NET_OFFLINE=true
cd "$HERE/harness" || exit 2

profile_for() {
  case "$1" in
    C01|C13|c01|c13) echo checked ;;
    *) echo release ;;
  esac
}

build() {
  local prof="$1"
  local log
  log=$(mktemp)
  if ! cargo build --profile "$prof" -p vcheck >"$log" 2>&1; then
    echo "BUILD FAILED (profile $prof)" >&2
    tail -40 "$log" >&2
    rm -f "$log"
    exit 2
  fi
  rm -f "$log"
}

if [ $# -lt 2 ]; then
  echo "usage: $0 <Cxx> quick|thorough | replay <file>" >&2
  exit 2
fi

if [ "$1" = "replay" ]; then
  case "$2" in */replays/C02/*) exec "$HERE/checks/C02.sh" replay "$2" ;; esac
  id=$(python3 -c "import json,sys;print(json.load(open(sys.argv[1]))['property'])" "$2") || exit 2
  prof=$(profile_for "$id")
  build "$prof"
  exec "target/$prof/vcheck" replay "$2"
fi

id="$1"
tier="$2"
prof=$(profile_for "$id")
build "$prof"
if [ -x "$HERE/checks/$id.sh" ]; then
  exec "$HERE/checks/$id.sh" "$tier" "target/$prof/vcheck"
fi
exec "target/$prof/vcheck" "$id" --tier "$tier"
