#!/bin/bash
# C02 — no memory-unsafe access: libFuzzer + AddressSanitizer campaigns over two targets
# (/verif/fuzz: decode_render = arbitrary bytes; valid_shapes = choice sequences -> valid streams
# with boundary-class dimensions).  Fixed work per tier: N processes x -runs each, seeds derived
# from VERIF_SEED, fresh corpus directories seeded from the generators and the repository's
# fuzz_findings.  A crash artefact (sanitizer report, SIGSEGV, abort) is a violation; libFuzzer
# timeouts / out-of-memory artefacts are inconclusive (exit 2).  Writes evidence/C02.json.
#   checks/C02.sh <tier> <path-to-vcheck>        (called by run.sh)
#   checks/C02.sh replay <artefact> [target]      re-run one saved input on the ASan build
set -u
HERE="$(cd "$(dirname "$0")/.." && pwd)"
ROOT="${VERIF_ROOT:-$HERE}"
export CARGO_NET_OFFLINE=true
# leaks are not part of the property (rayon worker threads of dropped pools are reported at exit otherwise)
export ASAN_OPTIONS="detect_leaks=0:${ASAN_OPTIONS:-}"
BIN="$HERE/fuzz/target/x86_64-unknown-linux-gnu/release"
build() {
  local log; log=$(mktemp)
  if ! (cd "$HERE/fuzz" && cp -n /repo/Cargo.lock Cargo.lock 2>/dev/null; cargo +nightly fuzz build --fuzz-dir "$HERE/fuzz" >"$log" 2>&1); then
    echo "BUILD FAILED (cargo fuzz build)" >&2; tail -30 "$log" >&2; rm -f "$log"; exit 2
  fi
  rm -f "$log"
}
if [ "${1:-}" = "replay" ]; then
  build
  f="$2"; t="${3:-}"
  if [ -z "$t" ]; then case "$(basename "$(dirname "$f")")" in *valid_shapes*) t=valid_shapes;; *) t=decode_render;; esac; fi
  "$BIN/$t" -detect_leaks=0 "$f"; rc=$?
  if [ $rc -ne 0 ]; then echo "VIOLATION property=C02 replay=$f"; exit 1; fi
  echo "PASS"; exit 0
fi
tier="$1"; vcheck="$HERE/harness/$2"
seed="${VERIF_SEED:-0}"
t0=$(date +%s)
build
if [ "$tier" = thorough ]; then runs_dr=120000; runs_vs=6000; else runs_dr=12000; runs_vs=400; fi
procs=16
work=$(mktemp -d /tmp/c02.XXXXXX)
trap 'rm -rf "$work"' EXIT
# ---- seed corpora (fresh) ---------------------------------------------------------------
mkdir -p "$work/corpus_dr" "$work/corpus_vs"
"$vcheck" gencorpus "$work/corpus_dr" 160 "$seed" || exit 2
for f in /repo/crates/jxl-oxide-tests/tests/fuzz_findings/*.fuzz "$HERE"/corpus/c01-seeds/*; do
  [ -f "$f" ] && { cat "$f"; printf '\x00\x00'; } > "$work/corpus_dr/$(basename "$f")"
done
python3 - "$work/corpus_vs" "$seed" <<'PY'
import sys, random
d, seed = sys.argv[1], int(sys.argv[2])
r = random.Random(seed * 7919 + 13)
for i in range(256):
    n = r.choice([16, 64, 256, 1024, 3000, 6000])
    open(f"{d}/s{i}", "wb").write(bytes(r.getrandbits(8) for _ in range(n)))
PY
# ---- replay tier: saved artefacts first (strict) ------------------------------------------
viol=0; inconc=0; lines=()
mkdir -p "$ROOT/replays/C02"
for f in "$ROOT"/replays/C02/decode_render/* "$ROOT"/replays/C02/valid_shapes/*; do
  [ -f "$f" ] || continue
  t=$(basename "$(dirname "$f")")
  if ! "$BIN/$t" -detect_leaks=0 "$f" >"$work/replay.log" 2>&1; then
    viol=$((viol+1)); lines+=("VIOLATION property=C02 replay=$f ($(grep -m1 -E 'ERROR: AddressSanitizer|deadly signal|SEGV' "$work/replay.log" | cut -c1-200))")
  fi
done
# ---- campaigns ----------------------------------------------------------------------------
run_target() { # name runs maxlen corpus
  local t="$1" runs="$2" maxlen="$3" corpus="$4" i
  mkdir -p "$work/art_$t" "$work/stats_$t" "$work/log_$t"
  for i in $(seq 1 $procs); do
    mkdir -p "$work/c_${t}_$i"; cp "$corpus"/* "$work/c_${t}_$i/" 2>/dev/null
    VERIF_FUZZ_STATS="$work/stats_$t/$i.json" "$BIN/$t" "$work/c_${t}_$i" -runs="$runs" -seed=$((seed * 1000 + i + 1)) \
      -len_control=0 -max_len="$maxlen" -detect_leaks=0 -timeout=120 -rss_limit_mb=6000 -artifact_prefix="$work/art_$t/" \
      >"$work/log_$t/$i.log" 2>&1 &
  done
  wait
}
run_target decode_render "$runs_dr" 8192 "$work/corpus_dr"
run_target valid_shapes "$runs_vs" 6144 "$work/corpus_vs"
for t in decode_render valid_shapes; do
  for a in "$work/art_$t"/*; do
    [ -f "$a" ] || continue
    case "$(basename "$a")" in
      crash-*)
        mkdir -p "$ROOT/replays/C02/$t"; cp "$a" "$ROOT/replays/C02/$t/"
        lg=$(grep -l "$(basename "$a")" "$work/log_$t"/*.log | head -1)
        [ -n "$lg" ] && tail -c 20000 "$lg" > "$ROOT/replays/C02/$t/$(basename "$a").log"
        what=$(grep -h -m1 -E 'ERROR: AddressSanitizer[^(]*|deadly signal|SEGV' "$work/log_$t"/*.log | head -1 | cut -c1-200)
        viol=$((viol+1)); lines+=("VIOLATION property=C02 replay=$ROOT/replays/C02/$t/$(basename "$a") ($t: $what)") ;;
      timeout-*|oom-*|slow-unit-*)
        case "$(basename "$a")" in slow-unit-*) ;; *) inconc=$((inconc+1)); mkdir -p "$ROOT/replays/C02/inconclusive"; cp "$a" "$ROOT/replays/C02/inconclusive/$t-$(basename "$a")";; esac ;;
    esac
  done
done
t1=$(date +%s)
python3 - "$work" "$ROOT/evidence/C02.json" "$tier" "$seed" "$((t1-t0))" "$viol" "$inconc" "$runs_dr" "$runs_vs" "$procs" <<'PY'
import sys, json, glob, re, os
work, out, tier, seed, wall, viol, inconc, rdr, rvs, procs = sys.argv[1:]
cov = {"targets": {}}
tot_runs = 0; tot_nt = 0; samples = []
for t in ("decode_render", "valid_shapes"):
    runs = decoded = rendered = rejected = nt = 0; feats = []; done = 0
    for f in glob.glob(f"{work}/stats_{t}/*.json"):
        try:
            d = json.load(open(f))
        except Exception:
            continue
        decoded += d["decoded"]; rendered += d["rendered"]; rejected += d["rejected"]; nt += d["distinct_nontrivial"]
        samples += [f"{t}: {s}" for s in d["samples"][:2]]
    for f in glob.glob(f"{work}/log_{t}/*.log"):
        txt = open(f, errors="replace").read()
        m = re.search(r"Done (\d+) runs", txt)
        if m: runs += int(m.group(1)); done += 1
        m = re.findall(r"cov: (\d+) ft: (\d+)", txt)
        if m: feats.append(int(m[-1][1]))
    cov["targets"][t] = {"processes": int(procs), "processes_finished": done, "runs": runs, "accepted_streams": decoded, "keyframes_rendered": rendered, "generated_streams_rejected": rejected, "distinct_nontrivial_sum_over_processes": nt, "max_libfuzzer_features": max(feats) if feats else 0}
    tot_runs += runs; tot_nt += nt
cov.update({
    "evaluations": tot_runs,
    "distinct_nontrivial": tot_nt,
    "rule": "libFuzzer (coverage-guided, -len_control=0) under AddressSanitizer, %s processes per target with seeds derived from VERIF_SEED, fixed -runs per process (decode_render %s, valid_shapes %s), fresh corpora seeded with 160 generated valid files (Modular / multi-frame / VarDCT / JPEG transcodes) + the repository's fuzz_findings + saved seeds (decode_render) or 256 random choice sequences (valid_shapes). decode_render: bytes = stream + 2 config bytes (buffer width, pool none/rayon 2/4, optional crop inside the image); renders every keyframe, reads the interleaved buffer and the u8 stream, attempts JPEG reconstruction; panics are caught (C01 decides them). valid_shapes: the input is a choice sequence for the jxlref generators (boundary-class dimensions, narrow i16 Modular paths, every VarDCT transform, filters, upsampling); decoded with both buffer widths. Oracle: any crash artefact = sanitizer report / SIGSEGV / abort. Non-trivial: decode_render - an accepted stream had a keyframe rendered; valid_shapes - a generated stream rendered and its width or height is in a lane/block/group boundary class; distinct by FNV of the stream within a process (the sum over processes may count a stream twice)." % (procs, rdr, rvs),
    "samples": samples[:10],
    "exhaustive": False,
    "inconclusive_events": int(inconc),
    "violations": int(viol),
})
ev = {"property_id": "C02", "tier": tier, "seed": int(seed), "level": "exploration", "coverage": cov, "wall_s": float(wall),
      "assumptions": ["only the SIMD paths this CPU selects are executed", "reads of uninitialised memory are not detected by AddressSanitizer (MemorySanitizer build not used); C12 (narrow = wide) and C07 (repeat determinism) cover them only indirectly", "libFuzzer campaigns are pinned by -seed/-runs only approximately; the saved artefact is the reproducible unit"],
      "trusted": ["libFuzzer / AddressSanitizer runtime of the nightly toolchain", "jxlref generators (valid_shapes)"], "tool": "cargo-fuzz 0.13 / libFuzzer + ASan"}
os.makedirs(os.path.dirname(out), exist_ok=True)
json.dump(ev, open(out, "w"), indent=1)
print(f"C02 {tier}: {tot_runs} runs, {tot_nt} distinct non-trivial, {viol} violations, {inconc} inconclusive, {wall}s")
PY
for l in "${lines[@]:-}"; do [ -n "$l" ] && echo "$l"; done
if [ $viol -gt 0 ]; then exit 1; fi
if [ $inconc -gt 0 ]; then echo "INCONCLUSIVE: $inconc libFuzzer timeout/oom artefact(s) saved under $ROOT/replays/C02/inconclusive"; exit 2; fi
exit 0
