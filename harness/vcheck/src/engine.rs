//! The deciding engine: proptest-driven generated-input search over choice
//! sequences, shrinking, replay files, known-findings handling, evidence.

use proptest::strategy::Strategy;
use proptest::test_runner::{Config, RngAlgorithm, RngSeed, TestCaseError, TestError, TestRunner};
use serde_json::{json, Value};
use std::collections::{BTreeMap, HashSet};
use std::io::{BufRead, BufReader, Read, Write};
use std::path::{Path, PathBuf};
use std::sync::atomic::{AtomicBool, AtomicU64, Ordering};
use std::sync::Mutex;
use std::time::{Duration, Instant};

#[derive(Clone, Copy, PartialEq, Eq, Debug)]
pub enum Tier {
    Quick,
    Thorough,
}

impl Tier {
    pub fn name(self) -> &'static str {
        match self {
            Tier::Quick => "quick",
            Tier::Thorough => "thorough",
        }
    }
}

#[derive(Clone, Debug)]
pub enum Verdict {
    /// Property held on this case.
    Pass,
    /// Property violated. `sig` is a stable signature (matched against the
    /// known-findings file); `detail` is free text.
    Fail { sig: String, detail: String },
    /// The generator could not build a meaningful case from these choices
    /// (counted, never a violation).
    Discard(String),
}

#[derive(Clone, Debug)]
pub struct Outcome {
    pub verdict: Verdict,
    pub nontrivial: bool,
    pub classes: Vec<String>,
    /// Human-readable rendering of the case (filled only when asked for).
    pub describe: Option<Value>,
    /// Hash identifying the *structured* case (distinctness).  0 = use hash of choice bytes.
    pub case_hash: u64,
}

impl Outcome {
    pub fn pass() -> Self {
        Outcome { verdict: Verdict::Pass, nontrivial: false, classes: vec![], describe: None, case_hash: 0 }
    }
    pub fn fail(sig: impl Into<String>, detail: impl Into<String>) -> Self {
        Outcome {
            verdict: Verdict::Fail { sig: sig.into(), detail: detail.into() },
            nontrivial: true,
            classes: vec![],
            describe: None,
            case_hash: 0,
        }
    }
    pub fn discard(why: impl Into<String>) -> Self {
        Outcome { verdict: Verdict::Discard(why.into()), nontrivial: false, classes: vec![], describe: None, case_hash: 0 }
    }
    pub fn class(mut self, c: impl Into<String>) -> Self {
        self.classes.push(c.into());
        self
    }
}

pub struct Plan {
    /// Generated cases (whole run, split over the runner threads).
    pub cases: usize,
    /// Upper bound on choice-sequence length.
    pub max_len: usize,
}

pub trait Check: Sync + Send {
    fn id(&self) -> &'static str;
    fn level(&self) -> &'static str {
        "exploration"
    }
    fn plan(&self, tier: Tier) -> Plan;
    /// Run cases in worker processes (panics/aborts/hangs are verdicts).
    fn isolated(&self) -> bool {
        false
    }
    /// Per-case deadline for isolated checks.
    fn deadline(&self) -> Duration {
        Duration::from_secs(20)
    }
    fn rule(&self) -> String;
    fn assumptions(&self) -> Vec<String> {
        vec![]
    }
    /// Called once per process before any case (install hooks etc.).
    fn init(&self) {}
    fn run(&self, choice: &[u8], describe: bool) -> Outcome;
    /// Extra fixed cases run before the generated ones (hand-written
    /// regressions); each is a choice sequence.
    fn fixed_cases(&self) -> Vec<(String, Vec<u8>)> {
        vec![]
    }
    /// Extra coverage keys for the evidence file.
    fn extra_coverage(&self) -> Vec<(String, Value)> {
        vec![]
    }
    /// Number of runner threads (default: all cores).
    fn threads(&self) -> usize {
        std::thread::available_parallelism().map(|n| n.get()).unwrap_or(8)
    }
}

pub fn verif_root() -> PathBuf {
    if let Ok(p) = std::env::var("VERIF_ROOT") {
        return PathBuf::from(p);
    }
    PathBuf::from("/verif")
}

pub fn fnv(data: &[u8]) -> u64 {
    let mut h = 0xcbf29ce484222325u64;
    for &b in data {
        h ^= b as u64;
        h = h.wrapping_mul(0x100000001b3);
    }
    h
}

pub fn hex(data: &[u8]) -> String {
    let mut s = String::with_capacity(data.len() * 2);
    for b in data {
        s.push_str(&format!("{b:02x}"));
    }
    s
}

pub fn unhex(s: &str) -> Vec<u8> {
    let s = s.trim();
    (0..s.len() / 2).map(|i| u8::from_str_radix(&s[2 * i..2 * i + 2], 16).unwrap()).collect()
}

// ---------------------------------------------------------------------------
// Panic capture (in-process).

thread_local! {
    static LAST_PANIC: std::cell::RefCell<Option<String>> = const { std::cell::RefCell::new(None) };
    static QUIET: std::cell::Cell<bool> = const { std::cell::Cell::new(false) };
}

pub fn install_panic_hook() {
    let prev = std::panic::take_hook();
    std::panic::set_hook(Box::new(move |info| {
        let loc = info.location().map(|l| format!("{}:{}", l.file(), l.line())).unwrap_or_default();
        let msg = if let Some(s) = info.payload().downcast_ref::<&str>() {
            s.to_string()
        } else if let Some(s) = info.payload().downcast_ref::<String>() {
            s.clone()
        } else {
            "<non-string panic>".to_string()
        };
        let loc = normalise_loc(&loc);
        // generic assertion sites (grid accessors, core arithmetic) say little: add the first caller in /repo
        let mut via = String::new();
        if loc.contains("jxl-grid/") || !loc.starts_with("crates/") {
            let bt = std::backtrace::Backtrace::force_capture().to_string();
            for l in bt.lines() {
                let l = l.trim();
                if let Some(rest) = l.strip_prefix("at ") {
                    // wherever the repository lives (/repo, or a scratch worktree in sensitivity runs)
                    if let Some(i) = rest.find("/crates/jxl-") {
                        let f = &rest[i + 1..];
                        if !f.contains("jxl-grid/") {
                            // drop the column
                            let f = f.rsplit_once(':').map(|x| x.0).unwrap_or(f);
                            via = format!(" [via {f}]");
                            break;
                        }
                    }
                }
            }
        }
        LAST_PANIC.with(|p| *p.borrow_mut() = Some(format!("{loc}: {msg}{via}")));
        // a panic on a pool thread is re-raised on the caller's thread by rayon without passing this hook again:
        // keep a process-wide copy as a fallback (exact in worker processes, which run one case at a time)
        if let Ok(mut g) = GLOBAL_LAST_PANIC.lock() {
            *g = Some(format!("{loc}: {msg}{via}"));
        }
        if !QUIET.with(|q| q.get()) {
            prev(info);
        }
    }));
}

fn normalise_loc(loc: &str) -> String {
    // make signatures independent of where the repo lives
    if let Some(i) = loc.find("crates/") {
        loc[i..].to_string()
    } else if let Some(i) = loc.find("/src/") {
        let start = loc[..i].rfind('/').map(|x| x + 1).unwrap_or(0);
        loc[start..].to_string()
    } else {
        loc.to_string()
    }
}

static GLOBAL_LAST_PANIC: Mutex<Option<String>> = Mutex::new(None);

/// Run `f`, turning a panic into `Err("file:line: message")`.
pub fn catch<T>(f: impl FnOnce() -> T) -> Result<T, String> {
    QUIET.with(|q| q.set(std::env::var("VERIF_DEBUG").is_err()));
    LAST_PANIC.with(|p| *p.borrow_mut() = None);
    if let Ok(mut g) = GLOBAL_LAST_PANIC.lock() {
        *g = None;
    }
    let r = std::panic::catch_unwind(std::panic::AssertUnwindSafe(f));
    QUIET.with(|q| q.set(false));
    match r {
        Ok(v) => Ok(v),
        Err(_) => Err(LAST_PANIC
            .with(|p| p.borrow_mut().take())
            .or_else(|| GLOBAL_LAST_PANIC.lock().ok().and_then(|mut g| g.take()))
            .unwrap_or_else(|| "panic (no message)".into())),
    }
}

/// Stable signature of a panic string: location + first 60 chars of the
/// message with digits collapsed.
pub fn panic_sig(p: &str) -> String {
    let mut out = String::new();
    let mut last_digit = false;
    // keep the location (up to first ": ") verbatim
    let (p, via) = match p.rfind(" [via ") {
        Some(i) => (&p[..i], &p[i..]),
        None => (p, ""),
    };
    let (loc, msg) = match p.find(": ") {
        Some(i) => (&p[..i], &p[i + 2..]),
        None => ("", p),
    };
    for c in msg.chars().take(80) {
        if c.is_ascii_digit() {
            if !last_digit {
                out.push('#');
            }
            last_digit = true;
        } else {
            out.push(c);
            last_digit = false;
        }
    }
    format!("panic@{loc}: {out}{via}")
}

// ---------------------------------------------------------------------------
// Known findings.

#[derive(Clone, Debug)]
pub struct KnownFinding {
    pub property: String,
    pub signature: String,
    pub what: String,
}

pub fn load_known_findings() -> Vec<KnownFinding> {
    let path = verif_root().join("known_findings.json");
    let Ok(text) = std::fs::read_to_string(&path) else { return vec![] };
    let v: Value = serde_json::from_str(&text).expect("known_findings.json is not valid JSON");
    let mut out = vec![];
    if let Some(arr) = v.get("findings").and_then(|x| x.as_array()) {
        for f in arr {
            out.push(KnownFinding {
                property: f["property"].as_str().unwrap_or("").to_string(),
                signature: f["signature"].as_str().unwrap_or("").to_string(),
                what: f["what"].as_str().unwrap_or("").to_string(),
            });
        }
    }
    out
}

// ---------------------------------------------------------------------------
// Worker processes (isolation).

struct Worker {
    child: std::process::Child,
    stdin: std::process::ChildStdin,
    rx: std::sync::mpsc::Receiver<String>,
}

impl Worker {
    fn spawn(id: &str) -> Worker {
        let exe = std::env::current_exe().unwrap();
        let mut child = std::process::Command::new(exe)
            .arg("worker")
            .arg(id)
            .stdin(std::process::Stdio::piped())
            .stdout(std::process::Stdio::piped())
            .stderr(std::process::Stdio::null())
            .spawn()
            .expect("spawn worker");
        let stdin = child.stdin.take().unwrap();
        let stdout = child.stdout.take().unwrap();
        let (tx, rx) = std::sync::mpsc::channel();
        std::thread::spawn(move || {
            let r = BufReader::new(stdout);
            for line in r.lines() {
                let Ok(line) = line else { break };
                if tx.send(line).is_err() {
                    break;
                }
            }
        });
        Worker { child, stdin, rx }
    }

    fn kill(&mut self) {
        let _ = self.child.kill();
        let _ = self.child.wait();
    }
}

pub enum IsoResult {
    Outcome(Outcome),
    Died(String),
    Timeout,
}

fn outcome_to_json(o: &Outcome) -> Value {
    let (v, sig, detail) = match &o.verdict {
        Verdict::Pass => ("pass", String::new(), String::new()),
        Verdict::Fail { sig, detail } => ("fail", sig.clone(), detail.clone()),
        Verdict::Discard(w) => ("discard", String::new(), w.clone()),
    };
    json!({"v": v, "sig": sig, "detail": detail, "nt": o.nontrivial, "classes": o.classes,
           "describe": o.describe, "hash": o.case_hash.to_string()})
}

fn outcome_from_json(v: &Value) -> Outcome {
    let verdict = match v["v"].as_str().unwrap_or("") {
        "pass" => Verdict::Pass,
        "fail" => Verdict::Fail {
            sig: v["sig"].as_str().unwrap_or("").to_string(),
            detail: v["detail"].as_str().unwrap_or("").to_string(),
        },
        _ => Verdict::Discard(v["detail"].as_str().unwrap_or("").to_string()),
    };
    Outcome {
        verdict,
        nontrivial: v["nt"].as_bool().unwrap_or(false),
        classes: v["classes"].as_array().map(|a| a.iter().filter_map(|x| x.as_str().map(String::from)).collect()).unwrap_or_default(),
        describe: if v["describe"].is_null() { None } else { Some(v["describe"].clone()) },
        case_hash: v["hash"].as_str().and_then(|s| s.parse().ok()).unwrap_or(0),
    }
}

/// Worker main loop: lines of `<d|n> <hex>` on stdin, one JSON line per case on stdout.
pub fn worker_main(check: &dyn Check) {
    install_panic_hook();
    check.init();
    let stdin = std::io::stdin();
    let stdout = std::io::stdout();
    for line in stdin.lock().lines() {
        let Ok(line) = line else { break };
        let describe = line.starts_with('d');
        let choice = unhex(line[1..].trim());
        let out = match catch(|| check.run(&choice, describe)) {
            Ok(o) => o,
            Err(p) => Outcome::fail(panic_sig(&p), p),
        };
        let mut so = stdout.lock();
        let _ = writeln!(so, "{}", outcome_to_json(&out));
        let _ = so.flush();
    }
}

fn iso_run(worker: &mut Option<Worker>, id: &str, choice: &[u8], describe: bool, deadline: Duration) -> IsoResult {
    if worker.is_none() {
        *worker = Some(Worker::spawn(id));
    }
    let w = worker.as_mut().unwrap();
    let line = format!("{} {}\n", if describe { 'd' } else { 'n' }, hex(choice));
    if w.stdin.write_all(line.as_bytes()).is_err() || w.stdin.flush().is_err() {
        // died before we could even send: restart once
        w.kill();
        *worker = Some(Worker::spawn(id));
        let w = worker.as_mut().unwrap();
        let _ = w.stdin.write_all(line.as_bytes());
        let _ = w.stdin.flush();
    }
    let w = worker.as_mut().unwrap();
    match w.rx.recv_timeout(deadline) {
        Ok(l) => match serde_json::from_str::<Value>(&l) {
            Ok(v) => IsoResult::Outcome(outcome_from_json(&v)),
            Err(_) => IsoResult::Died(format!("garbled worker output: {l}")),
        },
        Err(std::sync::mpsc::RecvTimeoutError::Timeout) => {
            w.kill();
            *worker = None;
            IsoResult::Timeout
        }
        Err(std::sync::mpsc::RecvTimeoutError::Disconnected) => {
            let status = w.child.wait().ok();
            *worker = None;
            let how = match status {
                Some(s) => {
                    use std::os::unix::process::ExitStatusExt;
                    if let Some(sig) = s.signal() {
                        format!("signal {sig}")
                    } else {
                        format!("exit {:?}", s.code())
                    }
                }
                None => "unknown".into(),
            };
            IsoResult::Died(how)
        }
    }
}

// ---------------------------------------------------------------------------
// Runner.

#[derive(Default)]
struct Stats {
    evaluations: u64,
    discards: u64,
    nontrivial_hashes: HashSet<u64>,
    classes: BTreeMap<String, u64>,
    discard_reasons: BTreeMap<String, u64>,
    known_hits: BTreeMap<String, u64>,
    samples: Vec<Value>,
    inconclusive: Vec<String>,
}

pub struct Failure {
    pub choice: Vec<u8>,
    pub sig: String,
    pub detail: String,
}

pub struct RunResult {
    pub exit: i32,
}

fn seed_from_env() -> u64 {
    std::env::var("VERIF_SEED").ok().and_then(|s| s.trim().parse::<i64>().ok()).map(|v| v as u64).unwrap_or(0)
}

fn mix(a: u64, b: u64) -> u64 {
    let mut x = a.wrapping_mul(0x9E3779B97F4A7C15) ^ b.wrapping_add(0xD1B54A32D192ED03).rotate_left(23);
    x ^= x >> 29;
    x = x.wrapping_mul(0xBF58476D1CE4E5B9);
    x ^= x >> 32;
    x
}

/// Evaluate one case either in-process or through a worker; hangs are
/// confirmed by a second, solitary run with a 10x deadline.
fn eval(check: &dyn Check, worker: &mut Option<Worker>, choice: &[u8], describe: bool, inconclusive: &mut Vec<String>) -> Outcome {
    if !check.isolated() || std::env::var("VERIF_NO_ISOLATION").is_ok() {
        let t0 = Instant::now();
        let r = match catch(|| check.run(choice, describe)) {
            Ok(o) => o,
            Err(p) => Outcome::fail(panic_sig(&p), p),
        };
        let dt = t0.elapsed();
        if dt.as_secs() >= 20 {
            eprintln!("SLOW-CASE {} {:.1}s choice={}", check.id(), dt.as_secs_f64(), hex(choice));
        }
        return r;
    }
    match iso_run(worker, check.id(), choice, describe, check.deadline()) {
        IsoResult::Outcome(o) => o,
        IsoResult::Died(how) => {
            // re-run alone to attribute the death to this case
            let mut w2 = None;
            let r = iso_run(&mut w2, check.id(), choice, describe, check.deadline() * 10);
            if let Some(mut w) = w2 {
                w.kill();
            }
            match r {
                IsoResult::Died(how2) => Outcome::fail(format!("abort:{how2}"), format!("worker process died ({how}); reproduced alone ({how2})")),
                IsoResult::Outcome(o) => {
                    inconclusive.push(format!("worker died ({how}) but case passed alone: {}", hex(choice)));
                    o
                }
                IsoResult::Timeout => Outcome::fail("hang", "worker died, then the case alone exceeded 10x deadline"),
            }
        }
        IsoResult::Timeout => {
            let mut w2 = None;
            let r = iso_run(&mut w2, check.id(), choice, describe, check.deadline() * 10);
            if let Some(mut w) = w2 {
                w.kill();
            }
            match r {
                IsoResult::Timeout => Outcome::fail("hang", format!("case exceeded {:?} and, alone, {:?}", check.deadline(), check.deadline() * 10)),
                IsoResult::Outcome(o) => {
                    inconclusive.push(format!("deadline overrun not confirmed: {}", hex(choice)));
                    o
                }
                IsoResult::Died(how) => Outcome::fail(format!("abort:{how}"), "worker died on solitary re-run"),
            }
        }
    }
}

fn is_known(known: &[KnownFinding], id: &str, sig: &str) -> Option<usize> {
    known.iter().position(|k| k.property == id && sig.contains(&k.signature))
}

fn replay_dir(id: &str) -> PathBuf {
    verif_root().join("replays").join(id)
}

fn list_replays(id: &str) -> Vec<(PathBuf, Vec<u8>)> {
    let mut out = vec![];
    let Ok(rd) = std::fs::read_dir(replay_dir(id)) else { return out };
    let mut paths: Vec<_> = rd.filter_map(|e| e.ok()).map(|e| e.path()).filter(|p| p.extension().map(|e| e == "json").unwrap_or(false)).collect();
    paths.sort();
    for p in paths {
        if let Ok(text) = std::fs::read_to_string(&p) {
            if let Ok(v) = serde_json::from_str::<Value>(&text) {
                if let Some(h) = v["choice_hex"].as_str() {
                    out.push((p, unhex(h)));
                }
            }
        }
    }
    out
}

fn write_replay(id: &str, name: &str, choice: &[u8], sig: &str, detail: &str, describe: Option<Value>) -> PathBuf {
    let dir = replay_dir(id);
    let _ = std::fs::create_dir_all(&dir);
    let path = dir.join(format!("{name}.json"));
    let v = json!({
        "property": id,
        "choice_hex": hex(choice),
        "signature": sig,
        "detail": detail,
        "case": describe,
        "replay": format!("./run.sh replay {}", path.display()),
    });
    let _ = std::fs::write(&path, serde_json::to_string_pretty(&v).unwrap());
    path
}

pub fn run_check(check: &dyn Check, tier: Tier) -> i32 {
    let start = Instant::now();
    let id = check.id();
    let seed = seed_from_env();
    install_panic_hook();
    check.init();
    let known = load_known_findings();
    let plan = check.plan(tier);
    let stats = Mutex::new(Stats::default());
    let stop = AtomicBool::new(false);
    let failure: Mutex<Option<Failure>> = Mutex::new(None);
    let unknown_failures: Mutex<Vec<(PathBuf, String)>> = Mutex::new(vec![]);

    let record = |stats: &Mutex<Stats>, choice: &[u8], o: &Outcome| {
        let mut s = stats.lock().unwrap();
        s.evaluations += 1;
        match &o.verdict {
            Verdict::Discard(w) => {
                s.discards += 1;
                *s.discard_reasons.entry(w.clone()).or_default() += 1;
            }
            _ => {
                if o.nontrivial {
                    let h = if o.case_hash != 0 { o.case_hash } else { fnv(choice) };
                    s.nontrivial_hashes.insert(h);
                }
                for c in &o.classes {
                    *s.classes.entry(c.clone()).or_default() += 1;
                }
            }
        }
    };

    // ---- tier 0: saved replays and fixed regressions (strict) -------------
    let mut fixed: Vec<(String, Vec<u8>)> = check.fixed_cases();
    for (p, c) in list_replays(id) {
        fixed.push((p.display().to_string(), c));
    }
    let n_fixed = fixed.len();
    {
        let mut worker = None;
        let mut inconc = vec![];
        for (name, choice) in &fixed {
            let o = eval(check, &mut worker, choice, false, &mut inconc);
            record(&stats, choice, &o);
            if let Verdict::Fail { sig, detail } = &o.verdict {
                if let Some(k) = is_known(&known, id, sig) {
                    *stats.lock().unwrap().known_hits.entry(known[k].signature.clone()).or_default() += 1;
                } else {
                    let path = if Path::new(name).exists() {
                        PathBuf::from(name)
                    } else {
                        write_replay(id, &format!("fixed-{:016x}", fnv(choice)), choice, sig, detail, None)
                    };
                    unknown_failures.lock().unwrap().push((path, format!("{sig} :: {detail}")));
                }
            }
        }
        if let Some(mut w) = worker {
            w.kill();
        }
        stats.lock().unwrap().inconclusive.extend(inconc);
    }

    // ---- tier 1: generated search ----------------------------------------
    let threads = check.threads().max(1);
    let per_thread = plan.cases.div_ceil(threads);
    let sample_every = (per_thread / 2).max(1);
    let done_cases = AtomicU64::new(0);
    let keep_going = std::env::var_os("VERIF_KEEP_GOING").is_some();
    let seen_sigs: Mutex<std::collections::HashSet<String>> = Mutex::new(Default::default());
    if unknown_failures.lock().unwrap().is_empty() || keep_going {
        std::thread::scope(|scope| {
            for t in 0..threads {
                let stats = &stats;
                let stop = &stop;
                let failure = &failure;
                let known = &known;
                let done_cases = &done_cases;
                let seen_sigs = &seen_sigs;
                let unknown_failures = &unknown_failures;
                scope.spawn(move || {
                    let cfg = Config {
                        cases: per_thread as u32,
                        failure_persistence: None,
                        rng_seed: RngSeed::Fixed(mix(seed, t as u64 + 1)),
                        rng_algorithm: RngAlgorithm::ChaCha,
                        max_shrink_iters: 4000,
                        // a failing case may be slow (e.g. waits for late releases): bound shrinking by time too
                        max_shrink_time: 90_000,
                        max_local_rejects: 1_000_000,
                        max_global_rejects: 1_000_000,
                        ..Config::default()
                    };
                    let mut runner = TestRunner::new(cfg);
                    let strat = choice_strategy(plan.max_len);
                    let worker = std::cell::RefCell::new(None::<Worker>);
                    let counting = std::cell::Cell::new(true);
                    let no_shrink_reported = std::cell::Cell::new(false);
                    let local_n = std::cell::Cell::new(0usize);
                    let last_fail = std::cell::RefCell::new(None::<(String, String)>);
                    let res = runner.run(&strat, |choice: Vec<u8>| {
                        if stop.load(Ordering::Relaxed) && (counting.get() || no_shrink_reported.get()) {
                            // another thread found a failure; finish quickly
                            return Ok(());
                        }
                        let n = local_n.get();
                        local_n.set(n + 1);
                        let describe = counting.get() && t == 0 && (n % sample_every == 0 || n < 2);
                        let mut inconc = vec![];
                        let o = eval(check, &mut worker.borrow_mut(), &choice, describe, &mut inconc);
                        if !inconc.is_empty() {
                            stats.lock().unwrap().inconclusive.extend(inconc);
                        }
                        if counting.get() {
                            record(stats, &choice, &o);
                            done_cases.fetch_add(1, Ordering::Relaxed);
                            if let Some(d) = &o.describe {
                                let mut s = stats.lock().unwrap();
                                if s.samples.len() < 8 && !matches!(o.verdict, Verdict::Discard(_)) {
                                    s.samples.push(d.clone());
                                }
                            }
                        }
                        match &o.verdict {
                            Verdict::Fail { sig, detail } => {
                                if let Some(k) = is_known(known, check.id(), sig) {
                                    if counting.get() {
                                        *stats.lock().unwrap().known_hits.entry(known[k].signature.clone()).or_default() += 1;
                                    }
                                    Ok(())
                                } else if keep_going {
                                    // survey mode (VERIF_KEEP_GOING=1): record one unshrunk case per new signature and go on
                                    let mut seen = seen_sigs.lock().unwrap();
                                    if seen.insert(sig.clone()) {
                                        let path = write_replay(check.id(), &format!("fail-{:016x}", fnv(&choice)), &choice, sig, detail, None);
                                        unknown_failures.lock().unwrap().push((path, format!("{} :: {}", sig, truncate(detail, 300))));
                                    }
                                    Ok(())
                                } else if sig == "hang" || sig.starts_with("abort:") {
                                    // do not shrink hangs / process deaths (every shrink step would cost a full deadline)
                                    if counting.get() {
                                        counting.set(false);
                                        no_shrink_reported.set(true);
                                        stop.store(true, Ordering::Relaxed);
                                        let mut f = failure.lock().unwrap();
                                        if f.is_none() {
                                            *f = Some(Failure { choice: choice.clone(), sig: sig.clone(), detail: detail.clone() });
                                        }
                                    }
                                    Ok(())
                                } else {
                                    counting.set(false);
                                    stop.store(true, Ordering::Relaxed);
                                    *last_fail.borrow_mut() = Some((sig.clone(), detail.clone()));
                                    Err(TestCaseError::fail(sig.clone()))
                                }
                            }
                            _ => Ok(()),
                        }
                    });
                    if let Some(mut w) = worker.borrow_mut().take() {
                        w.kill();
                    }
                    if let Err(TestError::Fail(_, minimal)) = res {
                        // re-evaluate the minimal case to get its signature/detail
                        let mut inconc = vec![];
                        let mut w = None;
                        let o = eval(check, &mut w, &minimal, true, &mut inconc);
                        if let Some(mut w) = w {
                            w.kill();
                        }
                        let (sig, detail) = match &o.verdict {
                            Verdict::Fail { sig, detail } => (sig.clone(), detail.clone()),
                            _ => last_fail.borrow().clone().unwrap_or(("unstable".into(), "minimal case did not fail on re-run".into())),
                        };
                        let mut f = failure.lock().unwrap();
                        if f.is_none() {
                            *f = Some(Failure { choice: minimal, sig, detail });
                        }
                    }
                });
            }
        });
    }

    // ---- verdict ----------------------------------------------------------
    let mut exit = 0;
    let mut violations = 0;
    let mut violation_lines = vec![];
    for (path, what) in unknown_failures.lock().unwrap().iter() {
        violations += 1;
        violation_lines.push(format!("VIOLATION property={id} replay={} ({what})", path.display()));
    }
    if let Some(f) = failure.lock().unwrap().as_ref() {
        // describe the minimal case
        let mut w = None;
        let mut inconc = vec![];
        let o = eval(check, &mut w, &f.choice, true, &mut inconc);
        if let Some(mut w) = w {
            w.kill();
        }
        let path = write_replay(id, &format!("fail-{:016x}", fnv(&f.choice)), &f.choice, &f.sig, &f.detail, o.describe);
        violations += 1;
        violation_lines.push(format!("VIOLATION property={id} replay={} ({} :: {})", path.display(), f.sig, truncate(&f.detail, 300)));
    }
    let st = stats.lock().unwrap();
    for k in known.iter().filter(|k| k.property == id) {
        let hits = st.known_hits.get(&k.signature).copied().unwrap_or(0);
        println!("KNOWN-FINDING: property={id} {} [signature={}; reproduced {} times this run]", k.what, k.signature, hits);
    }
    for l in &violation_lines {
        println!("{l}");
    }
    if violations > 0 {
        exit = 1;
    } else if !st.inconclusive.is_empty() {
        for l in st.inconclusive.iter().take(5) {
            eprintln!("INCONCLUSIVE: {l}");
        }
        // inconclusive watchdog events are reported but are not violations
    }

    // ---- evidence ---------------------------------------------------------
    let mut coverage = serde_json::Map::new();
    coverage.insert("evaluations".into(), json!(st.evaluations));
    coverage.insert("distinct_nontrivial".into(), json!(st.nontrivial_hashes.len()));
    coverage.insert("rule".into(), json!(check.rule()));
    let mut samples = st.samples.clone();
    if samples.is_empty() {
        samples.push(json!("no sample captured (run ended before the first sampled case)"));
    }
    coverage.insert("samples".into(), Value::Array(samples));
    coverage.insert("exhaustive".into(), json!(false));
    coverage.insert("generated_cases".into(), json!(done_cases.load(Ordering::Relaxed)));
    coverage.insert("fixed_and_replay_cases".into(), json!(n_fixed));
    coverage.insert("discarded".into(), json!(st.discards));
    coverage.insert("discard_reasons".into(), json!(st.discard_reasons));
    coverage.insert("class_histogram".into(), json!(st.classes));
    coverage.insert("known_finding_hits".into(), json!(st.known_hits));
    coverage.insert("inconclusive_events".into(), json!(st.inconclusive.len()));
    coverage.insert("runner_threads".into(), json!(threads));
    coverage.insert("max_choice_len".into(), json!(plan.max_len));
    for (k, v) in check.extra_coverage() {
        coverage.insert(k, v);
    }
    let ev = json!({
        "property_id": id,
        "tier": tier.name(),
        "seed": seed as i64,
        "level": check.level(),
        "coverage": Value::Object(coverage),
        "assumptions": check.assumptions(),
        "wall_s": start.elapsed().as_secs_f64(),
        "violations": violations,
    });
    let evdir = verif_root().join("evidence");
    let _ = std::fs::create_dir_all(&evdir);
    std::fs::write(evdir.join(format!("{id}.json")), serde_json::to_string_pretty(&ev).unwrap()).expect("write evidence");
    println!(
        "{id} {}: {} evaluations ({} generated, {} fixed/replay), {} distinct non-trivial, {} discarded, {} violations, {:.1}s",
        tier.name(),
        st.evaluations,
        done_cases.load(Ordering::Relaxed),
        n_fixed,
        st.nontrivial_hashes.len(),
        st.discards,
        violations,
        start.elapsed().as_secs_f64()
    );
    exit
}

fn truncate(s: &str, n: usize) -> String {
    if s.len() <= n {
        s.to_string()
    } else {
        let mut e = n;
        while !s.is_char_boundary(e) {
            e -= 1;
        }
        format!("{}…", &s[..e])
    }
}

/// Byte-vector strategy whose length distribution is spread over several
/// scales (so that small, medium and large structured cases all occur).
fn choice_strategy(max_len: usize) -> impl Strategy<Value = Vec<u8>> {
    use proptest::prelude::*;
    let small = (max_len / 16).max(8);
    let mid = (max_len / 4).max(16);
    let body = prop_oneof![
        2 => proptest::collection::vec(any::<u8>(), 0..small),
        3 => proptest::collection::vec(any::<u8>(), 0..mid),
        3 => proptest::collection::vec(any::<u8>(), 0..max_len.max(32)),
    ];
    // every generated sequence ends with a tail seed (jxlref::src::append_tail_seed): generator decisions
    // that were added after replays had been recorded draw from it, so that recorded sequences - which
    // lack the trailer - keep producing exactly the case they produced when they were recorded
    (body, any::<u64>()).prop_map(|(mut v, seed)| {
        jxlref::src::append_tail_seed(&mut v, seed);
        v
    })
}

/// Replay one file strictly: exit 1 if the case fails (known or not).
pub fn replay_file(check: &dyn Check, path: &Path) -> i32 {
    install_panic_hook();
    check.init();
    let text = std::fs::read_to_string(path).expect("read replay");
    let v: Value = serde_json::from_str(&text).expect("replay json");
    let choice = unhex(v["choice_hex"].as_str().expect("choice_hex"));
    let mut w = None;
    let mut inconc = vec![];
    let o = eval(check, &mut w, &choice, true, &mut inconc);
    if let Some(mut w) = w {
        w.kill();
    }
    println!("case: {}", serde_json::to_string_pretty(&o.describe).unwrap_or_default());
    match &o.verdict {
        Verdict::Fail { sig, detail } => {
            println!("FAIL {sig}\n{detail}");
            println!("VIOLATION property={} replay={}", check.id(), path.display());
            1
        }
        Verdict::Pass => {
            println!("PASS (nontrivial={}, classes={:?})", o.nontrivial, o.classes);
            0
        }
        Verdict::Discard(w) => {
            println!("DISCARD {w}");
            0
        }
    }
}

#[allow(dead_code)]
pub fn read_all(mut r: impl Read) -> Vec<u8> {
    let mut v = vec![];
    let _ = r.read_to_end(&mut v);
    v
}

/// Greedy byte-level minimiser for a saved failing case: deletes chunks and
/// zeroes / halves bytes while the failure signature stays the same.
pub fn shrink_file(check: &dyn Check, path: &Path) -> i32 {
    install_panic_hook();
    check.init();
    let text = std::fs::read_to_string(path).expect("read replay");
    let v: Value = serde_json::from_str(&text).expect("replay json");
    let mut choice = unhex(v["choice_hex"].as_str().expect("choice_hex"));
    let mut w = None;
    let mut inconc = vec![];
    let sig0 = match eval(check, &mut w, &choice, false, &mut inconc).verdict {
        Verdict::Fail { sig, .. } => sig,
        _ => {
            println!("case does not fail");
            return 0;
        }
    };
    let mut fails = |c: &[u8], w: &mut Option<Worker>| -> bool { matches!(eval(check, w, c, false, &mut vec![]).verdict, Verdict::Fail { ref sig, .. } if *sig == sig0) };
    let mut improved = true;
    let mut rounds = 0;
    while improved && rounds < 12 {
        improved = false;
        rounds += 1;
        // delete chunks
        let mut size = (choice.len() / 2).max(1);
        while size >= 1 {
            let mut i = 0;
            while i + size <= choice.len() {
                let mut c = choice.clone();
                c.drain(i..i + size);
                if fails(&c, &mut w) {
                    choice = c;
                    improved = true;
                } else {
                    i += size;
                }
            }
            if size == 1 {
                break;
            }
            size /= 2;
        }
        // simplify bytes
        for i in 0..choice.len() {
            for cand in [0u8, choice[i] / 2, choice[i].saturating_sub(1)] {
                if cand < choice[i] {
                    let mut c = choice.clone();
                    c[i] = cand;
                    if fails(&c, &mut w) {
                        choice = c;
                        improved = true;
                        break;
                    }
                }
            }
        }
    }
    if let Some(mut w) = w {
        w.kill();
    }
    let o = eval(check, &mut None, &choice, true, &mut inconc);
    let (sig, detail) = match &o.verdict {
        Verdict::Fail { sig, detail } => (sig.clone(), detail.clone()),
        _ => (sig0.clone(), String::new()),
    };
    let out = write_replay(check.id(), &format!("min-{:016x}", fnv(&choice)), &choice, &sig, &detail, o.describe);
    println!("minimised to {} choice bytes: {}", choice.len(), out.display());
    0
}
