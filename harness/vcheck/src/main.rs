mod checks;
mod engine;
mod util;

use engine::Tier;

fn usage() -> ! {
    eprintln!("usage: vcheck <Cxx> --tier quick|thorough\n       vcheck replay <file>\n       vcheck worker <Cxx>\n       vcheck list");
    std::process::exit(2)
}

fn main() {
    let args: Vec<String> = std::env::args().collect();
    if args.len() < 2 {
        usage();
    }
    match args[1].as_str() {
        "list" => {
            for c in checks::all() {
                println!("{}", c.id());
            }
        }
        "worker" => {
            let id = args.get(2).unwrap_or_else(|| usage());
            let c = checks::by_id(id).unwrap_or_else(|| usage());
            engine::worker_main(&*c);
        }
        "shrink" => {
            let path = std::path::PathBuf::from(args.get(2).unwrap_or_else(|| usage()));
            let text = std::fs::read_to_string(&path).expect("read replay file");
            let v: serde_json::Value = serde_json::from_str(&text).expect("replay json");
            let id = v["property"].as_str().expect("property").to_string();
            let c = checks::by_id(&id).unwrap_or_else(|| usage());
            std::process::exit(engine::shrink_file(&*c, &path));
        }
        "info" => {
            // debugging aid: headers of a file as the decoder sees them
            let data = std::fs::read(args.get(2).unwrap_or_else(|| usage())).expect("read file");
            // fed in small pieces so that frames loaded before an error are still listed
            let mut uninit = Some(jxl_oxide::JxlImage::builder().build_uninit());
            let mut image: Option<jxl_oxide::JxlImage> = None;
            let mut pending: Vec<u8> = vec![];
            for piece in data.chunks(16) {
                pending.extend_from_slice(piece);
                if let Some(img) = image.as_mut() {
                    match img.feed_bytes(&pending) {
                        Ok(c) => {
                            pending.drain(..c);
                        }
                        Err(e) => {
                            println!("feed error: {e}");
                            break;
                        }
                    }
                } else {
                    let mut u = uninit.take().unwrap();
                    match u.feed_bytes(&pending) {
                        Ok(c) => {
                            pending.drain(..c);
                        }
                        Err(e) => {
                            println!("feed error (uninit): {e}");
                            break;
                        }
                    }
                    match u.try_init() {
                        Ok(jxl_oxide::InitializeResult::Initialized(i)) => image = Some(i),
                        Ok(jxl_oxide::InitializeResult::NeedMoreData(u)) => uninit = Some(u),
                        Err(e) => {
                            println!("init error: {e}");
                            break;
                        }
                    }
                }
            }
            if let Some(img) = image {
                let h = img.image_header();
                println!("image {}x{} metadata: {:?}", h.size.width, h.size.height, h.metadata);
                for i in 0..img.num_loaded_frames() + 1 {
                    println!("frame {i} @{:?}: {:?}", img.frame_offset(i), img.frame(i).map(|f| f.header()));
                }
                println!("loaded frames {} keyframes {} done {}", img.num_loaded_frames(), img.num_loaded_keyframes(), img.is_loading_done());
            }
        }
        "render" => {
            // debugging aid: read a file and render every keyframe (panics propagate)
            let data = std::fs::read(args.get(2).unwrap_or_else(|| usage())).expect("read file");
            let threads: usize = args.get(3).and_then(|s| s.parse().ok()).unwrap_or(0);
            let pool = if threads == 0 { jxl_oxide::JxlThreadPool::none() } else { jxl_oxide::JxlThreadPool::rayon(Some(threads)) };
            match jxl_oxide::JxlImage::builder().pool(pool).read(std::io::Cursor::new(&data[..])) {
                Ok(mut img) => {
                    // optional crop: render <file> <threads> <left> <top> <width> <height>
                    let n = |i: usize| args.get(i).and_then(|s| s.parse::<u32>().ok());
                    if let (Some(l), Some(t), Some(w), Some(h)) = (n(4), n(5), n(6), n(7)) {
                        img.set_image_region(jxl_oxide::CropInfo { left: l, top: t, width: w, height: h });
                    }
                    // VERIF_ORDER=2,0,1 renders the keyframes in that order (default: ascending)
                    let order: Vec<usize> = match std::env::var("VERIF_ORDER") {
                        Ok(o) => o.split(',').filter_map(|s| s.parse().ok()).collect(),
                        Err(_) => (0..img.num_loaded_keyframes()).collect(),
                    };
                    for k in order {
                        match img.render_frame(k) {
                            Ok(r) => {
                                let mut h = 0xcbf29ce484222325u64;
                                for p in r.image_planar() {
                                    for v in p.buf() {
                                        h = (h ^ v.to_bits() as u64).wrapping_mul(0x100000001b3);
                                    }
                                }
                                println!("keyframe {k}: ok, {} colour + {} extra channels, sample hash {h:016x}, raw grid of channel 0: {}x{}", r.color_channels().len(), r.extra_channels().1.len(), r.color_channels()[0].width(), r.color_channels()[0].height());
                                // VERIF_PX=x,y prints the samples at that buffer position
                                if let Ok(px) = std::env::var("VERIF_PX") {
                                    let v: Vec<usize> = px.split(',').filter_map(|s| s.parse().ok()).collect();
                                    for (c, p) in r.image_planar().iter().enumerate() {
                                        let (w, h) = (p.width(), p.height());
                                        if v.len() == 2 && v[0] < w && v[1] < h {
                                            println!("  channel {c} ({w}x{h}) at ({},{}) = {:?}", v[0], v[1], p.buf()[v[1] * w + v[0]]);
                                        }
                                    }
                                }
                            }
                            Err(e) => println!("keyframe {k}: error {e}"),
                        }
                    }
                }
                Err(e) => println!("read error: {e}"),
            }
        }
        "gencorpus" => {
            // gencorpus <dir> <n> <seed>: valid streams from the jxlref generators (+ 2 config bytes) as fuzzing seeds
            let dir = std::path::PathBuf::from(args.get(2).unwrap_or_else(|| usage()));
            let n: usize = args.get(3).and_then(|s| s.parse().ok()).unwrap_or(64);
            let seed: u64 = args.get(4).and_then(|s| s.parse().ok()).unwrap_or(0);
            std::fs::create_dir_all(&dir).expect("mkdir");
            let mut x = seed.wrapping_mul(0x9E3779B97F4A7C15) | 1;
            for i in 0..n {
                let mut choice = vec![0u8; 4096];
                for b in choice.iter_mut() {
                    x ^= x << 13;
                    x ^= x >> 7;
                    x ^= x << 17;
                    *b = (x >> 24) as u8;
                }
                jxlref::src::append_tail_seed(&mut choice, x);
                let mut src = jxlref::src::Src::new(&choice);
                let mut bytes = if i % 5 == 4 {
                    jxlref::gen::jpeg::gen_jpeg_case(&mut src, &Default::default()).jxl
                } else {
                    let mut ao = jxlref::gen::stream::AnyOpts::default();
                    ao.modular.max_dim = 128;
                    ao.vardct.big_square = 0;
                    ao.vardct.multi_lf_group = 0;
                    jxlref::gen::stream::gen_any_file(&mut src, &ao).1.file
                };
                if bytes.len() > 8000 {
                    continue;
                }
                bytes.extend_from_slice(&[(x >> 8) as u8, (x >> 16) as u8]);
                std::fs::write(dir.join(format!("gen-{seed}-{i}")), &bytes).expect("write");
            }
        }
        "replay" => {
            let path = std::path::PathBuf::from(args.get(2).unwrap_or_else(|| usage()));
            let text = std::fs::read_to_string(&path).expect("read replay file");
            let v: serde_json::Value = serde_json::from_str(&text).expect("replay json");
            let id = v["property"].as_str().expect("property").to_string();
            let c = checks::by_id(&id).unwrap_or_else(|| usage());
            std::process::exit(engine::replay_file(&*c, &path));
        }
        id => {
            let c = checks::by_id(id).unwrap_or_else(|| usage());
            let mut tier = match std::env::var("VERIF_TIER").as_deref() {
                Ok("thorough") => Tier::Thorough,
                _ => Tier::Quick,
            };
            let mut i = 2;
            while i < args.len() {
                match args[i].as_str() {
                    "--tier" => {
                        tier = match args.get(i + 1).map(|s| s.as_str()) {
                            Some("quick") => Tier::Quick,
                            Some("thorough") => Tier::Thorough,
                            _ => usage(),
                        };
                        i += 1;
                    }
                    "--seed" => {
                        std::env::set_var("VERIF_SEED", args.get(i + 1).unwrap_or_else(|| usage()));
                        i += 1;
                    }
                    _ => usage(),
                }
                i += 1;
            }
            std::env::set_var("VERIF_TIER", tier.name());
            std::process::exit(engine::run_check(&*c, tier));
        }
    }
}
