mod checks;
mod engine;
mod util;

use engine::Tier;

fn usage() -> ! {
    eprintln!("usage: vcheck <Cxx> --tier quick|thorough\n       vcheck replay <file>\n       vcheck worker <Cxx>\n       vcheck list");
    std::process::exit(2)
}

fn main() {
    let args: Vec<String> = std::env::args().collect();
    if args.len() < 2 {
        usage();
    }
    match args[1].as_str() {
        "list" => {
            for c in checks::all() {
                println!("{}", c.id());
            }
        }
        "worker" => {
            let id = args.get(2).unwrap_or_else(|| usage());
            let c = checks::by_id(id).unwrap_or_else(|| usage());
            engine::worker_main(&*c);
        }
        "shrink" => {
            let path = std::path::PathBuf::from(args.get(2).unwrap_or_else(|| usage()));
            let text = std::fs::read_to_string(&path).expect("read replay file");
            let v: serde_json::Value = serde_json::from_str(&text).expect("replay json");
            let id = v["property"].as_str().expect("property").to_string();
            let c = checks::by_id(&id).unwrap_or_else(|| usage());
            std::process::exit(engine::shrink_file(&*c, &path));
        }
        "info" => {
            // debugging aid: headers of a file as the decoder sees them
            let data = std::fs::read(args.get(2).unwrap_or_else(|| usage())).expect("read file");
            match jxl_oxide::JxlImage::builder().read(std::io::Cursor::new(&data[..])) {
                Ok(img) => {
                    let h = img.image_header();
                    println!("image {}x{} metadata: {:?}", h.size.width, h.size.height, h.metadata);
                    for i in 0..img.num_loaded_frames() {
                        println!("frame {i} @{:?}: {:?}", img.frame_offset(i), img.frame(i).map(|f| f.header()));
                    }
                    println!("loaded frames {} keyframes {} done {}", img.num_loaded_frames(), img.num_loaded_keyframes(), img.is_loading_done());
                }
                Err(e) => println!("read error: {e}"),
            }
        }
        "replay" => {
            let path = std::path::PathBuf::from(args.get(2).unwrap_or_else(|| usage()));
            let text = std::fs::read_to_string(&path).expect("read replay file");
            let v: serde_json::Value = serde_json::from_str(&text).expect("replay json");
            let id = v["property"].as_str().expect("property").to_string();
            let c = checks::by_id(&id).unwrap_or_else(|| usage());
            std::process::exit(engine::replay_file(&*c, &path));
        }
        id => {
            let c = checks::by_id(id).unwrap_or_else(|| usage());
            let mut tier = match std::env::var("VERIF_TIER").as_deref() {
                Ok("thorough") => Tier::Thorough,
                _ => Tier::Quick,
            };
            let mut i = 2;
            while i < args.len() {
                match args[i].as_str() {
                    "--tier" => {
                        tier = match args.get(i + 1).map(|s| s.as_str()) {
                            Some("quick") => Tier::Quick,
                            Some("thorough") => Tier::Thorough,
                            _ => usage(),
                        };
                        i += 1;
                    }
                    "--seed" => {
                        std::env::set_var("VERIF_SEED", args.get(i + 1).unwrap_or_else(|| usage()));
                        i += 1;
                    }
                    _ => usage(),
                }
                i += 1;
            }
            std::env::set_var("VERIF_TIER", tier.name());
            std::process::exit(engine::run_check(&*c, tier));
        }
    }
}
