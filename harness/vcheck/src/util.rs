//! Helpers shared by checks that drive the top-level decoder API.

use jxl_oxide::{JxlImage, JxlThreadPool, Render};
use jxl_render::ImageBuffer;
use jxlref::headers::BitDepthSpec;

pub enum Grid {
    I(Vec<i32>, usize, usize),
    F(Vec<f32>, usize, usize),
}

impl Grid {
    pub fn dims(&self) -> (usize, usize) {
        match self {
            Grid::I(_, w, h) | Grid::F(_, w, h) => (*w, *h),
        }
    }
}

pub fn grid_of(b: &ImageBuffer) -> Grid {
    match b {
        ImageBuffer::F32(g) => {
            let (w, h) = (g.width(), g.height());
            let mut v = Vec::with_capacity(w * h);
            for y in 0..h {
                v.extend_from_slice(&g.get_row(y)[..w]);
            }
            Grid::F(v, w, h)
        }
        ImageBuffer::I32(g) => {
            let (w, h) = (g.width(), g.height());
            let mut v = Vec::with_capacity(w * h);
            for y in 0..h {
                v.extend_from_slice(&g.get_row(y)[..w]);
            }
            Grid::I(v, w, h)
        }
        ImageBuffer::I16(g) => {
            let (w, h) = (g.width(), g.height());
            let mut v = Vec::with_capacity(w * h);
            for y in 0..h {
                v.extend(g.get_row(y)[..w].iter().map(|&x| x as i32));
            }
            Grid::I(v, w, h)
        }
    }
}

/// The float a Modular integer sample stands for (definition of the sample formats).
pub fn sample_to_f32(v: i32, depth: BitDepthSpec) -> f32 {
    match depth {
        BitDepthSpec::Int { bits } => v as f32 / ((1u64 << bits) - 1) as f32,
        BitDepthSpec::Float { bits, exp_bits } => {
            let mant_bits = bits - exp_bits - 1;
            let u = v as u32 as u64;
            let sign = (u >> (bits - 1)) & 1;
            let e = ((u >> mant_bits) & ((1 << exp_bits) - 1)) as i32;
            let m = u & ((1 << mant_bits) - 1);
            let bias = (1 << (exp_bits - 1)) - 1;
            let val = (1.0 + m as f64 / (1u64 << mant_bits) as f64) * 2f64.powi(e - bias);
            (if sign == 1 { -val } else { val }) as f32
        }
    }
}

pub struct DecodeOpts {
    pub threads: usize,
    pub force_wide: bool,
}

impl Default for DecodeOpts {
    fn default() -> Self {
        DecodeOpts { threads: 0, force_wide: false }
    }
}

pub fn open(bytes: &[u8], o: &DecodeOpts) -> Result<JxlImage, String> {
    let pool = if o.threads == 0 { JxlThreadPool::none() } else { JxlThreadPool::rayon(Some(o.threads)) };
    JxlImage::builder().pool(pool).force_wide_buffers(o.force_wide).read(std::io::Cursor::new(bytes)).map_err(|e| e.to_string())
}

/// Unoriented grids of a render: colour channels then extra channels.
pub fn render_grids(r: &Render) -> Vec<Grid> {
    let mut v: Vec<Grid> = r.color_channels().iter().map(grid_of).collect();
    v.extend(r.extra_channels().1.iter().map(grid_of));
    v
}
