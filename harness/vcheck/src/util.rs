//! Helpers shared by checks that drive the top-level decoder API.

use jxl_oxide::{JxlImage, JxlThreadPool, Render};
use jxl_render::ImageBuffer;
use jxlref::headers::BitDepthSpec;

pub enum Grid {
    I(Vec<i32>, usize, usize),
    F(Vec<f32>, usize, usize),
}

impl Grid {
    pub fn dims(&self) -> (usize, usize) {
        match self {
            Grid::I(_, w, h) | Grid::F(_, w, h) => (*w, *h),
        }
    }
}

pub fn grid_of(b: &ImageBuffer) -> Grid {
    match b {
        ImageBuffer::F32(g) => {
            let (w, h) = (g.width(), g.height());
            let mut v = Vec::with_capacity(w * h);
            for y in 0..h {
                v.extend_from_slice(&g.get_row(y)[..w]);
            }
            Grid::F(v, w, h)
        }
        ImageBuffer::I32(g) => {
            let (w, h) = (g.width(), g.height());
            let mut v = Vec::with_capacity(w * h);
            for y in 0..h {
                v.extend_from_slice(&g.get_row(y)[..w]);
            }
            Grid::I(v, w, h)
        }
        ImageBuffer::I16(g) => {
            let (w, h) = (g.width(), g.height());
            let mut v = Vec::with_capacity(w * h);
            for y in 0..h {
                v.extend(g.get_row(y)[..w].iter().map(|&x| x as i32));
            }
            Grid::I(v, w, h)
        }
    }
}

/// The float a Modular integer sample stands for (definition of the sample formats).
pub fn sample_to_f32(v: i32, depth: BitDepthSpec) -> f32 {
    match depth {
        BitDepthSpec::Int { bits } => v as f32 / ((1u64 << bits) - 1) as f32,
        BitDepthSpec::Float { bits, exp_bits } => {
            let mant_bits = bits - exp_bits - 1;
            let u = v as u32 as u64;
            let sign = (u >> (bits - 1)) & 1;
            let e = ((u >> mant_bits) & ((1 << exp_bits) - 1)) as i32;
            let m = u & ((1 << mant_bits) - 1);
            let bias = (1 << (exp_bits - 1)) - 1;
            let val = (1.0 + m as f64 / (1u64 << mant_bits) as f64) * 2f64.powi(e - bias);
            (if sign == 1 { -val } else { val }) as f32
        }
    }
}

pub struct DecodeOpts {
    pub threads: usize,
    pub force_wide: bool,
}

impl Default for DecodeOpts {
    fn default() -> Self {
        DecodeOpts { threads: 0, force_wide: false }
    }
}

pub fn open(bytes: &[u8], o: &DecodeOpts) -> Result<JxlImage, String> {
    let pool = if o.threads == 0 { JxlThreadPool::none() } else { JxlThreadPool::rayon(Some(o.threads)) };
    JxlImage::builder().pool(pool).force_wide_buffers(o.force_wide).read(std::io::Cursor::new(bytes)).map_err(|e| e.to_string())
}

/// Unoriented grids of a render: colour channels then extra channels.
pub fn render_grids(r: &Render) -> Vec<Grid> {
    let mut v: Vec<Grid> = r.color_channels().iter().map(grid_of).collect();
    v.extend(r.extra_channels().1.iter().map(grid_of));
    v
}


/// Loads `bytes` through the incremental API with one pause after `cut` bytes, where the loading frame is
/// rendered (result ignored; `on_pause` runs right before it, e.g. to arm a fault).  The frames loaded so far keep
/// the render caches that this progressive render leaves behind.
pub fn open_with_loading_render(bytes: &[u8], cut: usize, builder: jxl_oxide::JxlImageBuilder, on_pause: impl FnOnce(), after_pause: impl FnOnce()) -> Result<JxlImage, String> {
    let mut uninit = Some(builder.build_uninit());
    let mut image: Option<JxlImage> = None;
    let mut pending: Vec<u8> = vec![];
    let cut = cut.min(bytes.len());
    let mut on_pause = Some(on_pause);
    let mut after_pause = Some(after_pause);
    for (phase, piece) in [&bytes[..cut], &bytes[cut..]].into_iter().enumerate() {
        pending.extend_from_slice(piece);
        if let Some(img) = image.as_mut() {
            let c = img.feed_bytes(&pending).map_err(|e| format!("feed_bytes: {e}"))?;
            pending.drain(..c);
        } else {
            let mut u = uninit.take().unwrap();
            let c = u.feed_bytes(&pending).map_err(|e| format!("feed_bytes(uninit): {e}"))?;
            pending.drain(..c);
            match u.try_init().map_err(|e| format!("try_init: {e}"))? {
                jxl_oxide::InitializeResult::NeedMoreData(u) => uninit = Some(u),
                jxl_oxide::InitializeResult::Initialized(img) => image = Some(img),
            }
        }
        if phase == 0 {
            if let Some(f) = on_pause.take() {
                f();
            }
            if let Some(img) = image.as_mut() {
                let _ = img.render_loading_frame();
            }
            if let Some(f) = after_pause.take() {
                f();
            }
        }
    }
    let mut image = image.ok_or_else(|| "never initialised".to_string())?;
    image.finalize().map_err(|e| format!("finalize: {e}"))?;
    Ok(image)
}

// ---------------------------------------------------------------------------
// Incremental feeding and observation

pub enum FeedEvent {
    /// error returned by feed_bytes / try_init / finalize
    Error(String),
}

/// Feeds `file` cut at `cuts`, following the documented contract (unconsumed
/// bytes are re-offered in front of the next chunk).  `on_step(image, bytes_fed)`
/// is called after every chunk once the image is initialised.
pub fn feed_chunked(file: &[u8], cuts: &[usize], o: &DecodeOpts, mut on_step: impl FnMut(Option<&mut JxlImage>, usize) -> Result<(), String>) -> Result<Option<JxlImage>, String> {
    let pool = if o.threads == 0 { JxlThreadPool::none() } else { JxlThreadPool::rayon(Some(o.threads)) };
    let mut uninit = Some(JxlImage::builder().pool(pool).force_wide_buffers(o.force_wide).build_uninit());
    let mut image: Option<JxlImage> = None;
    let mut pending: Vec<u8> = vec![];
    let pieces = jxlref::chunk::chunks(file, cuts);
    let mut fed = 0;
    for piece in pieces {
        pending.extend_from_slice(piece);
        fed += piece.len();
        if let Some(img) = image.as_mut() {
            let c = img.feed_bytes(&pending).map_err(|e| format!("feed_bytes: {e}"))?;
            pending.drain(..c);
        } else {
            let mut u = uninit.take().unwrap();
            let c = u.feed_bytes(&pending).map_err(|e| format!("feed_bytes(uninit): {e}"))?;
            pending.drain(..c);
            match u.try_init().map_err(|e| format!("try_init: {e}"))? {
                jxl_oxide::InitializeResult::NeedMoreData(u) => uninit = Some(u),
                jxl_oxide::InitializeResult::Initialized(img) => image = Some(img),
            }
        }
        on_step(image.as_mut(), fed)?;
    }
    if std::env::var_os("VERIF_DEBUG").is_some() {
        eprintln!("feed_chunked: cuts={} fed={} left-unconsumed={} image={}", cuts.len(), fed, pending.len(), image.is_some());
    }
    if let Some(img) = image.as_mut() {
        img.finalize().map_err(|e| format!("finalize: {e}"))?;
    }
    Ok(image)
}

#[derive(PartialEq, Debug, Clone)]
pub struct Observation {
    pub header: String,
    pub num_frames: usize,
    pub num_keyframes: usize,
    pub loading_done: bool,
    pub frame_offsets: Vec<Option<usize>>,
    pub frame_headers: Vec<String>,
    pub exif: String,
    pub xml: String,
    pub jpeg_status: String,
    pub original_icc: Option<Vec<u8>>,
    /// per keyframe: per channel (w, h, sample bits)
    pub renders: Vec<Result<Vec<(usize, usize, Vec<u32>)>, String>>,
}

pub fn grid_bits(g: &Grid) -> (usize, usize, Vec<u32>) {
    match g {
        Grid::I(v, w, h) => (*w, *h, v.iter().map(|&x| x as u32).collect()),
        Grid::F(v, w, h) => (*w, *h, v.iter().map(|x| x.to_bits()).collect()),
    }
}

pub fn observe(image: &JxlImage, render: bool) -> Observation {
    let nf = image.num_loaded_frames();
    let exif = match image.aux_boxes().first_exif() {
        Ok(d) => match d {
            jxl_oxide::AuxBoxData::Data(e) => format!("data off={} payload={:?}", e.tiff_header_offset(), e.payload()),
            jxl_oxide::AuxBoxData::Decoding => "decoding".into(),
            jxl_oxide::AuxBoxData::NotFound => "notfound".into(),
        },
        Err(e) => format!("err {e}"),
    };
    let xml = match image.aux_boxes().first_xml() {
        jxl_oxide::AuxBoxData::Data(d) => format!("data {:?}", d),
        jxl_oxide::AuxBoxData::Decoding => "decoding".into(),
        jxl_oxide::AuxBoxData::NotFound => "notfound".into(),
    };
    let mut renders = vec![];
    if render {
        for k in 0..image.num_loaded_keyframes() {
            renders.push(match image.render_frame(k) {
                Ok(r) => Ok(render_grids(&r).iter().map(grid_bits).collect()),
                Err(e) => Err(e.to_string()),
            });
        }
    }
    Observation {
        header: format!("{:?}", image.image_header()),
        num_frames: nf,
        num_keyframes: image.num_loaded_keyframes(),
        loading_done: image.is_loading_done(),
        frame_offsets: (0..nf + 1).map(|i| image.frame_offset(i)).collect(),
        frame_headers: (0..nf).map(|i| image.frame(i).map(|f| format!("{:?}", f.header())).unwrap_or_default()).collect(),
        exif,
        xml,
        jpeg_status: format!("{:?}", image.jpeg_reconstruction_status()),
        original_icc: image.original_icc().map(|x| x.to_vec()),
        renders,
    }
}

/// First differing field between two observations.
pub fn diff_observation(a: &Observation, b: &Observation) -> Option<String> {
    macro_rules! f {
        ($n:ident) => {
            if a.$n != b.$n {
                return Some(format!("{}: {} | {}", stringify!($n), trunc(&format!("{:?}", a.$n)), trunc(&format!("{:?}", b.$n))));
            }
        };
    }
    f!(header);
    f!(num_frames);
    f!(num_keyframes);
    f!(loading_done);
    f!(frame_offsets);
    f!(frame_headers);
    f!(exif);
    f!(xml);
    f!(jpeg_status);
    f!(original_icc);
    if a.renders.len() != b.renders.len() {
        return Some(format!("render count {} vs {}", a.renders.len(), b.renders.len()));
    }
    for (k, (x, y)) in a.renders.iter().zip(&b.renders).enumerate() {
        match (x, y) {
            (Ok(x), Ok(y)) => {
                if x != y {
                    return Some(format!("renders: keyframe {k} samples differ"));
                }
            }
            (Err(_), Err(_)) => {}
            (x, y) => return Some(format!("renders: keyframe {k}: {:?} vs {:?}", x.as_ref().map(|_| "ok"), y.as_ref().map(|_| "ok"))),
        }
    }
    None
}

fn trunc(s: &str) -> String {
    if s.len() > 300 {
        format!("{}…", &s[..s.char_indices().take(300).last().map(|x| x.0).unwrap_or(0)])
    } else {
        s.to_string()
    }
}
