//! C04 — entropy decoding inverts the specified coding for every code and sequence.

use crate::engine::{Check, Outcome, Plan, Tier, Verdict};
use jxl_bitstream::Bitstream;
use jxlref::bits::BitWriter;
use jxlref::entropy::*;
use jxlref::src::Src;
use serde_json::json;

pub struct C04;

fn gen_value(src: &mut Src) -> u32 {
    match src.weighted(&[6, 4, 2, 1, 1]) {
        0 => src.range(0, 3) as u32,
        1 => src.range(0, 40) as u32,
        2 => src.range(0, 70000) as u32,
        3 => src.u32(),
        _ => src.pick(&[u32::MAX, u32::MAX - 1, 1 << 31, (1 << 31) - 1, 1 << 16, 65535, 255, 256]),
    }
}

pub struct SeqCase {
    pub num_dist: usize,
    pub dist_multiplier: u32,
    pub ops: Vec<Op>,
    /// per decoded position: (context to ask with, expected value)
    pub expect: Vec<(u32, u32)>,
    pub min_length: Option<u32>,
    pub n_copies: usize,
    pub special_used: bool,
    pub clamp_used: bool,
    pub overlap_used: bool,
}

pub fn gen_sequence(src: &mut Src, max_len: usize) -> SeqCase {
    let num_dist = match src.weighted(&[3, 3, 2, 1]) {
        0 => 1,
        1 => src.range(2, 8) as usize,
        2 => src.range(2, 40) as usize,
        _ => src.range(2, 300) as usize,
    };
    let use_lz = src.chance(110);
    let min_length = if use_lz { Some(Lz77Params::gen_min_length(src)) } else { None };
    let dist_multiplier = if src.chance(128) { 0 } else { match src.below(3) { 0 => src.range(1, 16) as u32, 1 => src.range(1, 300) as u32, _ => src.range(1, 100000) as u32 } };
    let n = match src.weighted(&[1, 4, 3, 1]) {
        0 => 0,
        1 => src.range(1, 30) as usize,
        2 => src.range(1, 400.min(max_len as u64)) as usize,
        _ => src.range(1, max_len as u64) as usize,
    };
    // value style: a few "palette" values makes copies and skewed histograms likely
    let palette: Vec<u32> = (0..src.range(1, 6)).map(|_| gen_value(src)).collect();
    let style = src.below(3);
    let mut ops = vec![];
    let mut expect: Vec<(u32, u32)> = vec![];
    let (mut n_copies, mut special_used, mut clamp_used, mut overlap_used) = (0, false, false, false);
    while expect.len() < n {
        let ctx = src.below(num_dist) as u32;
        if let (Some(ml), true) = (min_length, !expect.is_empty() && src.chance(60)) {
            let decoded = expect.len() as u32;
            // pick an effective distance
            let d = match src.weighted(&[3, 2, 2, 1]) {
                0 => 1,
                1 => src.range(1, decoded.min(8) as u64) as u32,
                2 => src.range(1, decoded as u64) as u32,
                _ => decoded,
            };
            let len = ml + match src.weighted(&[3, 2, 1]) { 0 => 0, 1 => src.range(0, 10) as u32, _ => src.range(0, 300) as u32 };
            let cands = lz77_distance_values(d, dist_multiplier, decoded, src);
            let dv = cands[src.below(cands.len())];
            if dist_multiplier != 0 && dv < 120 {
                special_used = true;
            }
            if lz77_effective_distance(dv, dist_multiplier, u32::MAX) > decoded {
                clamp_used = true;
            }
            if len > d {
                overlap_used = true;
            }
            ops.push(Op::Copy { ctx, len, dist_value: dv });
            for k in 0..len {
                let v = expect[expect.len() - d as usize].1;
                let c = if k == 0 { ctx } else { src.below(num_dist) as u32 };
                expect.push((c, v));
            }
            n_copies += 1;
        } else {
            let value = match style {
                0 => gen_value(src),
                1 => palette[src.below(palette.len())],
                _ => if src.chance(200) { palette[0] } else { gen_value(src) },
            };
            ops.push(Op::Lit { ctx, value });
            expect.push((ctx, value));
        }
    }
    SeqCase { num_dist, dist_multiplier, ops, expect, min_length, n_copies, special_used, clamp_used, overlap_used }
}

fn fail(o: &mut Outcome, sig: impl Into<String>, detail: impl Into<String>) {
    o.verdict = Verdict::Fail { sig: sig.into(), detail: detail.into() };
}

impl C04 {
    fn run_sequence(&self, src: &mut Src, o: &mut Outcome, describe: bool, max_len: usize) {
        let case = gen_sequence(src, max_len);
        let opts = CodeOpts { lz77_min_length: case.min_length, use_prefix: None, single_cluster: false, distinct_clusters: false };
        let code = EntropyCode::generate(src, case.num_dist, &[&case.ops], &opts);
        let mut w = BitWriter::new();
        // leading bits so that the stream does not start byte aligned
        let lead = src.range(0, 7) as u32;
        w.bits(0, lead);
        code.write_header(&mut w, src);
        let hdr_bits = w.num_bits();
        let negative = !code.use_prefix && !case.ops.is_empty() && src.chance(24);
        if negative {
            let bad = ANS_BAD_STATES[src.below(ANS_BAD_STATES.len())];
            code.write_stream_bad_final(&mut w, &case.ops, bad);
        } else {
            code.write_stream(&mut w, &case.ops, true);
        }
        let explicit_begin = case.expect.is_empty() || src.bool();
        let total_bits = w.num_bits();
        let mut bytes = w.finish();
        if src.bool() {
            bytes.extend_from_slice(&[0x5a; 9]);
        }
        for n in &code.notes {
            o.classes.push(n.clone());
        }
        o.classes.push(if case.n_copies > 0 { "seq:with-copies".into() } else { "seq:literals-only".to_string() });
        if case.special_used { o.classes.push("lz77:special-distance".into()); }
        if case.clamp_used { o.classes.push("lz77:distance-clamped".into()); }
        if case.overlap_used { o.classes.push("lz77:overlapping-copy".into()); }
        if negative { o.classes.push("negative:bad-final-state".into()); }
        let distinct: std::collections::HashSet<u32> = case.expect.iter().map(|e| e.1).collect();
        o.nontrivial = distinct.len() >= 2 || case.n_copies >= 1;
        o.case_hash = crate::engine::fnv(&bytes) | 1;
        if describe {
            o.describe = Some(json!({"kind": "sequence", "num_dist": case.num_dist, "dist_multiplier": case.dist_multiplier, "values": case.expect.len(), "copies": case.n_copies,
                "code": code.notes, "clusters": code.num_clusters, "configs": format!("{:?}", &code.configs[..code.configs.len().min(4)]), "lz77": format!("{:?}", code.lz77), "stream_bits": total_bits - hdr_bits, "negative": negative,
                "first_values": case.expect.iter().take(12).map(|e| e.1).collect::<Vec<_>>() }));
        }
        let mut bs = Bitstream::new(&bytes);
        bs.read_bits(lead as usize).unwrap();
        let mut dec = match jxl_coding::Decoder::parse(&mut bs, case.num_dist as u32) {
            Ok(d) => d,
            Err(e) => return fail(o, format!("header-rejected: {}", crate::checks::short(&e.to_string())), format!("valid code description rejected: {e}; notes={:?} lz77={:?} configs={:?} histos={}", code.notes, code.lz77, code.configs, crate::checks::short_histos(&code.histos))),
        };
        if bs.num_read_bits() != hdr_bits {
            return fail(o, "header-bitpos", format!("header: read {} bits, written {}; notes={:?}", bs.num_read_bits(), hdr_bits, code.notes));
        }
        if dec.cluster_map() != &code.cluster_map[..] {
            return fail(o, "cluster-map", format!("got {:?} expected {:?}", dec.cluster_map(), code.cluster_map));
        }
        // single_token(cluster) = Some(t) promises that every value of that cluster is t (callers then skip reading)
        for (i, &(ctx, want)) in case.expect.iter().enumerate() {
            let cluster = code.cluster_map[ctx as usize];
            if let Some(t) = dec.single_token(cluster) {
                o.classes.push("single-token-shortcut".into());
                if t != want {
                    return fail(o, "single-token-claim", format!("single_token(cluster {cluster}) = Some({t}) but value {i} of that cluster is {want}; configs={:?} notes={:?}", code.configs, code.notes));
                }
            }
        }
        o.classes.sort();
        o.classes.dedup();
        if explicit_begin {
            if let Err(e) = dec.begin(&mut bs) {
                return fail(o, "begin-rejected", e.to_string());
            }
        }
        for (i, &(ctx, want)) in case.expect.iter().enumerate() {
            match dec.read_varint_with_multiplier(&mut bs, ctx, case.dist_multiplier) {
                Ok(v) if v == want => {}
                Ok(v) => return fail(o, "value-mismatch", format!("position {i}: got {v}, expected {want}; notes={:?} lz77={:?} mult={} configs={:?}", code.notes, code.lz77, case.dist_multiplier, code.configs)),
                Err(e) => {
                    return fail(o, format!("stream-rejected: {}", crate::checks::short(&e.to_string())), format!("position {i}: {e}; notes={:?} lz77={:?}", code.notes, code.lz77));
                }
            }
        }
        if bs.num_read_bits() != total_bits {
            return fail(o, "stream-bitpos", format!("read {} bits, written {}; notes={:?}", bs.num_read_bits(), total_bits, code.notes));
        }
        match (dec.finalize(), negative) {
            (Ok(()), false) => {}
            (Err(_), true) => {}
            (Err(e), false) => return fail(o, "final-state-rejected", format!("{e}; notes={:?}", code.notes)),
            (Ok(()), true) => return fail(o, "bad-final-state-accepted", format!("stream ending in a wrong ANS state passed finalize(); notes={:?}", code.notes)),
        }
    }

    fn run_permutation(&self, src: &mut Src, o: &mut Outcome, describe: bool) {
        let size = match src.weighted(&[3, 3, 1]) {
            0 => src.range(1, 12) as usize,
            1 => src.range(1, 300) as usize,
            _ => src.range(1, 3000) as usize,
        };
        let skip = match src.below(3) {
            0 => 0,
            1 => src.range(0, size as u64) as usize,
            _ => (size / 16).min(size),
        };
        let perm = gen_permutation(src, size, skip);
        let pad = if src.chance(48) { src.range(0, 5) as usize } else { 0 };
        let ops = permutation_ops(&perm, skip, pad);
        let code = EntropyCode::generate(src, 8, &[&ops], &CodeOpts::default());
        let mut w = BitWriter::new();
        code.write_header(&mut w, src);
        code.write_stream(&mut w, &ops, true);
        let total_bits = w.num_bits();
        let bytes = w.finish();
        for n in &code.notes {
            o.classes.push(n.clone());
        }
        o.classes.push("permutation".into());
        o.nontrivial = perm.iter().enumerate().any(|(i, &p)| p != i);
        o.case_hash = crate::engine::fnv(&bytes) | 1;
        if describe {
            o.describe = Some(json!({"kind": "permutation", "size": size, "skip": skip, "perm_head": &perm[..perm.len().min(16)], "code": code.notes}));
        }
        let mut bs = Bitstream::new(&bytes);
        let mut dec = match jxl_coding::Decoder::parse(&mut bs, 8) {
            Ok(d) => d,
            Err(e) => return fail(o, format!("header-rejected: {}", crate::checks::short(&e.to_string())), format!("{e}; notes={:?}", code.notes)),
        };
        if let Err(e) = dec.begin(&mut bs) {
            return fail(o, "begin-rejected", e.to_string());
        }
        match jxl_coding::read_permutation(&mut bs, &mut dec, size as u32, skip as u32) {
            Ok(p) if p == perm => {}
            Ok(p) => return fail(o, "permutation-mismatch", format!("size {size} skip {skip}: got {:?}.., expected {:?}..", &p[..p.len().min(20)], &perm[..perm.len().min(20)])),
            Err(e) => return fail(o, format!("permutation-rejected: {}", crate::checks::short(&e.to_string())), format!("{e}; size {size} skip {skip}")),
        }
        if bs.num_read_bits() != total_bits {
            return fail(o, "permutation-bitpos", format!("read {} bits, written {}", bs.num_read_bits(), total_bits));
        }
        if let Err(e) = dec.finalize() {
            return fail(o, "final-state-rejected", e.to_string());
        }
    }

    fn run_clusters(&self, src: &mut Src, o: &mut Outcome, describe: bool) {
        let n = match src.weighted(&[2, 3, 2, 1]) {
            0 => src.range(1, 3) as usize,
            1 => src.range(1, 20) as usize,
            2 => src.range(1, 300) as usize,
            _ => src.range(1, 2000) as usize,
        };
        let k = src.range(1, n.min(256) as u64) as usize;
        let mut map: Vec<u8> = (0..n).map(|_| src.below(k) as u8).collect();
        for id in 0..k {
            // plant every id (positions distinct because id < k <= n)
            map[id] = id as u8;
        }
        // shuffle so ids appear in generated order
        for i in (1..n).rev() {
            let j = src.below(i + 1);
            map.swap(i, j);
        }
        let hole = n >= 3 && k >= 2 && src.chance(40);
        if hole {
            // remove one id below the maximum entirely (ill-formed)
            let maxid = *map.iter().max().unwrap();
            if maxid >= 1 {
                let victim = src.below(maxid as usize) as u8;
                for m in map.iter_mut() {
                    if *m == victim {
                        *m = maxid;
                    }
                }
            }
        }
        let really_hole = {
            let maxid = *map.iter().max().unwrap() as usize;
            (0..=maxid).any(|id| !map.contains(&(id as u8)))
        };
        let mut w = BitWriter::new();
        write_cluster_map(&mut w, &map, src);
        let total_bits = w.num_bits();
        let bytes = w.finish();
        o.classes.push(if really_hole { "clusters:hole(negative)".into() } else { "clusters".to_string() });
        o.nontrivial = n >= 2;
        o.case_hash = crate::engine::fnv(&bytes) ^ (n as u64) | 1;
        if describe {
            o.describe = Some(json!({"kind": "cluster-map", "num_dist": n, "num_clusters": k, "hole": really_hole, "head": &map[..map.len().min(24)]}));
        }
        let mut bs = Bitstream::new(&bytes);
        match (jxl_coding::read_clusters(&mut bs, n as u32), really_hole) {
            (Ok((kk, m)), false) => {
                let want_k = *map.iter().max().unwrap() as u32 + 1;
                if m != map || kk != want_k {
                    return fail(o, "cluster-map-mismatch", format!("got k={kk} {:?}.., expected k={want_k} {:?}..", &m[..m.len().min(20)], &map[..map.len().min(20)]));
                }
                if bs.num_read_bits() != total_bits {
                    return fail(o, "cluster-map-bitpos", format!("read {} bits, written {}", bs.num_read_bits(), total_bits));
                }
            }
            (Err(_), true) => {}
            (Ok(_), true) => return fail(o, "cluster-hole-accepted", format!("cluster map with a hole accepted: {:?}", &map[..map.len().min(40)])),
            (Err(e), false) => return fail(o, format!("cluster-map-rejected: {}", crate::checks::short(&e.to_string())), format!("{e}; n={n} map={:?}", &map[..map.len().min(40)])),
        }
    }
}

const ANS_BAD_STATES: [u32; 4] = [0x130001, 0x120000, 0x13000, 0x1300000];

/// Hand-assembled regression: general-form ANS histogram whose zero runs are coded as two
/// *adjacent* RLE codes (fixed defect 0534703).
fn fixed_adjacent_rle(o: &mut Outcome) {
    use jxlref::entropy::ans::*;
    let mut dist = vec![0u16; 32];
    dist[0] = 2048;
    dist[1] = 1024;
    dist[11] = 1024;
    let mut w = BitWriter::new();
    w.bit(false); // no LZ77
    w.bit(false); // ANS
    w.bits(0, 2); // log_alphabet_size 5
    w.bits(5, 3); // split_exponent = 5 (= log_alphabet_size: no msb/lsb)
    w.bit(false);
    w.bit(false); // general form
    w.bits(0b111, 3); // shift + 1 = 14 -> len 3
    w.bits(14 - 8, 3);
    w.bit(true); // alphabet_size - 3 = 29
    w.bits(4, 3);
    w.bits(29 - 16, 4);
    let mut code = |w: &mut BitWriter, c: usize| w.bits(LOGCOUNT_SYM[c], LOGCOUNT_LEN[c]);
    code(&mut w, 12); // idx 0: omitted (largest)
    code(&mut w, 11); // idx 1: 1024
    code(&mut w, 0); // idx 2: 0
    code(&mut w, 13); // idx 3..6: RLE x4
    w.bit(false);
    code(&mut w, 13); // idx 7..10: RLE x4, adjacent to the previous run
    w.bit(false);
    code(&mut w, 11); // idx 11: 1024
    code(&mut w, 0); // idx 12: 0
    code(&mut w, 13); // idx 13..31: RLE x19 (repeats the 0)
    w.bit(true);
    w.bits(3, 3);
    w.bits(15 - 8, 3);
    w.bits(0, 10); // mantissa of idx 1
    w.bits(0, 10); // mantissa of idx 11
    let hdr_bits = w.num_bits();
    let table = AliasTable::new(&dist, 5);
    let toks = [0u32, 1, 11, 0, 0, 11, 1, 1, 0];
    let items: Vec<AnsItem> = toks.iter().map(|&t| AnsItem { table: 0, symbol: t, extra: 0, extra_bits: 0 }).collect();
    ans_encode(&mut w, &[table], &items);
    let total = w.num_bits();
    let bytes = w.finish();
    o.nontrivial = true;
    o.classes.push("fixed:adjacent-rle".into());
    let mut bs = Bitstream::new(&bytes);
    let mut dec = match jxl_coding::Decoder::parse(&mut bs, 1) {
        Ok(d) => d,
        Err(e) => return fail(o, format!("header-rejected: {}", crate::checks::short(&e.to_string())), "general-form ANS histogram with adjacent RLE runs rejected"),
    };
    if bs.num_read_bits() != hdr_bits {
        return fail(o, "header-bitpos", "adjacent RLE regression");
    }
    for (i, &t) in toks.iter().enumerate() {
        match dec.read_varint(&mut bs, 0) {
            Ok(v) if v == t => {}
            other => return fail(o, "value-mismatch", format!("adjacent RLE regression: position {i}: {other:?}, expected {t}")),
        }
    }
    if bs.num_read_bits() != total || dec.finalize().is_err() {
        return fail(o, "stream-bitpos", "adjacent RLE regression: bit count / final state");
    }
}

impl Check for C04 {
    fn fixed_cases(&self) -> Vec<(String, Vec<u8>)> {
        vec![("raw-ans-adjacent-rle".into(), b"\xffRAW\x00".to_vec())]
    }
    fn id(&self) -> &'static str {
        "C04"
    }
    fn plan(&self, tier: Tier) -> Plan {
        Plan { cases: if tier == Tier::Quick { 150_000 } else { 3_000_000 }, max_len: 6000 }
    }
    fn rule(&self) -> String {
        "choice sequence -> one of {token sequence over 1..300 contexts with generated LZ77 copies (all 120 special distances, clamped and overlapping copies, dist_multiplier 0..100000), Lehmer-coded permutation (size <= 3000, any skip), cluster map (<= 2000 contexts, simple / nested entropy-coded +-MTF +-LZ77)} x generated code description (prefix: alphabet1/single/simple nsym2-4 both trees/complex with 16-17 repeat chains, lengths to 15, alphabets to 2^15; ANS: single/binary/flat/general with every shift and RLE, log_alphabet 5..8; cluster maps; hybrid-integer configs). Oracle: jxl_coding::Decoder returns exactly the sequence, Bitstream::num_read_bits equals the bits written after the header and after the last symbol, finalize() Ok; negative: wrong ANS final state and cluster holes must be Err. Non-trivial: >=2 distinct values or >=1 copy / non-identity permutation / >=2 contexts; distinct by FNV of the encoded bytes.".into()
    }
    fn assumptions(&self) -> Vec<String> {
        vec!["the reference encoder (jxlref::entropy) is my reading of ISO/IEC 18181-1 Annex C and RFC 7932 3.4/3.5; its alias-table construction is written from the definition, not from the decoder".into()]
    }
    fn run(&self, choice: &[u8], describe: bool) -> Outcome {
        let mut src = Src::new(choice);
        let mut o = Outcome::pass();
        if choice.starts_with(b"\xffRAW") {
            fixed_adjacent_rle(&mut o);
            return o;
        }
        match src.weighted(&[8, 2, 2]) {
            0 => self.run_sequence(&mut src, &mut o, describe, 4000),
            1 => self.run_permutation(&mut src, &mut o, describe),
            _ => self.run_clusters(&mut src, &mut o, describe),
        }
        o
    }
}
