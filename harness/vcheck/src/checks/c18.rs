//! C18 — the embedded ICC profile is returned byte-exactly, for every way the
//! format's ICC compression can encode it; inconsistent encodings are errors.

use crate::engine::{fnv, Check, Outcome, Plan, Tier, Verdict};
use jxl_bitstream::Bitstream;
use jxlref::bits::BitWriter;
use jxlref::headers::{write_image_header, ColourEncodingSpec, ImageHeaderSpec};
use jxlref::icc::*;
use jxlref::src::Src;
use serde_json::json;

pub struct C18;

/// A 4-way shuffle of n bytes with n % 4 in {1, 2} (n >= 5) has two readings (see
/// `jxlref::icc::ShuffleReading`).  jxlref writes the raster one (libjxl's); when this is
/// `false` a decoder that uses the other reading is only recorded in the class histogram,
/// while a decoder that matches neither still fails.
const ASSERT_RAGGED_SHUFFLE4_RASTER: bool = false;

fn fail(o: &mut Outcome, sig: impl Into<String>, detail: impl Into<String>) {
    o.verdict = Verdict::Fail { sig: sig.into(), detail: detail.into() };
}

fn first_diff(a: &[u8], b: &[u8]) -> String {
    let k = a.iter().zip(b.iter()).position(|(x, y)| x != y).unwrap_or(a.len().min(b.len()));
    let show = |v: &[u8]| crate::engine::hex(&v[k.min(v.len())..(k + 12).min(v.len())]);
    format!("lengths {} vs {}, first difference at byte {k}: got {}.. expected {}..", a.len(), b.len(), show(a), show(b))
}

/// A stream that the format makes invalid, built from a valid encoding.
/// Returns (label, encoded-ICC bytes).
fn make_negative(e: &EncodedIcc, src: &mut Src) -> (String, Vec<u8>) {
    let n = e.output_size;
    let pad = e.pad_preamble;
    let asm = |size: u64, commands: &[u8], data: &[u8]| assemble(size, commands.len() as u64, commands, data, pad);
    // commands appended after the existing ones must land in the main content
    let base_cmds = || {
        let mut c = e.commands.clone();
        if e.taglist_open {
            c.push(0);
        }
        c
    };
    let ends_in_taglist = if e.taglist_open { "(stream-ends-in-taglist)" } else { "" };
    let kind = if n > 128 { src.below(16) } else { 14 + src.below(2) };
    match kind {
        0 => {
            let k = 1 + src.range(0, 300);
            (format!("output-size-larger{ends_in_taglist}"), asm(n + k, &e.commands, &e.data))
        }
        1 if n > 129 => {
            let k = 1 + src.range(0, (n - 130).min(300));
            (format!("output-size-smaller{ends_in_taglist}"), asm(n - k, &e.commands, &e.data))
        }
        2 | 3 if !e.cmd_starts.is_empty() => {
            // cut the command stream at a command boundary: everything from command `i` on is lost
            let i = src.below(e.cmd_starts.len());
            let (cut, in_tags) = e.cmd_starts[i];
            let label = if in_tags { "commands-cut-at-boundary(stream-ends-in-taglist)" } else { "commands-cut-at-boundary(in-main)" };
            (label.into(), asm(n, &e.commands[..cut], &e.data))
        }
        4 | 5 if !e.cmd_starts.is_empty() => {
            // cut inside a command (after its first byte, before its last)
            let mut ends: Vec<usize> = e.cmd_starts.iter().skip(1).map(|c| c.0).collect();
            ends.push(e.commands.len());
            let multi: Vec<usize> = (0..e.cmd_starts.len()).filter(|&k| ends[k] - e.cmd_starts[k].0 >= 2).collect();
            if multi.is_empty() {
                ("commands-empty".into(), asm(n, &[], &e.data))
            } else {
                let k = multi[src.below(multi.len())];
                let (start, in_tags) = e.cmd_starts[k];
                let cut = start + 1 + src.below(ends[k] - start - 1);
                (format!("commands-cut-inside-command({})", if in_tags { "tag" } else { "main" }), asm(n, &e.commands[..cut], &e.data))
            }
        }
        6 => ("commands-empty".into(), asm(n, &[], &e.data)),
        7 => {
            let mut c = base_cmds();
            c.push(CMD_INSERT);
            put_varint(&mut c, 1 + src.range(0, 2000));
            ("insert-overruns-data".into(), asm(n, &c, &e.data))
        }
        8 | 9 | 10 => {
            // an invalid predicted run of zero bytes after everything else
            let mut c = base_cmds();
            c.push(CMD_PREDICT);
            let width = src.pick(&[1u8, 2, 4]);
            let order = src.below(3) as u8;
            let label = match src.below(6) {
                0 => {
                    c.push(2 | (order << 2) | if src.bool() { 16 } else { 0 });
                    if c.last().unwrap() & 16 != 0 {
                        put_varint(&mut c, 4);
                    }
                    "predict-width-3"
                }
                1 => {
                    c.push((width - 1) | (3 << 2));
                    "predict-order-3"
                }
                2 if width > 1 => {
                    c.push((width - 1) | (order << 2) | 16);
                    put_varint(&mut c, src.range(1, width as u64 - 1));
                    "predict-stride-below-width"
                }
                3 => {
                    c.push((width - 1) | (order << 2) | 16);
                    put_varint(&mut c, 0);
                    "predict-stride-zero"
                }
                _ => {
                    c.push((width - 1) | (order << 2) | 16);
                    let least = n.div_ceil(4);
                    put_varint(&mut c, if src.bool() { least } else { least + src.range(0, 100_000) });
                    "predict-stride-too-large"
                }
            };
            put_varint(&mut c, 0);
            (label.into(), asm(n, &c, &e.data))
        }
        11 => {
            let mut c = base_cmds();
            let mut b = src.byte();
            if matches!(b, 1..=4 | 10 | 16..=23) {
                b = 0;
            }
            c.push(b);
            ("unknown-command".into(), asm(n, &c, &e.data))
        }
        12 | 13 if e.taglist_end.is_some() => {
            let at = e.taglist_end.unwrap();
            let mut c = e.commands[..at].to_vec();
            c.push(src.range(21, 63) as u8 | (src.below(4) as u8) << 6);
            c.extend_from_slice(&e.commands[at..]);
            ("unknown-tagcode".into(), asm(n, &c, &e.data))
        }
        14 if !e.data.is_empty() => {
            let k = 1 + src.below(e.data.len().min(40));
            ("data-stream-short".into(), asm(n, &e.commands, &e.data[..e.data.len() - k]))
        }
        _ => {
            let k = 1 + src.range(0, 1000);
            ("commands-size-exceeds-stream".into(), assemble(n, (e.commands.len() + e.data.len()) as u64 + k, &e.commands, &e.data, pad))
        }
    }
}

/// `jxlref::entropy` can (rarely) fail to build a code for a stream: its hybrid-integer
/// configs are sized by the largest value only (see the note in `jxlref::icc`), which also
/// affects the nested code of an entropy-coded cluster map.  Such cases are discarded and counted.
fn icc_stream_or_none(w: &mut BitWriter, enc: &[u8], src: &mut Src) -> Option<IccStreamInfo> {
    std::panic::catch_unwind(std::panic::AssertUnwindSafe(|| write_icc_stream(w, enc, src))).ok()
}

enum E2e {
    Profile(Vec<u8>),
    WriterGaveUp,
    Rejected(String),
    NeedMoreData,
}

/// Image header with `want_icc`, the ICC stream, zero padding to a byte boundary.
fn end_to_end(profile: &[u8], enc: &[u8], src: &mut Src) -> E2e {
    let gray = profile.len() >= 20 && &profile[16..20] == b"GRAY";
    let spec = ImageHeaderSpec {
        width: 1 + src.range(0, 40) as u32,
        height: 1 + src.range(0, 40) as u32,
        xyb_encoded: src.bool(),
        colour_encoding: ColourEncodingSpec::Icc { colour_space: if gray { 1 } else { src.pick(&[0u32, 0, 3]) } },
        ..ImageHeaderSpec::default()
    };
    let mut w = BitWriter::new();
    write_image_header(&mut w, &spec, src);
    if icc_stream_or_none(&mut w, enc, src).is_none() {
        return E2e::WriterGaveUp;
    }
    let bytes = w.finish();
    let mut uninit = jxl_oxide::JxlImage::builder().pool(jxl_threadpool::JxlThreadPool::none()).build_uninit();
    if let Err(e) = uninit.feed_bytes(&bytes) {
        return E2e::Rejected(format!("feed_bytes: {e}"));
    }
    match uninit.try_init() {
        Ok(jxl_oxide::InitializeResult::Initialized(image)) => E2e::Profile(image.original_icc().unwrap_or(&[]).to_vec()),
        Ok(jxl_oxide::InitializeResult::NeedMoreData(_)) => E2e::NeedMoreData,
        Err(e) => E2e::Rejected(e.to_string()),
    }
}

impl C18 {
    fn run_case(&self, src: &mut Src, o: &mut Outcome, describe: bool) {
        let prof = gen_profile(src);
        let profile = &prof.bytes;
        let n = profile.len();
        // 0 positive, 1 negative, 2 positive with ragged 4-way shuffles, 3 out-of-range tag entries (observed only)
        let mode = src.weighted(&[12, 5, 1, 1]);
        let opts = EncOpts { allow_ambiguous_shuffle: mode == 2, reading: Some(ShuffleReading::Raster), allow_out_of_range_tags: mode == 3 };
        let e = encode_icc(profile, src, &opts);
        let valid_enc = e.assemble();
        o.classes.push(format!("profile:{}", prof.kind));
        o.classes.push(size_bucket(n).into());
        for c in &e.classes {
            o.classes.push(c.clone());
        }
        o.nontrivial = (e.n_predict >= 1 || e.n_shortcut >= 1) && n > 128;

        // the encoder must agree with its own definition of the format
        match ref_decode(&valid_enc, ShuffleReading::Raster) {
            Ok(p) if &p == profile => {}
            other => {
                return fail(o, "harness:encoder-self-check", format!("reference interpreter disagrees with the encoder: {:?}; commands {:?}", other.map(|p| first_diff(&p, profile)), e.log));
            }
        }

        let (negative, enc) = if mode == 1 {
            let (label, bad) = make_negative(&e, src);
            if ref_decode(&bad, ShuffleReading::Raster).is_ok() {
                *o = Outcome::discard(format!("negative-not-invalid:{label}"));
                return;
            }
            (Some(label), bad)
        } else {
            (None, valid_enc)
        };
        o.classes.push(match &negative {
            Some(l) => format!("negative:{l}"),
            None => ["mode:positive", "", "mode:positive+ragged-shuffle4", "mode:observe-out-of-range-tags"][mode].to_string(),
        });

        // ---- the ICC stream on its own -----------------------------------
        let mut w = BitWriter::new();
        let lead = src.range(0, 7) as u32;
        w.bits(0, lead);
        let Some(info) = icc_stream_or_none(&mut w, &enc, src) else {
            *o = Outcome::discard("jxlref-entropy-code-generation-gave-up");
            return;
        };
        let total_bits = w.num_bits();
        let mut bytes = w.finish();
        if src.bool() {
            bytes.extend_from_slice(&[0xa5; 7]);
        }
        for note in &info.notes {
            o.classes.push(format!("ent:{note}"));
        }
        if info.n_copies > 0 {
            o.classes.push("ent:lz77-copies-used".into());
        }
        o.case_hash = fnv(&bytes) | 1;
        let do_e2e = src.chance(150);
        if describe {
            o.describe = Some(json!({
                "profile_kind": prof.kind, "profile_size": n, "enc_size": enc.len(), "commands_size": e.commands.len(),
                "commands": e.log, "n_commands": e.n_commands, "n_predict": e.n_predict, "n_tag_shortcuts": e.n_shortcut,
                "negative": negative, "mode": mode, "entropy": info.notes, "lz77_copies": info.n_copies, "lead_bits": lead,
                "stream_bits": total_bits, "end_to_end": do_e2e,
                "profile_head": crate::engine::hex(&profile[..n.min(24)]),
            }));
        }
        let ctx = |e: &EncodedIcc| format!("profile {} ({} bytes), commands {:?}", prof.kind, n, e.log);

        let mut bs = Bitstream::new(&bytes);
        bs.read_bits(lead as usize).unwrap();
        let stage1 = jxl_color::icc::read_icc(&mut bs);
        let decoded = match stage1 {
            Ok(got) => {
                if got != enc {
                    return fail(o, "read_icc-bytes-mismatch", format!("{}; entropy {:?}", first_diff(&got, &enc), info.notes));
                }
                if bs.num_read_bits() != total_bits {
                    return fail(o, "read_icc-bitpos", format!("read {} bits, written {}; entropy {:?}", bs.num_read_bits(), total_bits, info.notes));
                }
                jxl_color::icc::decode_icc(&got).map_err(|e| format!("decode_icc: {e}"))
            }
            Err(err) => {
                if negative.is_none() {
                    return fail(o, format!("read_icc-rejected: {}", crate::checks::short(&err.to_string())), format!("{err}; enc_size {}; entropy {:?}; {}", enc.len(), info.notes, ctx(&e)));
                }
                Err(format!("read_icc: {err}"))
            }
        };

        match (&negative, decoded) {
            (None, Ok(got)) => {
                if &got != profile {
                    if e.ambiguous_shuffle_used && ref_decode(&enc, ShuffleReading::Balanced).as_deref() == Ok(&got[..]) {
                        // The decoder lays the stored bytes of a ragged 4-way shuffle out as rows of
                        // (q+1, .., q) bytes; libjxl (and this encoder) as rows of ceil(n/4) bytes filled in
                        // order.  Which of the two the text of the format means could not be established
                        // beyond doubt, so by default this is recorded, not asserted.
                        o.classes.push("observe:shuffle4-ragged:decoder=balanced-rows".into());
                        if ASSERT_RAGGED_SHUFFLE4_RASTER {
                            return fail(
                                o,
                                "shuffle4-ragged: decoder fills rows evenly instead of in raster order",
                                format!("a 4-way shuffle of a byte count n with n % 4 in {{1,2}}, n >= 5 is decoded with rows of lengths (q+1,..,q) instead of rows of ceil(n/4) filled in order; {}; {}", first_diff(&got, profile), ctx(&e)),
                            );
                        }
                        return;
                    }
                    let sig = if got.len() != n { "profile-mismatch/length" } else { "profile-mismatch" };
                    return fail(o, sig, format!("{}; {}", first_diff(&got, profile), ctx(&e)));
                }
                if mode == 3 && e.out_of_range_tag_used {
                    o.classes.push("observe:out-of-range-tag:accepted-exact".into());
                }
                if e.ambiguous_shuffle_used {
                    o.classes.push("observe:shuffle4-ragged:decoder=raster-rows".into());
                }
            }
            (None, Err(err)) => {
                if mode == 3 && e.out_of_range_tag_used {
                    // not asserted: whether a tag entry pointing past the end of the profile may be
                    // coded with tag-list commands is not settled by the format text I rely on
                    o.classes.push("observe:out-of-range-tag:rejected".into());
                    return;
                }
                return fail(o, format!("valid-stream-rejected: {}", crate::checks::short(&err)), format!("{err}; {}", ctx(&e)));
            }
            (Some(_), Err(_)) => {}
            (Some(label), Ok(got)) => {
                return fail(
                    o,
                    format!("negative-accepted:{label}"),
                    format!("inconsistent ICC stream accepted: declared output_size {}, returned {} bytes; built from {}", ref_output_size(&enc), got.len(), ctx(&e)),
                );
            }
        }

        // ---- end to end: image header + ICC stream, headers-only codestream -----
        if do_e2e {
            o.classes.push("e2e".into());
            match (end_to_end(profile, &enc, src), &negative) {
                (E2e::Profile(got), None) => {
                    if &got != profile {
                        return fail(o, "e2e-profile-mismatch", format!("{}; {}", first_diff(&got, profile), ctx(&e)));
                    }
                }
                (E2e::Rejected(err), None) => {
                    if mode == 3 && e.out_of_range_tag_used {
                        return;
                    }
                    return fail(o, format!("e2e-rejected: {}", crate::checks::short(&err)), format!("{err}; {}", ctx(&e)));
                }
                (E2e::NeedMoreData, None) => return fail(o, "e2e-need-more-data", format!("complete headers + ICC stream, yet try_init asks for more data; {}", ctx(&e))),
                (E2e::Profile(got), Some(label)) => {
                    return fail(o, format!("e2e-negative-accepted:{label}"), format!("image initialised with a {}-byte profile from an inconsistent ICC stream; {}", got.len(), ctx(&e)));
                }
                (E2e::Rejected(_), Some(_)) | (E2e::NeedMoreData, Some(_)) => {}
                (E2e::WriterGaveUp, _) => o.classes.push("e2e:writer-gave-up".into()),
            }
        }
    }
}

/// Hand-assembled regressions (choice = "\xffRAW" + selector), independent of the generators.
fn fixed_case(which: u8, o: &mut Outcome) {
    o.nontrivial = true;
    let empty: [u8; 0] = [];
    match which {
        0 => {
            // declared 200 bytes; the commands are "1 tag", one wtpt entry, and then the command
            // stream ends inside the tag list after 144 bytes of output
            o.classes.push("fixed:taglist-ends-short".into());
            let mut commands = vec![];
            put_varint(&mut commands, 2);
            commands.push(5); // wtpt, implicit start (140) and size (20)
            let enc = assemble(200, commands.len() as u64, &commands, &[0u8; 128], (0, 0));
            assert!(ref_decode(&enc, ShuffleReading::Raster).is_err());
            let direct = jxl_color::icc::decode_icc(&enc);
            let mut w = BitWriter::new();
            write_icc_stream(&mut w, &enc, &mut Src::new(&empty));
            let bytes = w.finish();
            let staged = jxl_color::icc::read_icc(&mut Bitstream::new(&bytes)).map_err(|e| e.to_string()).and_then(|b| jxl_color::icc::decode_icc(&b).map_err(|e| e.to_string()));
            if let (Ok(p), _) | (_, Ok(p)) = (direct.map_err(|e| e.to_string()), staged) {
                fail(o, "negative-accepted:commands-cut-at-boundary(stream-ends-in-taglist)", format!("hand-built stream: output_size 200, commands [tags(1), wtpt] and nothing else: accepted with {} bytes", p.len()));
            }
        }
        1 | 2 => {
            // a 144-byte profile whose tag table makes 32-bit arithmetic wrap; the decoder must hand it
            // back unchanged (it is only a byte string to the codec)
            o.classes.push(if which == 1 { "fixed:profile-tag-count-wraps".into() } else { "fixed:profile-tag-end-wraps".to_string() });
            let mut profile = vec![0u8; 144];
            profile[0..4].copy_from_slice(&144u32.to_be_bytes());
            profile[12..24].copy_from_slice(b"mntrRGB XYZ ");
            profile[36..40].copy_from_slice(b"acsp");
            if which == 1 {
                profile[128..132].copy_from_slice(&0x1555_5556u32.to_be_bytes()); // 12 * count = 8 (mod 2^32)
            } else {
                profile[128..132].copy_from_slice(&1u32.to_be_bytes());
                profile[132..136].copy_from_slice(b"wtpt");
                profile[136..140].copy_from_slice(&0xffff_fff0u32.to_be_bytes());
                profile[140..144].copy_from_slice(&0x20u32.to_be_bytes()); // offset + size = 0x10 (mod 2^32)
            }
            let e = encode_icc(&profile, &mut Src::new(&[0xff, 0xff, 0xff, 0xff]), &EncOpts::default());
            let enc = e.assemble();
            assert_eq!(ref_decode(&enc, ShuffleReading::Raster).as_deref(), Ok(&profile[..]));
            match end_to_end(&profile, &enc, &mut Src::new(&empty)) {
                E2e::Profile(got) if got == profile => {}
                E2e::Profile(got) => fail(o, "e2e-profile-mismatch", first_diff(&got, &profile)),
                E2e::Rejected(err) => fail(o, format!("e2e-rejected: {}", crate::checks::short(&err)), err),
                E2e::NeedMoreData => fail(o, "e2e-need-more-data", "hand-built profile"),
                E2e::WriterGaveUp => {}
            }
        }
        _ => {}
    }
}

fn ref_output_size(enc: &[u8]) -> u64 {
    let mut v = 0u64;
    for (k, b) in enc.iter().enumerate().take(9) {
        v |= ((b & 0x7f) as u64) << (7 * k);
        if b & 0x80 == 0 {
            break;
        }
    }
    v
}

impl Check for C18 {
    fn id(&self) -> &'static str {
        "C18"
    }
    fn plan(&self, tier: Tier) -> Plan {
        Plan { cases: if tier == Tier::Quick { 80_000 } else { 1_500_000 }, max_len: 8192 }
    }
    fn fixed_cases(&self) -> Vec<(String, Vec<u8>)> {
        vec![
            ("raw-taglist-ends-short".into(), b"\xffRAW\x00".to_vec()),
            ("raw-profile-tag-count-wraps".into(), b"\xffRAW\x01".to_vec()),
            ("raw-profile-tag-end-wraps".into(), b"\xffRAW\x02".to_vec()),
        ]
    }
    fn rule(&self) -> String {
        "choice sequence -> ICC profile (structured: 128-byte header with plausible/near-miss predicted fields, tag table with shared / reordered / resized entries, typed payloads XYZ/curv/para/text/desc/mluc/sf32/mft2-like tables; damaged structured; header+noise; noise of 4 styles; boundary sizes; 0..300 KiB) x a generated command segmentation that encodes exactly that profile (header residuals; tag list: none / generic / 17 shortcuts / rTRC+gTRC+bTRC and rXYZ+gXYZ+bXYZ expansions, implicit or explicit start and size, early end, unterminated at end; main: insert, shuffle2, shuffle4, predicted runs order 0-2 x width 1/2/4 x stride implicit/explicit/multiple/odd/max incl. partial last element and zero length, XYZ, 8 type signatures; padded varints) x generated entropy code over the 41 contexts (prefix or ANS, clustering, hybrid-uint configs, optional LZ77 copies). Oracle: jxl_color::icc::read_icc returns the encoded bytes and stops at the bit the writer stopped at, decode_icc returns the profile byte for byte, and JxlImage::try_init on header+ICC+padding yields original_icc() == profile. Negative (built by construction, confirmed invalid by an independent reference interpreter): wrong output_size, command stream cut at / inside a command, insert overrunning the data, data stream short, width 3, order 3, stride < width, stride*4 >= bytes so far, unknown command / tag code, commands_size beyond the stream: must be Err. Non-trivial: >= 1 predicted run or tag shortcut and profile > 128 bytes; distinct by FNV of the encoded bits.".into()
    }
    fn assumptions(&self) -> Vec<String> {
        vec![
            "the encoder (jxlref::icc) is my reading of the ICC profile compression of ISO/IEC 18181-1 and of libjxl's behaviour (icc_codec); shuffles fill a matrix of ceil(n/width) columns in raster order and output its transpose".into(),
            "excluded by construction and counted as excl:* classes: tag-list commands for entries with start+size beyond the profile or a tag table that does not fit (only observed, mode 3); encodings more than ~48 KiB larger than the profile (libjxl and jxl-oxide both reject enc_size > output_size + 65536)".into(),
            "not asserted: unused trailing command/data bytes, values >= 2^32 in tag varints, symbols >= 256 in the entropy layer".into(),
        ]
    }
    fn run(&self, choice: &[u8], describe: bool) -> Outcome {
        let mut src = Src::new(choice);
        let mut o = Outcome::pass();
        if choice.starts_with(b"\xffRAW") {
            fixed_case(choice.get(4).copied().unwrap_or(0), &mut o);
            return o;
        }
        self.run_case(&mut src, &mut o, describe);
        o.classes.sort();
        o.classes.dedup();
        o
    }
}
