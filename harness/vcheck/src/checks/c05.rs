//! C05 — frames are composed onto the canvas exactly as the blend rules define.

use crate::engine::{Check, Outcome, Plan, Tier, Verdict};
use crate::util::*;
use jxlref::gen::frames::*;
use jxlref::headers::BitDepthSpec;
use jxlref::src::Src;
use serde_json::json;

pub struct C05;

pub const TOL: f32 = 2e-6;

pub fn describe_multi(c: &MultiCase) -> serde_json::Value {
    json!({"size": [c.ih.width, c.ih.height], "colour": c.n_colour, "ec": c.ih.ec_info.len(), "frames": c.headers.len(), "keyframes": c.keyframes.len(), "classes": c.classes, "bytes": c.bytes.len(),
        "structure": if std::env::var("VERIF_DEBUG").is_ok() { c.debug.clone() } else { String::new() }})
}

/// Compares a rendered keyframe (unoriented grids) with the model canvas.
pub fn compare_keyframe(c: &MultiCase, k: usize, grids: &[Grid]) -> Option<(String, String, f32)> {
    let want = &c.keyframes[k];
    if grids.len() != want.len() {
        return Some(("channel-count".into(), format!("keyframe {k}: {} channels, expected {}", grids.len(), want.len()), 0.0));
    }
    let mut worst = 0f32;
    for (ci, (g, p)) in grids.iter().zip(want).enumerate() {
        let (w, h) = g.dims();
        if (w, h) != (p.w, p.h) {
            return Some(("dims".into(), format!("keyframe {k} channel {ci}: {w}x{h}, image is {}x{}", p.w, p.h), 0.0));
        }
        for i in 0..w * h {
            let got = match g {
                Grid::F(v, _, _) => v[i],
                Grid::I(v, _, _) => sample_to_f32(v[i], BitDepthSpec::Int { bits: 8 }),
            };
            let d = (got - p.data[i]).abs();
            let tol = TOL * p.data[i].abs().max(1.0);
            if !(d <= tol) {
                // extra channels that blend with an alpha channel the same patch target has just modified
                // are a recorded finding (the decoder uses the already-updated alpha)
                let sig = if ci >= c.n_colour && c.patch_alpha_hazard_ecs.contains(&(ci - c.n_colour)) { "sample:patch-ec-uses-updated-alpha" } else { "sample" };
                return Some((sig.into(), format!("keyframe {k} channel {ci} at ({}, {}): rendered {got}, blend rules give {} (|diff| = {d:e})", i % w, i / w, p.data[i]), d));
            }
            worst = worst.max(d);
        }
    }
    let _ = worst;
    None
}

impl Check for C05 {
    fn fixed_cases(&self) -> Vec<(String, Vec<u8>)> {
        // known finding: patch target modifying an alpha channel and alpha-blending a later extra channel
        vec![("raw-patch-alpha-hazard".into(), b"\xffRAW\x00".to_vec()), ("raw-patch-alpha-index".into(), b"\xffRAW\x01".to_vec())]
    }
    fn id(&self) -> &'static str {
        "C05"
    }
    fn plan(&self, tier: Tier) -> Plan {
        Plan { cases: if tier == Tier::Quick { 120_000 } else { 2_000_000 }, max_len: 6144 }
    }
    fn rule(&self) -> String {
        "choice sequence -> multi-frame image (canvas 1..40 squared, gray/RGB, 0..3 extra channels incl. straight/premultiplied alpha, 8-bit Modular frames with values also outside the nominal range so clamping is observable; 2..7 frames of type regular / reference-only / skip-progressive; durations with animation header; save slots 0..3; per-channel blend info (Replace/Add/Blend/MulAdd/Mul, alpha channel choice, clamp, source slot); crops with negative origin, partly or wholly outside the canvas, larger than the canvas; patches from reference slots with all 8 patch blend modes) x a generated keyframe request order with repeats. Oracle: reference compositor (blend rules applied in bitstream order with the formulas of the definition, f32) -- every render_frame(k), in any request order, equals the model canvas within 2e-6*max(1,|v|) and has the image dimensions. Non-trivial: >= 2 frames and (non-Replace mode, crop, source != 0 or patch); distinct by FNV of the codestream.".into()
    }
    fn assumptions(&self) -> Vec<String> {
        vec![
            "ec_blending_info modes keep (main Replace <=> entry Replace) for canvas-covering frames (definition vs libjxl differ on `source` presence)".into(),
            "patch targets lie inside the frame and patch sources inside the referenced frame (libjxl rejects others); patches only reference frames saved before the colour transform".into(),
            "Blend/MulAdd are generated only when an alpha extra channel exists".into(),
            "reference-only frames larger than the canvas are used by patches only".into(),
        ]
    }
    fn run(&self, choice: &[u8], describe: bool) -> Outcome {
        let mut src = Src::new(choice);
        let ob = src.fork_bytes(24);
        let mut osrc = Src::new(&ob);
        let case = if choice.starts_with(b"\xffRAW") { fixed_multi_case(choice.get(4).copied().unwrap_or(0)) } else { gen_multi_case(&mut src, &MultiOpts::default()) };
        let mut o = Outcome::pass();
        o.nontrivial = case.nontrivial;
        o.case_hash = crate::engine::fnv(&case.bytes) | 1;
        o.classes = case.classes.clone();
        if describe {
            o.describe = Some(describe_multi(&case));
        }
        if let Ok(path) = std::env::var("VERIF_DUMP") {
            let _ = std::fs::write(path, &case.bytes);
        }
        if let Ok(at) = std::env::var("VERIF_DEBUG_AT") {
            let v: Vec<i64> = at.split(',').filter_map(|x| x.parse().ok()).collect();
            if v.len() == 1 {
                for (fi, m) in case.models.iter().enumerate() {
                    eprintln!("frame {fi} ({}x{} at {},{}) ch{}: {:?}", m.w, m.h, m.x0, m.y0, v[0], m.planes[v[0] as usize].data.iter().map(|x| (x * 255.0).round() as i32).collect::<Vec<_>>());
                }
            }
            if v.len() == 3 {
                for (fi, m) in case.models.iter().enumerate() {
                    let (fx, fy) = (v[0] - m.x0, v[1] - m.y0);
                    eprintln!("frame {fi}: canvas ({},{}) -> frame ({fx},{fy}) value[ch {}] = {:?}", v[0], v[1], v[2], if fx >= 0 && fy >= 0 && (fx as usize) < m.w && (fy as usize) < m.h { Some(m.planes[v[2] as usize].at(fx as usize, fy as usize)) } else { None });
                }
            }
        }
        let image = match open(&case.bytes, &DecodeOpts::default()) {
            Ok(i) => i,
            Err(e) => {
                o.verdict = Verdict::Fail { sig: format!("decode-rejected: {}", crate::checks::short(&e)), detail: format!("{e}; {}", describe_multi(&case)) };
                return o;
            }
        };
        let nk = case.keyframes.len();
        if image.num_loaded_keyframes() != nk {
            o.verdict = Verdict::Fail { sig: "keyframe-count".into(), detail: format!("{} keyframes loaded, {} expected; {}", image.num_loaded_keyframes(), nk, describe_multi(&case)) };
            return o;
        }
        // request order: a permutation with repeats
        let mut order: Vec<usize> = (0..nk).collect();
        for i in (1..order.len()).rev() {
            let j = osrc.below(i + 1);
            order.swap(i, j);
        }
        for _ in 0..osrc.range(0, 3) {
            order.push(osrc.below(nk));
        }
        if let Ok(ov) = std::env::var("VERIF_ORDER") {
            order = ov.split(',').filter_map(|x| x.parse().ok()).collect();
        }
        for &k in &order {
            let r = match image.render_frame(k) {
                Ok(r) => r,
                Err(e) => {
                    o.verdict = Verdict::Fail { sig: format!("render-rejected: {}", crate::checks::short(&e.to_string())), detail: format!("keyframe {k} (order {order:?}): {e}; {}", describe_multi(&case)) };
                    return o;
                }
            };
            // planar buffers are cropped to the image rectangle (frames may be larger than the canvas)
            let grids: Vec<Grid> = r.image_planar().iter().map(|p| Grid::F(p.buf().to_vec(), p.width(), p.height())).collect();
            if let Some((sig, detail, _)) = compare_keyframe(&case, k, &grids) {
                o.verdict = Verdict::Fail { sig, detail: format!("{detail}; request order {order:?}; {}", describe_multi(&case)) };
                return o;
            }
        }
        o
    }
}
