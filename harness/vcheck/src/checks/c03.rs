//! C03 — lossless Modular images decode to exactly the encoded samples.

use crate::engine::{Check, Outcome, Plan, Tier, Verdict};
use crate::util::*;
use jxlref::gen::modular::*;
use jxlref::src::Src;
use serde_json::json;

pub struct C03;

pub fn describe_case(c: &ModularCase) -> serde_json::Value {
    json!({"size": [c.ih.width, c.ih.height], "bit_depth": format!("{:?}", c.ih.bit_depth), "colour_channels": c.n_colour, "extra_channels": c.ih.ec_info.iter().map(|e| e.dim_shift).collect::<Vec<_>>(),
        "group_size_shift": c.fh.group_size_shift, "passes": c.fh.passes.num_passes, "classes": c.classes, "bytes": c.bytes.len(), "structure": if std::env::var("VERIF_DEBUG").is_ok() { c.debug.clone() } else { String::new() }})
}

/// Compares decoded unoriented grids with the expected channels.
pub fn compare_grids(c: &ModularCase, grids: &[Grid], what: &str) -> Option<(String, String)> {
    if grids.len() != c.expected.len() {
        return Some((format!("channel-count/{what}"), format!("{} channels decoded, {} expected", grids.len(), c.expected.len())));
    }
    for (i, (g, e)) in grids.iter().zip(&c.expected).enumerate() {
        let is_colour = i < c.n_colour;
        let (depth, shift) = if is_colour { (c.ih.bit_depth, 0) } else { (c.ih.ec_info[i - c.n_colour].bit_depth, c.ih.ec_info[i - c.n_colour].dim_shift) };
        if shift > 0 {
            // the top-level API exposes sub-sampled extra channels only after upsampling
            continue;
        }
        let (w, h) = g.dims();
        if (w, h) != (e.w, e.h) {
            return Some((format!("dims/{what}"), format!("channel {i}: decoded {w}x{h}, expected {}x{}", e.w, e.h)));
        }
        match g {
            Grid::I(v, _, _) => {
                if let Some(p) = v.iter().zip(&e.data).position(|(a, b)| a != b) {
                    return Some((format!("sample-mismatch/{what}"), format!("channel {i} at ({}, {}): decoded {}, expected {}", p % w, p / w, v[p], e.data[p])));
                }
            }
            Grid::F(v, _, _) => {
                if let Some(p) = v.iter().zip(&e.data).position(|(a, b)| a.to_bits() != sample_to_f32(*b, depth).to_bits()) {
                    return Some((format!("sample-mismatch-float/{what}"), format!("channel {i} at ({}, {}): decoded {}, expected {} (sample {})", p % w, p / w, v[p], sample_to_f32(e.data[p], depth), e.data[p])));
                }
            }
        }
    }
    None
}

impl Check for C03 {
    fn fixed_cases(&self) -> Vec<(String, Vec<u8>)> {
        vec![("raw-palette-delta-in-range".into(), b"\xffRAW\x00".to_vec()), ("raw-prev-channel-table".into(), b"\xffRAW\x01".to_vec()), ("raw-rct37-squeeze-21x1".into(), b"\xffRAW\x03".to_vec()), ("raw-gradient-table-extreme".into(), b"\xffRAW\x04".to_vec())]
    }
    fn id(&self) -> &'static str {
        "C03"
    }
    fn plan(&self, tier: Tier) -> Plan {
        Plan { cases: if tier == Tier::Quick { 24_000 } else { 600_000 }, max_len: 4096 }
    }
    fn rule(&self) -> String {
        "choice sequence -> lossless Modular codestream written by the independent reference encoder (sizes 1x1..several groups, group size shift 0..3, 1 or 3 colour channels + 0..3 extra channels, one case in six with a preview frame of its own size 1..300 before the frame, depths 1..31 and float, content styles constant/ramp/noise/few-colours/extremes/smooth; transform chains of RCT(42 types)/palette(explicit, delta with every predictor incl. weighted, implicit)/squeeze(default, explicit); MA trees by shape class (single leaf, Zero, Gradient, property-9 chains, same-property chains, random, static splits) with offsets/multipliers, custom weighted-predictor parameters; global vs local trees; multi-section layouts, 1..4 passes, permuted TOC; every entropy-code form incl. LZ77/RLE) -> jxl-oxide decode (default and forced-wide buffers). Oracle: every decoded sample equals the original integer (unconverted integer grids; float grids bit-equal to the defined conversion). Non-trivial: >=2 distinct sample values and (a transform, a non-single-leaf tree or several groups); distinct by FNV of the codestream.".into()
    }
    fn assumptions(&self) -> Vec<String> {
        vec![
            "extra channels with dim_shift > 0 are encoded but not compared here (the top-level API only exposes them after upsampling)".into(),
            "cases whose properties/predictions would overflow 32-bit arithmetic are regenerated in a simpler configuration (counted as class excluded:i32-overflow-retry)".into(),
            "implicit palette entries only with <= 3 channels; leaves with multiplier != 1 only in images without transforms (the image is then defined as the nearest representable one)".into(),
        ]
    }
    fn run(&self, choice: &[u8], describe: bool) -> Outcome {
        let mut src = Src::new(choice);
        let opts = ModGenOpts::default();
        let case = if choice.starts_with(b"\xffRAW") { fixed_modular_case(choice.get(4).copied().unwrap_or(0)) } else { gen_modular_case(&mut src, &opts) };
        let force_wide = src.bool();
        let mut o = Outcome::pass();
        o.nontrivial = case.nontrivial;
        o.case_hash = crate::engine::fnv(&case.bytes) | 1;
        o.classes = case.classes.clone();
        o.classes.push(if force_wide { "buffers:wide".into() } else { "buffers:default".into() });
        if describe {
            o.describe = Some(describe_case(&case));
        }
        let image = match open(&case.bytes, &DecodeOpts { threads: 0, force_wide }) {
            Ok(i) => i,
            Err(e) => {
                o.verdict = Verdict::Fail { sig: format!("decode-rejected: {}", crate::checks::short(&e)), detail: format!("{e}; {}", describe_case(&case)) };
                return o;
            }
        };
        if image.num_loaded_keyframes() != 1 {
            o.verdict = Verdict::Fail { sig: "keyframe-count".into(), detail: format!("{} keyframes; {}", image.num_loaded_keyframes(), describe_case(&case)) };
            return o;
        }
        let render = match image.render_frame(0) {
            Ok(r) => r,
            Err(e) => {
                o.verdict = Verdict::Fail { sig: format!("render-rejected: {}", crate::checks::short(&e.to_string())), detail: format!("{e}; {}", describe_case(&case)) };
                return o;
            }
        };
        let grids = render_grids(&render);
        if let Some((sig, detail)) = compare_grids(&case, &grids, "top-level") {
            o.verdict = Verdict::Fail { sig, detail: format!("{detail}; {}", describe_case(&case)) };
        }
        o
    }
}
