//! C11 — every prefix of a valid stream means "need more data", never corruption.

use crate::engine::{Check, Outcome, Plan, Tier, Verdict};
use crate::util::*;
use jxl_oxide::{InitializeResult, JxlImage, JxlThreadPool};
use jxlref::gen::modular::ModGenOpts;
use jxlref::gen::stream::*;
use jxlref::src::Src;
use serde_json::json;

pub struct C11;

/// Is this error one of the "need more data" kinds?
pub fn is_need_more(e: &(dyn std::error::Error + 'static)) -> bool {
    let mut cur: Option<&(dyn std::error::Error + 'static)> = Some(e);
    while let Some(err) = cur {
        if let Some(r) = err.downcast_ref::<jxl_render::Error>() {
            if matches!(r, jxl_render::Error::IncompleteFrame) || r.unexpected_eof() {
                return true;
            }
        }
        if let Some(r) = err.downcast_ref::<jxl_frame::Error>() {
            if r.unexpected_eof() {
                return true;
            }
        }
        if let Some(r) = err.downcast_ref::<jxl_bitstream::Error>() {
            if r.unexpected_eof() {
                return true;
            }
        }
        if let Some(r) = err.downcast_ref::<jxl_coding::Error>() {
            if r.unexpected_eof() {
                return true;
            }
        }
        if let Some(r) = err.downcast_ref::<jxl_modular::Error>() {
            if r.unexpected_eof() {
                return true;
            }
        }
        cur = err.source();
    }
    false
}

enum CutResult {
    Ok { initialised: bool, loading_render: Option<bool> },
    Fail(String, String),
}

/// Feeds file[..cut], optionally renders the loading frame, feeds the rest and observes.
fn run_cut(file: &[u8], cut: usize, try_render: bool, expect_dims: (u32, u32), baseline: &Observation) -> CutResult {
    let mut uninit = Some(JxlImage::builder().pool(JxlThreadPool::none()).build_uninit());
    let mut image: Option<JxlImage> = None;
    let mut pending: Vec<u8> = vec![];
    let mut initialised_at_cut = false;
    let mut loading_render = None;
    for (phase, piece) in [&file[..cut], &file[cut..]].into_iter().enumerate() {
        pending.extend_from_slice(piece);
        if let Some(img) = image.as_mut() {
            match img.feed_bytes(&pending) {
                Ok(c) => {
                    pending.drain(..c);
                }
                Err(e) => return CutResult::Fail(format!("feed-error/phase{phase}: {}", crate::checks::short(&e.to_string())), format!("feed_bytes after {} bytes: {e}", if phase == 0 { cut } else { file.len() })),
            }
        } else {
            let mut u = uninit.take().unwrap();
            match u.feed_bytes(&pending) {
                Ok(c) => {
                    pending.drain(..c);
                }
                Err(e) => return CutResult::Fail(format!("feed-error/phase{phase}: {}", crate::checks::short(&e.to_string())), format!("feed_bytes (uninitialised) at cut {cut}: {e}")),
            }
            match u.try_init() {
                Ok(InitializeResult::NeedMoreData(u)) => uninit = Some(u),
                Ok(InitializeResult::Initialized(img)) => image = Some(img),
                Err(e) => return CutResult::Fail(format!("try_init-error/phase{phase}: {}", crate::checks::short(&e.to_string())), format!("try_init with {} bytes: {e}", if phase == 0 { cut } else { file.len() })),
            }
        }
        if phase == 0 {
            initialised_at_cut = image.is_some();
            if let (Some(img), true) = (image.as_mut(), try_render) {
                match img.render_loading_frame() {
                    Ok(r) => {
                        let planar = r.image_planar();
                        for (i, p) in planar.iter().enumerate() {
                            if (p.width() as u32, p.height() as u32) != expect_dims {
                                return CutResult::Fail("loading-frame-dims".into(), format!("render_loading_frame at cut {cut}: channel {i} is {}x{}, image is {}x{}", p.width(), p.height(), expect_dims.0, expect_dims.1));
                            }
                        }
                        loading_render = Some(true);
                    }
                    Err(e) => {
                        if !is_need_more(&*e) {
                            return CutResult::Fail(format!("loading-frame-error: {}", crate::checks::short(&e.to_string())), format!("render_loading_frame at cut {cut} of {}: {e}", file.len()));
                        }
                        loading_render = Some(false);
                    }
                }
            }
        }
    }
    let Some(mut img) = image else {
        return CutResult::Fail("never-initialised".into(), format!("cut {cut}: all bytes fed but still NeedMoreData"));
    };
    if let Err(e) = img.finalize() {
        return CutResult::Fail("finalize-error".into(), e.to_string());
    }
    let obs = observe(&img, true);
    if let Some(d) = diff_observation(baseline, &obs) {
        let field = d.split(':').next().unwrap_or("").to_string();
        return CutResult::Fail(format!("final-differs:{field}"), format!("cut {cut}, loading render attempted={try_render}: {d}"));
    }
    CutResult::Ok { initialised: initialised_at_cut, loading_render }
}

impl Check for C11 {
    fn id(&self) -> &'static str {
        "C11"
    }
    fn plan(&self, tier: Tier) -> Plan {
        Plan { cases: if tier == Tier::Quick { 2500 } else { 40_000 }, max_len: 4096 }
    }
    fn rule(&self) -> String {
        "choice sequence -> valid file (as C09: bare/container, split jxlp, aux boxes, multi-section / multi-pass / squeezed Modular frames, permuted TOCs) x cut positions (every byte when the file is <= 500 bytes in quick / 3 KiB in thorough and not VarDCT, else a structure-boundary-biased sample of 48 (12 for VarDCT files in quick)) x a generated subset of cuts at which render_loading_frame is attempted. Oracle per cut: feed_bytes and try_init never return Err; render_loading_frame is Ok with planar dimensions equal to the oriented image size or an error classified as need-more-data (IncompleteFrame / unexpected EOF anywhere in the error chain); after the rest is fed, headers, counts, offsets, aux data and every keyframe's samples are bit-identical to the uninterrupted decode. An evaluation = one (file, cut). Non-trivial: cut strictly inside the first frame's data with a loading render attempted; distinct by FNV of (file, cut).".into()
    }
    fn run(&self, choice: &[u8], describe: bool) -> Outcome {
        let mut src = Src::new(choice);
        let cbytes = src.fork_bytes(64);
        let mut csrc = Src::new(&cbytes);
        let rseed = u64::from_le_bytes(cbytes[..8].try_into().unwrap());
        let fixed = choice.starts_with(b"\xffRAW");
        let opts = ModGenOpts { max_dim: 200, multi_group: 40, ..Default::default() };
        let _ = &opts;
        let (case, file) = if fixed {
            let (m, f) = fixed_modular_file(choice.get(4).copied().unwrap_or(2));
            (AnyCase { bytes: m.bytes, classes: m.classes, layouts: vec![m.layout], header_len: m.header_len, kind: "modular", size: (m.ih.width, m.ih.height), orientation: 1, has_parallel_work: false, has_neighbourhood_feature: false, desc: String::new() }, f)
        } else {
            let mut ao = AnyOpts::default();
            ao.modular.max_dim = 200;
            ao.vardct.boundary = 8;
            ao.vardct.big_square = 0;
            ao.vardct.multi_lf_group = 0;
            gen_any_file(&mut src, &ao)
        };
        let thorough = std::env::var("VERIF_TIER").map(|t| t == "thorough").unwrap_or(false);
        let all_limit = if thorough { 3072 } else { 500 };
        let n = file.file.len();
        // a VarDCT decode costs ~10 ms in dequantisation-matrix setup alone: sample its cuts
        let heavy = case.kind == "vardct";
        let n_sampled = if heavy && !thorough { 12 } else { 48 };
        let cuts: Vec<usize> = if (n <= all_limit && !heavy) || fixed {
            (0..n).collect()
        } else {
            let mut v: Vec<usize> = vec![];
            for _ in 0..n_sampled {
                let c = if csrc.chance(180) && !file.marks.is_empty() {
                    (file.marks[csrc.below(file.marks.len())] as i64 + csrc.range_i(-3, 9)).clamp(0, n as i64 - 1) as usize
                } else {
                    csrc.range(0, n as u64 - 1) as usize
                };
                v.push(c);
            }
            v.sort();
            v.dedup();
            v
        };
        if std::env::var_os("VERIF_DEBUG").is_some() {
            eprintln!("C11 case: {} file_len={} cuts={:?}", case.desc, file.file.len(), cuts);
        }
        let mut o = Outcome::pass();
        o.case_hash = crate::engine::fnv(&file.file) | 1;
        o.classes = file.classes.clone();
        o.classes.extend(case.classes.iter().filter(|c| c.starts_with("toc:") || c.starts_with("preview:") || c.starts_with("multi") || c.starts_with("tx:squeeze") || c.starts_with("image:")).cloned());
        if describe {
            o.describe = Some(json!({"file_len": n, "cuts": cuts.len(), "classes": o.classes, "image": case.desc}));
        }
        let baseline = match open(&file.file, &DecodeOpts::default()) {
            Ok(i) => observe(&i, true),
            Err(e) => {
                o.verdict = Verdict::Fail { sig: format!("whole-rejected: {}", crate::checks::short(&e)), detail: e };
                return o;
            }
        };
        if std::env::var_os("VERIF_DEBUG").is_some() {
            for (i, fh) in baseline.frame_headers.iter().enumerate() {
                eprintln!("C11 frame {i} @{:?}: {fh}", baseline.frame_offsets.get(i));
            }
            if let Ok(p) = std::env::var("VERIF_DUMP") {
                let _ = std::fs::write(p, &file.file);
            }
        }
        // oriented size
        let (w, h) = if case.orientation >= 5 { (case.size.1, case.size.0) } else { case.size };
        let mut inside_with_render = 0;
        let (mut n_need, mut n_init, mut n_lr_ok, mut n_lr_more) = (0, 0, 0, 0);
        for &cut in &cuts {
            // per-cut decision derived from the seed (does not consume the choice sequence)
            let hsh = (rseed ^ (cut as u64).wrapping_mul(0x9E3779B97F4A7C15)).wrapping_mul(0xBF58476D1CE4E5B9) >> 56;
            let try_render = fixed || hsh < 150;
            if std::env::var_os("VERIF_DEBUG").is_some() {
                eprintln!("C11 cut {cut} try_render={try_render}");
            }
            match run_cut(&file.file, cut, try_render, (w, h), &baseline) {
                CutResult::Fail(sig, detail) => {
                    o.nontrivial = true;
                    o.verdict = Verdict::Fail { sig, detail: format!("{detail}; classes={:?} file_len={n}", o.classes) };
                    return o;
                }
                CutResult::Ok { initialised, loading_render } => {
                    if initialised { n_init += 1 } else { n_need += 1 }
                    match loading_render {
                        Some(true) => n_lr_ok += 1,
                        Some(false) => n_lr_more += 1,
                        None => {}
                    }
                    if loading_render.is_some() && cut > file.first_frame_start && cut < *file.frame_ends.last().unwrap_or(&n) {
                        inside_with_render += 1;
                    }
                }
            }
        }
        o.nontrivial = inside_with_render > 0;
        if n_need > 0 { o.classes.push("cut:before-init".into()); }
        if n_init > 0 { o.classes.push("cut:after-init".into()); }
        if n_lr_ok > 0 { o.classes.push("loading-render:ok".into()); }
        if n_lr_more > 0 { o.classes.push("loading-render:need-more".into()); }
        o
    }
    fn fixed_cases(&self) -> Vec<(String, Vec<u8>)> {
        vec![("raw-permuted-toc-every-cut".into(), b"\xffRAW\x02".to_vec())]
    }
    fn extra_coverage(&self) -> Vec<(String, serde_json::Value)> {
        vec![("note".into(), json!("each evaluation covers one file with all its sampled cut positions"))]
    }
}
