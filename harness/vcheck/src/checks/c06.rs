//! C06 — a region-of-interest render equals the same rectangle of the full render.

use crate::engine::{Check, Outcome, Plan, Tier, Verdict};
use crate::util::*;
use jxl_oxide::{CropInfo, JxlImage};
use jxlref::gen::modular::*;
use jxlref::gen::stream::*;
use jxlref::src::Src;
use serde_json::json;

pub struct C06;

pub const TOL: f32 = 1e-6;

fn planar_of(image: &JxlImage, k: usize) -> Result<Vec<(usize, usize, Vec<f32>)>, String> {
    let r = image.render_frame(k).map_err(|e| e.to_string())?;
    Ok(r.image_planar().iter().map(|p| (p.width(), p.height(), p.buf().to_vec())).collect())
}

/// Runs the region protocol on an opened image; returns a failure (sig, detail) if any.
pub fn region_protocol(image: &mut JxlImage, rsrc: &mut Src, classes: &mut Vec<String>) -> Option<(String, String)> {
    let (w, h) = (image.width() as usize, image.height() as usize);
    let nk = image.num_loaded_keyframes();
    let mut full = vec![];
    for k in 0..nk {
        match planar_of(image, k) {
            Ok(p) => full.push(p),
            Err(e) => return Some((format!("full-render-rejected: {}", crate::checks::short(&e)), e)),
        }
    }
    for (k, f) in full.iter().enumerate() {
        for (c, p) in f.iter().enumerate() {
            if (p.0, p.1) != (w, h) {
                return Some(("full-dims".into(), format!("keyframe {k} channel {c}: {}x{} but image is {w}x{h}", p.0, p.1)));
            }
        }
    }
    let n_regions = rsrc.range(1, 6) as usize;
    for ri in 0..=n_regions {
        // the last request returns to the full image
        let (l, t, rw, rh) = if ri == n_regions {
            (0, 0, w, h)
        } else {
            match rsrc.weighted(&[3, 2, 2, 1, 2]) {
                0 => {
                    let rw = rsrc.range(1, w as u64) as usize;
                    let rh = rsrc.range(1, h as u64) as usize;
                    (rsrc.range(0, (w - rw) as u64) as usize, rsrc.range(0, (h - rh) as u64) as usize, rw, rh)
                }
                1 => {
                    // touching an edge
                    let rw = rsrc.range(1, w as u64) as usize;
                    let rh = rsrc.range(1, h as u64) as usize;
                    match rsrc.below(4) {
                        0 => (0, rsrc.range(0, (h - rh) as u64) as usize, rw, rh),
                        1 => (w - rw, rsrc.range(0, (h - rh) as u64) as usize, rw, rh),
                        2 => (rsrc.range(0, (w - rw) as u64) as usize, 0, rw, rh),
                        _ => (rsrc.range(0, (w - rw) as u64) as usize, h - rh, rw, rh),
                    }
                }
                2 => (rsrc.range(0, w as u64 - 1) as usize, rsrc.range(0, h as u64 - 1) as usize, 1, 1),
                3 => (0, 0, w, h),
                _ => {
                    // around multiples of 8 / 128 / 256 (block and group edges)
                    let snap = |v: usize, max: usize, rsrc: &mut Src| -> usize {
                        let g = rsrc.pick(&[8usize, 64, 128, 256]);
                        let base = (v / g) * g;
                        ((base as i64 + rsrc.range_i(-1, 1)).clamp(0, max as i64)) as usize
                    };
                    let l = snap(rsrc.range(0, w as u64 - 1) as usize, w - 1, rsrc);
                    let t = snap(rsrc.range(0, h as u64 - 1) as usize, h - 1, rsrc);
                    let r = snap(rsrc.range(l as u64, w as u64 - 1) as usize, w - 1, rsrc).max(l);
                    let b = snap(rsrc.range(t as u64, h as u64 - 1) as usize, h - 1, rsrc).max(t);
                    (l, t, r - l + 1, b - t + 1)
                }
            }
        };
        if (rw, rh) != (w, h) {
            classes.push("region:proper".into());
        }
        image.set_image_region(CropInfo { width: rw as u32, height: rh as u32, left: l as u32, top: t as u32 });
        // keyframes in a generated order
        let mut order: Vec<usize> = (0..nk).collect();
        for i in (1..nk).rev() {
            let j = rsrc.below(i + 1);
            order.swap(i, j);
        }
        for &k in &order {
            let got = match planar_of(image, k) {
                Ok(p) => p,
                Err(e) => return Some((format!("region-render-rejected: {}", crate::checks::short(&e)), format!("region ({l},{t},{rw},{rh}) keyframe {k}: {e}"))),
            };
            if got.len() != full[k].len() {
                return Some(("region-channel-count".into(), format!("region ({l},{t},{rw},{rh}) keyframe {k}: {} channels vs {}", got.len(), full[k].len())));
            }
            for (c, (gw, gh, data)) in got.iter().enumerate() {
                if (*gw, *gh) != (rw, rh) {
                    return Some(("region-dims".into(), format!("region ({l},{t},{rw},{rh}) keyframe {k} channel {c}: buffer is {gw}x{gh}")));
                }
                let f = &full[k][c].2;
                for y in 0..rh {
                    for x in 0..rw {
                        let a = data[y * rw + x];
                        let b = f[(t + y) * w + l + x];
                        let same = if ri == n_regions { a.to_bits() == b.to_bits() } else { (a - b).abs() <= TOL * a.abs().max(b.abs()).max(1.0) || a.to_bits() == b.to_bits() };
                        if !same && std::env::var_os("VERIF_C06_SURVEY").is_some() {
                            // debugging aid: list every differing sample of this request instead of stopping
                            eprintln!("C06-DIFF req {ri} region ({l},{t},{rw},{rh}) kf {k} ch {c} at ({x},{y}) abs ({},{}): {a} vs {b} diff {:e}", l + x, t + y, (a - b).abs());
                            continue;
                        }
                        if !same {
                            // differences up to 10x the tolerance are float-rounding noise of differently aligned SIMD
                            // bodies / scalar tails, amplified by the opsin matrix and the transfer curve (known finding);
                            // anything larger is a different kind of failure
                            let small = (a - b).abs() <= 10.0 * TOL * a.abs().max(b.abs()).max(1.0);
                            // the same rounding noise at a pixel far outside the gamut: the colour channels of this pixel
                            // come out of the opsin matrix as differences of terms an order of magnitude larger than the
                            // largest of them (coefficients up to 11), so one ulp of such a term is already > 1e-6 in a
                            // channel that cancels to nearly zero, and the sRGB curve's linear segment multiplies it by
                            // 12.92.  Known finding, bounded: some colour channel of the pixel beyond +-1.5 and the
                            // difference at most 1e-4; anything else keeps the plain signature.
                            let pixel_max = full[k].iter().take(3).filter(|ch| ch.0 == w && ch.2.len() > (t + y) * w + l + x).map(|ch| ch.2[(t + y) * w + l + x].abs()).fold(0f32, f32::max);
                            let cancel = pixel_max > 1.5 && (a - b).abs() <= 1e-4;
                            let sig = if ri == n_regions {
                                "final-full-render-differs"
                            } else if small {
                                "region-sample:within-10x-tolerance"
                            } else if cancel {
                                "region-sample:out-of-gamut-cancellation"
                            } else {
                                "region-sample"
                            };
                            return Some((sig.into(), format!("request #{ri} region ({l},{t},{rw},{rh}) keyframe {k} channel {c} at ({x},{y}): {a} vs full render {b}")));
                        }
                    }
                }
            }
        }
    }
    None
}

impl Check for C06 {
    fn id(&self) -> &'static str {
        "C06"
    }
    fn plan(&self, tier: Tier) -> Plan {
        Plan { cases: if tier == Tier::Quick { 8_000 } else { 120_000 }, max_len: 6144 }
    }
    fn rule(&self) -> String {
        "choice sequence -> valid image (lossless Modular single frame incl. squeeze / palette / multi-group / sub-sampled extra channels / all 8 orientations; or multi-frame Modular with blending, crops, patches, reference frames; VarDCT shapes when the VarDCT writer is present) x a generated sequence of 1..6 rectangles inside the oriented image (interior, edge-touching, 1-pixel, block/group-edge aligned +-1, full) ending with the full image again; keyframes rendered in generated order after every request. Oracle: after set_image_region(r) every channel of render_frame(k).image_planar() has the rectangle's size and equals the same rectangle of the first full render within 1e-6 (times max(1,|v|) for samples outside the nominal range: at |v| = 5 one f32 ulp is already 4.8e-7); the final full render is bit-identical to the first. Non-trivial: a proper sub-rectangle was requested on an image with a neighbourhood-dependent feature (multi-group, squeeze, sub-sampled extra channel, blending offset, patches); distinct by FNV of (codestream, region choices).".into()
    }
    fn run(&self, choice: &[u8], describe: bool) -> Outcome {
        let mut src = Src::new(choice);
        let rb = src.fork_bytes(96);
        let mut rsrc = Src::new(&rb);
        let mut o = Outcome::pass();
        let mut ao = AnyOpts::default();
        ao.modular = ModGenOpts { max_dim: 400, multi_group: 60, orientation: true, ..Default::default() };
        let c = gen_any_case(&mut src, &ao);
        if let Ok(p) = std::env::var("VERIF_DUMP") {
            let _ = std::fs::write(p, &c.bytes);
        }
        let (bytes, mut classes, desc, feature) = (c.bytes, c.classes, json!(c.desc), c.has_neighbourhood_feature);
        o.case_hash = (crate::engine::fnv(&bytes) ^ crate::engine::fnv(&rb)) | 1;
        if describe {
            o.describe = Some(json!({"image": desc}));
        }
        let mut image = match open(&bytes, &DecodeOpts::default()) {
            Ok(i) => i,
            Err(e) => {
                o.verdict = Verdict::Fail { sig: format!("decode-rejected: {}", crate::checks::short(&e)), detail: e };
                return o;
            }
        };
        if let Some((sig, detail)) = region_protocol(&mut image, &mut rsrc, &mut classes) {
            o.nontrivial = true;
            o.verdict = Verdict::Fail { sig, detail: format!("{detail}; {desc}") };
        }
        o.nontrivial = o.nontrivial || (feature && classes.iter().any(|c| c == "region:proper"));
        classes.sort();
        classes.dedup();
        o.classes = classes;
        o
    }
}
