//! C15 — output buffers agree with each other and honour orientation.

use crate::engine::{Check, Outcome, Plan, Tier, Verdict};
use crate::util::*;
use jxl_oxide::CropInfo;
use jxlref::gen::modular::*;
use jxlref::headers::{BitDepthSpec, EcTypeSpec};
use jxlref::src::Src;
use serde_json::json;

pub struct C15;

/// EXIF orientation semantics: where does the stored pixel (x, y) of a w x h image land?
/// Returns (out_x, out_y) and the oriented dimensions.
pub fn orient_map(o: u32, w: usize, h: usize, x: usize, y: usize) -> (usize, usize) {
    match o {
        1 => (x, y),
        2 => (w - 1 - x, y),         // mirrored horizontally
        3 => (w - 1 - x, h - 1 - y), // rotated 180
        4 => (x, h - 1 - y),         // mirrored vertically
        5 => (y, x),                 // transposed
        6 => (h - 1 - y, x),         // rotated 90 clockwise
        7 => (h - 1 - y, w - 1 - x), // transverse
        8 => (y, w - 1 - x),         // rotated 90 counter-clockwise
        _ => unreachable!(),
    }
}

pub fn oriented_dims(o: u32, w: usize, h: usize) -> (usize, usize) {
    if o >= 5 {
        (h, w)
    } else {
        (w, h)
    }
}

pub fn orient_plane(o: u32, w: usize, h: usize, data: &[f32]) -> Vec<f32> {
    let (ow, oh) = oriented_dims(o, w, h);
    let mut out = vec![0.0f32; ow * oh];
    for y in 0..h {
        for x in 0..w {
            let (ox, oy) = orient_map(o, w, h, x, y);
            out[oy * ow + ox] = data[y * w + x];
        }
    }
    out
}

fn to_f32_plane(g: &Grid, depth: BitDepthSpec) -> (usize, usize, Vec<f32>) {
    match g {
        Grid::F(v, w, h) => (*w, *h, v.clone()),
        Grid::I(v, w, h) => (*w, *h, v.iter().map(|&s| sample_to_f32(s, depth)).collect()),
    }
}

fn fail(o: &mut Outcome, sig: &str, detail: String) {
    o.verdict = Verdict::Fail { sig: sig.to_string(), detail };
}

impl Check for C15 {
    fn id(&self) -> &'static str {
        "C15"
    }
    fn plan(&self, tier: Tier) -> Plan {
        Plan { cases: if tier == Tier::Quick { 100_000 } else { 2_000_000 }, max_len: 4096 }
    }
    fn rule(&self) -> String {
        "choice sequence -> small lossless Modular image (gray/RGB, 0..3 extra channels incl. alpha (straight/premultiplied) and sub-sampled ones, depths 1..31 and float, non-square sizes) with a generated orientation 1..8, then a generated crop rectangle inside the oriented image. Oracle: with U = the render's own unoriented channel grids (converted by the defined sample-to-float map) and M_o the EXIF coordinate map written independently: JxlImage::width/height equal the oriented size; image_planar()[c], image_all_channels() (interleaved) and stream()/stream_no_alpha() (f32) equal U∘M_o sample for sample (f32 bit-exact), channel order colour then alpha for streams and colour then all extra channels for the buffers; u16/u8 streams equal clamp(round(f*max)) (ties: either neighbour); write_to_buffer in generated chunk sizes concatenates to the one-shot result; after set_image_region the buffers have the region's size and equal that rectangle of the full oriented picture. Non-trivial: orientation != 1 or >= 1 extra channel, and width != height; distinct by FNV of (codestream, crop).".into()
    }
    fn assumptions(&self) -> Vec<String> {
        vec!["CMYK (black channel) ordering and spot-colour mixing are not generated here: no CMYK ICC writer is available in this check; the black-before-alpha order is covered only by reading".into()]
    }
    fn run(&self, choice: &[u8], describe: bool) -> Outcome {
        let mut src = Src::new(choice);
        let cb = src.fork_bytes(48);
        let mut csrc = Src::new(&cb);
        // a third of the cases declare 16-bit buffers (integer grids survive to the output stage)
        let narrow = src.tail_fork_bytes(1)[0] % 3 == 0;
        let opts = ModGenOpts { max_dim: 160, multi_group: 20, orientation: true, narrow, allow_float: !narrow, ..Default::default() };
        let case = gen_modular_case(&mut src, &opts);
        let o_tag = case.ih.orientation;
        let mut o = Outcome::pass();
        let (w, h) = (case.ih.width as usize, case.ih.height as usize);
        let (ow, oh) = oriented_dims(o_tag, w, h);
        // crop in oriented coordinates
        let cw = csrc.range(1, ow as u64) as usize;
        let chh = csrc.range(1, oh as u64) as usize;
        let cl = csrc.range(0, (ow - cw) as u64) as usize;
        let ct = csrc.range(0, (oh - chh) as u64) as usize;
        o.nontrivial = (o_tag != 1 || !case.ih.ec_info.is_empty()) && w != h;
        o.case_hash = (crate::engine::fnv(&case.bytes) ^ ((cw * 31 + chh * 7 + cl * 3 + ct) as u64)) | 1;
        o.classes.push(format!("orientation:{o_tag}"));
        if narrow {
            o.classes.push("buffers:16bit".into());
        }
        o.classes.push(format!("ec:{}", case.ih.ec_info.len()));
        let alpha_idx = case.ih.ec_info.iter().position(|e| matches!(e.ty, EcTypeSpec::Alpha { .. }));
        if alpha_idx.is_some() {
            o.classes.push("has-alpha".into());
        }
        if case.ih.ec_info.iter().any(|e| e.dim_shift > 0) {
            o.classes.push("ec-subsampled".into());
        }
        o.classes.extend(case.classes.iter().filter(|c| c.starts_with("depth:")).cloned());
        if describe {
            o.describe = Some(json!({"image": crate::checks::c03::describe_case(&case), "orientation": o_tag, "crop": [cl, ct, cw, chh]}));
        }
        let mut image = match open(&case.bytes, &DecodeOpts::default()) {
            Ok(i) => i,
            Err(e) => {
                fail(&mut o, "decode-rejected", e);
                return o;
            }
        };
        if (image.width() as usize, image.height() as usize) != (ow, oh) {
            fail(&mut o, "reported-size", format!("width()/height() = {}x{}, oriented size is {ow}x{oh} (orientation {o_tag}, stored {w}x{h})", image.width(), image.height()));
            return o;
        }
        let depths: Vec<BitDepthSpec> = std::iter::repeat(case.ih.bit_depth).take(case.n_colour).chain(case.ih.ec_info.iter().map(|e| e.bit_depth)).collect();
        let render = match image.render_frame(0) {
            Ok(r) => r,
            Err(e) => {
                fail(&mut o, "render-rejected", e.to_string());
                return o;
            }
        };
        let grids = render_grids(&render);
        if grids.len() != depths.len() {
            fail(&mut o, "channel-count", format!("{} unoriented grids, {} channels expected", grids.len(), depths.len()));
            return o;
        }
        let mut full: Vec<Vec<f32>> = vec![];
        for (i, (g, d)) in grids.iter().zip(&depths).enumerate() {
            let (gw, gh, data) = to_f32_plane(g, *d);
            if gw < w || gh < h {
                fail(&mut o, "unoriented-dims", format!("channel {i}: unoriented grid is {gw}x{gh}, image is {w}x{h}"));
                return o;
            }
            // up-sampled extra channels may carry padding beyond the image; the picture is the top-left w x h
            let data: Vec<f32> = if (gw, gh) == (w, h) {
                data
            } else {
                o.classes.push("unoriented-grid-padded".into());
                (0..h).flat_map(|y| data[y * gw..y * gw + w].to_vec()).collect()
            };
            full.push(orient_plane(o_tag, w, h, &data));
        }
        let n = full.len();
        // planar
        let planar = render.image_planar();
        if planar.len() != n {
            fail(&mut o, "planar-count", format!("{} planar buffers, {n} channels", planar.len()));
            return o;
        }
        for (c, p) in planar.iter().enumerate() {
            if (p.width(), p.height(), p.channels()) != (ow, oh, 1) {
                fail(&mut o, "planar-dims", format!("planar[{c}] is {}x{}x{}, expected {ow}x{oh}x1", p.width(), p.height(), p.channels()));
                return o;
            }
            if let Some(k) = p.buf().iter().zip(&full[c]).position(|(a, b)| a.to_bits() != b.to_bits()) {
                fail(&mut o, "planar-sample", format!("orientation {o_tag}: planar[{c}] at ({}, {}) = {}, expected {}", k % ow, k / ow, p.buf()[k], full[c][k]));
                return o;
            }
        }
        // interleaved
        let all = render.image_all_channels();
        if (all.width(), all.height(), all.channels()) != (ow, oh, n) {
            fail(&mut o, "interleaved-dims", format!("image_all_channels is {}x{}x{}, expected {ow}x{oh}x{n}", all.width(), all.height(), all.channels()));
            return o;
        }
        for (k, v) in all.buf().iter().enumerate() {
            let (c, px) = (k % n, k / n);
            if v.to_bits() != full[c][px].to_bits() {
                fail(&mut o, "interleaved-sample", format!("orientation {o_tag}: interleaved channel {c} at pixel {px}: {v} expected {}", full[c][px]));
                return o;
            }
        }
        // streams
        for no_alpha in [false, true] {
            let mut order: Vec<usize> = (0..case.n_colour).collect();
            if !no_alpha {
                if let Some(a) = alpha_idx {
                    order.push(case.n_colour + a);
                }
            }
            let make = || if no_alpha { render.stream_no_alpha() } else { render.stream() };
            let s = make();
            if (s.width() as usize, s.height() as usize, s.channels() as usize) != (ow, oh, order.len()) {
                fail(&mut o, "stream-dims", format!("stream(no_alpha={no_alpha}) is {}x{}x{}, expected {ow}x{oh}x{}", s.width(), s.height(), s.channels(), order.len()));
                return o;
            }
            let total = ow * oh * order.len();
            let mut f = vec![0f32; total];
            let mut s = make();
            let wrote = s.write_to_buffer(&mut f);
            if wrote != total {
                fail(&mut o, "stream-count", format!("write_to_buffer wrote {wrote} of {total}"));
                return o;
            }
            for (k, v) in f.iter().enumerate() {
                let (ci, px) = (k % order.len(), k / order.len());
                let want = full[order[ci]][px];
                if v.to_bits() != want.to_bits() {
                    fail(&mut o, "stream-f32-sample", format!("orientation {o_tag} no_alpha={no_alpha}: stream channel {ci} at pixel {px}: {v} expected {want}"));
                    return o;
                }
            }
            // integer streams
            let mut b16 = vec![0u16; total];
            let mut b8 = vec![0u8; total];
            make().write_to_buffer(&mut b16);
            make().write_to_buffer(&mut b8);
            for k in 0..total {
                let (ci, px) = (k % order.len(), k / order.len());
                let fv = full[order[ci]][px] as f64;
                for (got, maxv, name) in [(b16[k] as f64, 65535.0, "u16"), (b8[k] as f64, 255.0, "u8")] {
                    let r = (fv * maxv).clamp(0.0, maxv);
                    // the library rounds in f32: val * max + 0.5 carries at most ~2 ulp(max) of error (0.008 at 65535)
                    if (got - r).abs() > 0.5 + 3e-7 * maxv {
                        fail(&mut o, &format!("stream-{name}-rounding"), format!("stream channel {ci} pixel {px}: float {fv} -> {name} {got}, expected round({r})"));
                        return o;
                    }
                }
            }
            // chunked writes concatenate to the one-shot result
            let mut s = make();
            let mut cat: Vec<u16> = vec![];
            let mut guard = 0;
            while cat.len() < total {
                let len = csrc.range(1, 97) as usize;
                let mut tmp = vec![0u16; len];
                let n_written = s.write_to_buffer(&mut tmp);
                cat.extend_from_slice(&tmp[..n_written]);
                guard += 1;
                if n_written == 0 || guard > 1_000_000 {
                    break;
                }
            }
            if cat != b16 {
                fail(&mut o, "stream-chunked-differs", format!("chunked write_to_buffer produced {} samples differing from the one-shot {}", cat.len(), b16.len()));
                return o;
            }
        }
        drop(render);
        // crop
        image.set_image_region(CropInfo { width: cw as u32, height: chh as u32, left: cl as u32, top: ct as u32 });
        let r2 = match image.render_frame(0) {
            Ok(r) => r,
            Err(e) => {
                fail(&mut o, "render-rejected-cropped", e.to_string());
                return o;
            }
        };
        let planar = r2.image_planar();
        for (c, p) in planar.iter().enumerate() {
            if (p.width(), p.height()) != (cw, chh) {
                fail(&mut o, "crop-dims", format!("orientation {o_tag}: cropped planar[{c}] is {}x{}, region is {cw}x{chh}", p.width(), p.height()));
                return o;
            }
            for y in 0..chh {
                for x in 0..cw {
                    let got = p.buf()[y * cw + x];
                    let want = full[c][(ct + y) * ow + cl + x];
                    if got.to_bits() != want.to_bits() {
                        fail(&mut o, "crop-sample", format!("orientation {o_tag}: crop ({cl},{ct},{cw},{chh}) planar[{c}] at ({x},{y}) = {got}, full picture has {want}"));
                        return o;
                    }
                }
            }
        }
        o
    }
}
