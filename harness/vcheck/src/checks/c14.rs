//! C14 — headers and metadata are reported exactly as encoded.

use crate::engine::{Check, Outcome, Plan, Tier, Verdict};
use jxl_bitstream::Bitstream;
use jxl_frame::header as fh;
use jxl_image::{self as ji, color as jc};
use jxl_oxide_common::Bundle;
use jxlref::bits::{f16_to_f32, BitWriter};
use jxlref::gen::headers::*;
use jxlref::headers::*;
use jxlref::src::Src;
use serde_json::json;

pub struct C14;

macro_rules! chk {
    ($errs:ident, $name:expr, $got:expr, $want:expr) => {
        if $got != $want {
            $errs.push(format!("{}: got {:?}, expected {:?}", $name, $got, $want));
        }
    };
}

fn f16eq(got: f32, want_bits: u16) -> bool {
    got.to_bits() == f16_to_f32(want_bits).to_bits()
}

fn cmp_bit_depth(errs: &mut Vec<String>, name: &str, got: ji::BitDepth, want: BitDepthSpec) {
    let ok = match (got, want) {
        (ji::BitDepth::IntegerSample { bits_per_sample }, BitDepthSpec::Int { bits }) => bits_per_sample == bits,
        (ji::BitDepth::FloatSample { bits_per_sample, exp_bits }, BitDepthSpec::Float { bits, exp_bits: e }) => bits_per_sample == bits && exp_bits == e,
        _ => false,
    };
    if !ok {
        errs.push(format!("{name}: got {got:?}, expected {want:?}"));
    }
}

fn cmp_xy(got: jc::Customxy, want: Xy) -> bool {
    got.x == want.x && got.y == want.y
}

pub fn compare_image_header(got: &ji::ImageHeader, want: &ImageHeaderSpec) -> Vec<String> {
    let mut e = vec![];
    chk!(e, "size.width", got.size.width, want.width);
    chk!(e, "size.height", got.size.height, want.height);
    let m = &got.metadata;
    chk!(e, "orientation", m.orientation, want.orientation);
    chk!(e, "intrinsic_size", m.intrinsic_size.as_ref().map(|s| (s.width, s.height)), want.intrinsic_size);
    chk!(e, "preview", m.preview.as_ref().map(|s| (s.width, s.height)), want.preview);
    match (&m.animation, &want.animation) {
        (None, None) => {}
        (Some(a), Some(b)) => {
            chk!(e, "tps_numerator", a.tps_numerator, b.tps_numerator);
            chk!(e, "tps_denominator", a.tps_denominator, b.tps_denominator);
            chk!(e, "num_loops", a.num_loops, b.num_loops);
            chk!(e, "have_timecodes", a.have_timecodes, b.have_timecodes);
        }
        (a, b) => e.push(format!("animation presence: got {:?} expected {:?}", a.is_some(), b.is_some())),
    }
    cmp_bit_depth(&mut e, "bit_depth", m.bit_depth, want.bit_depth);
    chk!(e, "modular_16bit_buffers", m.modular_16bit_buffers, want.modular_16bit_buffers);
    chk!(e, "num_extra", m.ec_info.len(), want.ec_info.len());
    for (i, (g, w)) in m.ec_info.iter().zip(&want.ec_info).enumerate() {
        let ty_ok = match (&g.ty, &w.ty) {
            (ji::ExtraChannelType::Alpha { alpha_associated }, EcTypeSpec::Alpha { associated }) => alpha_associated == associated,
            (ji::ExtraChannelType::Depth, EcTypeSpec::Depth) => true,
            (ji::ExtraChannelType::SpotColour { red, green, blue, solidity }, EcTypeSpec::Spot { rgbs }) => {
                f16eq(*red, rgbs[0]) && f16eq(*green, rgbs[1]) && f16eq(*blue, rgbs[2]) && f16eq(*solidity, rgbs[3])
            }
            (ji::ExtraChannelType::SelectionMask, EcTypeSpec::SelectionMask) => true,
            (ji::ExtraChannelType::Black, EcTypeSpec::Black) => true,
            (ji::ExtraChannelType::Cfa { cfa_channel }, EcTypeSpec::Cfa { channel }) => cfa_channel == channel,
            (ji::ExtraChannelType::Thermal, EcTypeSpec::Thermal) => true,
            (ji::ExtraChannelType::NonOptional, EcTypeSpec::NonOptional) => true,
            (ji::ExtraChannelType::Optional, EcTypeSpec::Optional) => true,
            _ => false,
        };
        if !ty_ok {
            e.push(format!("ec[{i}].ty: got {:?}, expected {:?}", g.ty, w.ty));
        }
        cmp_bit_depth(&mut e, &format!("ec[{i}].bit_depth"), g.bit_depth, w.bit_depth);
        chk!(e, format!("ec[{i}].dim_shift"), g.dim_shift, w.dim_shift);
        chk!(e, format!("ec[{i}].name"), g.name.as_str(), w.name.as_str());
    }
    chk!(e, "xyb_encoded", m.xyb_encoded, want.xyb_encoded);
    match (&m.colour_encoding, &want.colour_encoding) {
        (jc::ColourEncoding::IccProfile(cs), ColourEncodingSpec::Icc { colour_space }) => {
            chk!(e, "colour_space", *cs as u32, *colour_space);
        }
        (jc::ColourEncoding::Enum(g), ColourEncodingSpec::Enum { colour_space, white_point, primaries, tf, intent }) => {
            chk!(e, "colour_space", g.colour_space as u32, *colour_space);
            let wp_ok = match (g.white_point, white_point) {
                (jc::WhitePoint::D65, WhitePointSpec::D65) => true,
                (jc::WhitePoint::E, WhitePointSpec::E) => true,
                (jc::WhitePoint::Dci, WhitePointSpec::Dci) => true,
                (jc::WhitePoint::Custom(p), WhitePointSpec::Custom(q)) => cmp_xy(p, *q),
                _ => false,
            };
            if !wp_ok {
                e.push(format!("white_point: got {:?}, expected {:?}", g.white_point, white_point));
            }
            let pr_ok = match (g.primaries, primaries) {
                (jc::Primaries::Srgb, PrimariesSpec::Srgb) => true,
                (jc::Primaries::Bt2100, PrimariesSpec::Bt2100) => true,
                (jc::Primaries::P3, PrimariesSpec::P3) => true,
                (jc::Primaries::Custom { red, green, blue }, PrimariesSpec::Custom { r, g, b }) => cmp_xy(red, *r) && cmp_xy(green, *g) && cmp_xy(blue, *b),
                _ => false,
            };
            if !pr_ok {
                e.push(format!("primaries: got {:?}, expected {:?}", g.primaries, primaries));
            }
            let tf_ok = match (g.tf, tf) {
                (jc::TransferFunction::Gamma { g, .. }, TfSpec::Gamma(w)) => g == *w,
                (jc::TransferFunction::Bt709, TfSpec::Bt709) => true,
                (jc::TransferFunction::Unknown, TfSpec::Unknown) => true,
                (jc::TransferFunction::Linear, TfSpec::Linear) => true,
                (jc::TransferFunction::Srgb, TfSpec::Srgb) => true,
                (jc::TransferFunction::Pq, TfSpec::Pq) => true,
                (jc::TransferFunction::Dci, TfSpec::Dci) => true,
                (jc::TransferFunction::Hlg, TfSpec::Hlg) => true,
                _ => false,
            };
            if !tf_ok {
                e.push(format!("tf: got {:?}, expected {:?}", g.tf, tf));
            }
            chk!(e, "rendering_intent", g.rendering_intent as u32, *intent);
        }
        (g, w) => e.push(format!("colour_encoding kind: got {g:?}, expected {w:?}")),
    }
    let t = &m.tone_mapping;
    if !f16eq(t.intensity_target, want.tone_mapping.intensity_target) {
        e.push(format!("intensity_target: got {}, expected bits {:04x}", t.intensity_target, want.tone_mapping.intensity_target));
    }
    if !f16eq(t.min_nits, want.tone_mapping.min_nits) {
        e.push(format!("min_nits: got {}, expected bits {:04x}", t.min_nits, want.tone_mapping.min_nits));
    }
    chk!(e, "relative_to_max_display", t.relative_to_max_display, want.tone_mapping.relative_to_max_display);
    if !f16eq(t.linear_below, want.tone_mapping.linear_below) {
        e.push(format!("linear_below: got {}, expected bits {:04x}", t.linear_below, want.tone_mapping.linear_below));
    }
    if want.xyb_encoded {
        if let Some(o) = &want.opsin {
            let g = &m.opsin_inverse_matrix;
            for r in 0..3 {
                for c in 0..3 {
                    if !f16eq(g.inv_mat[r][c], o.inv_mat[r][c]) {
                        e.push(format!("opsin inv_mat[{r}][{c}]"));
                    }
                }
                if !f16eq(g.opsin_bias[r], o.opsin_bias[r]) {
                    e.push(format!("opsin_bias[{r}]"));
                }
                if !f16eq(g.quant_bias[r], o.quant_bias[r]) {
                    e.push(format!("quant_bias[{r}]"));
                }
            }
            if !f16eq(g.quant_bias_numerator, o.quant_bias_numerator) {
                e.push("quant_bias_numerator".into());
            }
        } else {
            // defaults from the definition
            let g = &m.opsin_inverse_matrix;
            let d = [[11.031566901960783f32, -9.866943921568629, -0.16462299647058826], [-3.254147380392157, 4.418770392156863, -0.16462299647058826], [-3.6588512862745097, 2.7129230470588235, 1.9459282392156863]];
            if g.inv_mat != d {
                e.push(format!("default opsin matrix: got {:?}", g.inv_mat));
            }
            if g.quant_bias_numerator != 0.145 {
                e.push("default quant_bias_numerator".into());
            }
        }
    }
    for (name, got, want) in [("up2", &m.up2_weight[..], &want.up2), ("up4", &m.up4_weight[..], &want.up4), ("up8", &m.up8_weight[..], &want.up8)] {
        if let Some(w) = want {
            if got.len() != w.len() || got.iter().zip(w.iter()).any(|(g, w)| !f16eq(*g, *w)) {
                e.push(format!("{name} weights differ"));
            }
        } else {
            // default weights: spot-check first entry against the definition
            let d0 = match name { "up2" => -0.01716200f32, "up4" => -0.02419067, _ => -0.02928613 };
            if got[0] != d0 {
                e.push(format!("{name} default weight[0]: got {}", got[0]));
            }
        }
    }
    e
}

pub fn compare_frame_header(got: &fh::FrameHeader, want: &FrameHeaderSpec, ih: &ImageHeaderSpec) -> Vec<String> {
    let mut e = vec![];
    chk!(e, "frame_type", got.frame_type as u32, want.frame_type as u32);
    chk!(e, "encoding", (got.encoding == fh::Encoding::Modular), want.modular);
    chk!(e, "flags.noise", got.flags.noise(), want.flags & FLAG_NOISE != 0);
    chk!(e, "flags.patches", got.flags.patches(), want.flags & FLAG_PATCHES != 0);
    chk!(e, "flags.splines", got.flags.splines(), want.flags & FLAG_SPLINES != 0);
    chk!(e, "flags.use_lf_frame", got.flags.use_lf_frame(), want.flags & FLAG_USE_LF_FRAME != 0);
    chk!(e, "flags.skip_adaptive_lf_smoothing", got.flags.skip_adaptive_lf_smoothing(), want.flags & FLAG_SKIP_ADAPTIVE_LF_SMOOTHING != 0);
    chk!(e, "do_ycbcr", got.do_ycbcr, want.do_ycbcr);
    chk!(e, "jpeg_upsampling", got.jpeg_upsampling, want.jpeg_upsampling);
    chk!(e, "upsampling", got.upsampling, want.upsampling);
    chk!(e, "ec_upsampling", got.ec_upsampling, want.ec_upsampling);
    chk!(e, "group_size_shift", got.group_size_shift, want.group_size_shift);
    chk!(e, "x_qm_scale", got.x_qm_scale, want.x_qm_scale);
    chk!(e, "b_qm_scale", got.b_qm_scale, want.b_qm_scale);
    chk!(e, "passes.num_passes", got.passes.num_passes, want.passes.num_passes);
    chk!(e, "passes.shift", got.passes.shift, want.passes.shift);
    chk!(e, "passes.downsample", got.passes.downsample, want.passes.downsample);
    chk!(e, "passes.last_pass", got.passes.last_pass, want.passes.last_pass);
    chk!(e, "lf_level", got.lf_level, want.lf_level);
    chk!(e, "have_crop", got.have_crop, want.crop.is_some());
    let (x0, y0, w, h) = want.crop.unwrap_or((0, 0, ih.width, ih.height));
    chk!(e, "x0", got.x0, x0);
    chk!(e, "y0", got.y0, y0);
    chk!(e, "width", got.width, w);
    chk!(e, "height", got.height, h);
    let cmp_bi = |e: &mut Vec<String>, name: String, g: &fh::BlendingInfo, w: &BlendingInfoSpec| {
        chk!(e, format!("{name}.mode"), g.mode as u32, w.mode);
        chk!(e, format!("{name}.alpha_channel"), g.alpha_channel, w.alpha_channel);
        chk!(e, format!("{name}.clamp"), g.clamp, w.clamp);
        chk!(e, format!("{name}.source"), g.source, w.source);
    };
    cmp_bi(&mut e, "blending_info".into(), &got.blending_info, &want.blending_info);
    // when the list is not signalled (all_default header, non-normal frame) the decoder keeps an
    // empty list, which stands for "every entry default"
    let unsignalled_ok = got.ec_blending_info.is_empty() && want.ec_blending_info.iter().all(|b| *b == BlendingInfoSpec::default());
    if !unsignalled_ok {
        chk!(e, "ec_blending_info.len", got.ec_blending_info.len(), want.ec_blending_info.len());
    }
    for (i, (g, w)) in got.ec_blending_info.iter().zip(&want.ec_blending_info).enumerate() {
        cmp_bi(&mut e, format!("ec_blending_info[{i}]"), g, w);
    }
    chk!(e, "duration", got.duration, want.duration);
    chk!(e, "timecode", got.timecode, want.timecode);
    chk!(e, "is_last", got.is_last, want.is_last);
    chk!(e, "save_as_reference", got.save_as_reference, want.save_as_reference);
    chk!(e, "save_before_ct", got.save_before_ct, want.save_before_ct);
    chk!(e, "name", got.name.as_str(), want.name.as_str());
    chk!(e, "is_keyframe", got.is_keyframe(), want.is_keyframe());
    // restoration filter
    let rf = &got.restoration_filter;
    match (&rf.gab, &want.restoration_filter.gab) {
        (jxl_frame::filter::Gabor::Disabled, GaborSpec::Disabled) => {}
        (jxl_frame::filter::Gabor::Enabled(g), GaborSpec::Default) => {
            if *g != [[0.115169525f32, 0.061248592]; 3] {
                e.push(format!("gab default weights: got {g:?}"));
            }
        }
        (jxl_frame::filter::Gabor::Enabled(g), GaborSpec::Custom(w)) => {
            for c in 0..3 {
                for k in 0..2 {
                    if !f16eq(g[c][k], w[c][k]) {
                        e.push(format!("gab weight [{c}][{k}]"));
                    }
                }
            }
        }
        (g, w) => e.push(format!("gab: got {g:?} expected {w:?}")),
    }
    match (&rf.epf, &want.restoration_filter.epf) {
        (jxl_frame::filter::EdgePreservingFilter::Disabled, None) => {}
        (jxl_frame::filter::EdgePreservingFilter::Enabled(g), Some(w)) => {
            chk!(e, "epf.iters", g.iters, w.iters);
            match &w.sharp_lut {
                Some(l) => {
                    for i in 0..8 {
                        if !f16eq(g.sharp_lut[i], l[i]) {
                            e.push(format!("epf.sharp_lut[{i}]"));
                        }
                    }
                }
                None => {
                    for i in 0..8 {
                        if g.sharp_lut[i] != i as f32 / 7.0 {
                            e.push(format!("epf default sharp_lut[{i}] = {}", g.sharp_lut[i]));
                        }
                    }
                }
            }
            match &w.channel_scale {
                Some(c) => {
                    for i in 0..3 {
                        if !f16eq(g.channel_scale[i], c[i]) {
                            e.push(format!("epf.channel_scale[{i}]"));
                        }
                    }
                }
                None => chk!(e, "epf default channel_scale", g.channel_scale, [40.0f32, 5.0, 3.5]),
            }
            match &w.sigma {
                Some(s) => {
                    if !want.modular && !f16eq(g.sigma.quant_mul, s[0]) {
                        e.push("epf.sigma.quant_mul".into());
                    }
                    if want.modular && g.sigma.quant_mul != 0.46 {
                        e.push("epf.sigma.quant_mul default (modular)".into());
                    }
                    if !f16eq(g.sigma.pass0_sigma_scale, s[1]) || !f16eq(g.sigma.pass2_sigma_scale, s[2]) || !f16eq(g.sigma.border_sad_mul, s[3]) {
                        e.push("epf.sigma scales".into());
                    }
                }
                None => {
                    if g.sigma.quant_mul != 0.46 || g.sigma.pass0_sigma_scale != 0.9 || g.sigma.pass2_sigma_scale != 6.5 || g.sigma.border_sad_mul != 2.0 / 3.0 {
                        e.push(format!("epf default sigma: got {:?}", g.sigma));
                    }
                }
            }
            if want.modular {
                if !f16eq(g.sigma_for_modular, w.sigma_for_modular) {
                    e.push("epf.sigma_for_modular".into());
                }
            } else if g.sigma_for_modular != 1.0 {
                e.push("epf.sigma_for_modular default".into());
            }
        }
        (g, w) => e.push(format!("epf: got {g:?} expected {w:?}")),
    }
    e
}

impl Check for C14 {
    fn fixed_cases(&self) -> Vec<(String, Vec<u8>)> {
        vec![
            ("raw-preview-ratio".into(), b"\xffRAW\x00".to_vec()),
            ("raw-preview-div8-ratio".into(), b"\xffRAW\x01".to_vec()),
            ("raw-preview-explicit".into(), b"\xffRAW\x02".to_vec()),
        ]
    }
    fn id(&self) -> &'static str {
        "C14"
    }
    fn plan(&self, tier: Tier) -> Plan {
        Plan { cases: if tier == Tier::Quick { 2_000_000 } else { 30_000_000 }, max_len: 4096 }
    }
    fn rule(&self) -> String {
        "choice sequence -> (ImageHeaderSpec over the whole conditional layout, FrameHeaderSpec over all legal field combinations for that image header, TOC sizes) written by the independent jxlref writer with *generated* U32 selectors / U64 forms / all_default shortcuts / div8+ratio size forms; parsed through the public Bundle::parse impls. Oracle: field-wise equality of every public field and Bitstream::num_read_bits == bits written, after each of the three structures. Non-trivial: image or frame header not all_default; distinct by FNV of the written bytes.".into()
    }
    fn assumptions(&self) -> Vec<String> {
        vec![
            "ColourEncoding with colour_space = XYB is not generated (definition and libjxl disagree on whether tf is signalled)".into(),
            "for canvas-covering frames ec_blending_info modes are kept Replace iff the main mode is Replace (the definition keys `source` presence on the main mode, libjxl on the entry's mode)".into(),
            "reserved frame flag bits are not set".into(),
        ]
    }
    fn run(&self, choice: &[u8], describe: bool) -> Outcome {
        let ones = [0xffu8; 256];
        let mut src = Src::new(choice);
        let (ih, f) = if choice.starts_with(b"\xffRAW") {
            // fixed regressions: hand-made specs, encoding choices all "last alternative"
            src = Src::new(&ones);
            let mut ih = ImageHeaderSpec::default();
            match choice.get(4).copied().unwrap_or(0) {
                0 => ih.preview = Some((4, 4)),                 // preview with ratio 1 (fixed defect)
                1 => ih.preview = Some((128, 64)),              // preview with div8 and ratio 7
                _ => ih.preview = Some((7, 3)),                 // preview, explicit width
            }
            let f = FrameHeaderSpec::all_default_for(&ih);
            (ih, f)
        } else {
            let ih = gen_image_header(&mut src, &HeaderGenOpts::default());
            let f = gen_frame_header(&mut src, &ih);
            (ih, f)
        };
        let mut w = BitWriter::new();
        write_image_header(&mut w, &ih, &mut src);
        let ih_bits = w.num_bits();
        // (the ICC stream would go here; C18 covers it)  byte-align like a codestream does
        w.zero_pad();
        let fh_start = w.num_bits();
        write_frame_header(&mut w, &f, &ih, &mut src);
        let fh_bits = w.num_bits();
        let entries = toc_entry_count(&f, &ih) as usize;
        let do_toc = entries <= 2048 && frame_geometry(&f, &ih).num_groups as u64 * f.passes.num_passes as u64 <= 2048;
        let mut sizes = vec![];
        if do_toc {
            for _ in 0..entries {
                sizes.push(match src.weighted(&[4, 2, 1, 1]) {
                    0 => src.range(0, 1023) as u32,
                    1 => src.range(0, 17407) as u32,
                    2 => src.range(0, 4211711) as u32,
                    _ => src.range(0, 4211712 + (1 << 30) - 1) as u32,
                });
            }
            write_toc_plain(&mut w, &sizes, &mut src);
        }
        let toc_bits = w.num_bits();
        let mut bytes = w.finish();
        // trailing junk must not matter
        bytes.extend_from_slice(&[0xa5; 16]);

        let mut o = Outcome::pass();
        o.case_hash = crate::engine::fnv(&bytes) | 1;
        let ih_default = ih == ImageHeaderSpec { width: ih.width, height: ih.height, ..Default::default() };
        let f_default = f == FrameHeaderSpec::all_default_for(&ih);
        o.nontrivial = !ih_default || !f_default;
        o.classes.push(format!("frame:{:?}/{}", f.frame_type, if f.modular { "modular" } else { "vardct" }));
        if ih.preview.is_some() { o.classes.push("preview".into()); }
        if ih.animation.is_some() { o.classes.push("animation".into()); }
        if !ih.ec_info.is_empty() { o.classes.push("extra-channels".into()); }
        if f.crop.is_some() { o.classes.push("crop".into()); }
        if f.passes.num_passes > 1 { o.classes.push("multi-pass".into()); }
        if matches!(ih.colour_encoding, ColourEncodingSpec::Enum { primaries: PrimariesSpec::Custom { .. }, .. }) { o.classes.push("custom-primaries".into()); }
        if do_toc { o.classes.push(if entries == 1 { "toc:1".into() } else { "toc:multi".to_string() }); } else { o.classes.push("toc:skipped-too-many-entries".into()); }
        if describe {
            o.describe = Some(json!({"image_header": format!("{ih:?}"), "frame_header": format!("{f:?}"), "toc_entries": if do_toc { entries } else { 0 }, "bytes": bytes.len()}));
        }

        let mut bs = Bitstream::new(&bytes);
        let got_ih = match ji::ImageHeader::parse(&mut bs, ()) {
            Ok(h) => h,
            Err(err) => {
                o.verdict = Verdict::Fail { sig: format!("image-header-rejected: {err}"), detail: format!("valid image header rejected: {err}; spec={ih:?}") };
                return o;
            }
        };
        let errs = compare_image_header(&got_ih, &ih);
        if !errs.is_empty() {
            let first = errs[0].split(':').next().unwrap_or("").to_string();
            o.verdict = Verdict::Fail { sig: format!("image-header-field:{first}"), detail: format!("{errs:?}; spec={ih:?}") };
            return o;
        }
        if bs.num_read_bits() != ih_bits {
            o.verdict = Verdict::Fail { sig: "image-header-bitpos".into(), detail: format!("read {} bits, written {}; spec={ih:?}", bs.num_read_bits(), ih_bits) };
            return o;
        }
        if bs.zero_pad_to_byte().is_err() || bs.num_read_bits() != fh_start {
            o.verdict = Verdict::Fail { sig: "pad".into(), detail: "padding".into() };
            return o;
        }
        let got_f = match fh::FrameHeader::parse(&mut bs, &got_ih) {
            Ok(h) => h,
            Err(err) => {
                o.verdict = Verdict::Fail { sig: format!("frame-header-rejected: {err}"), detail: format!("valid frame header rejected: {err}; spec={f:?} ih={ih:?}") };
                return o;
            }
        };
        let errs = compare_frame_header(&got_f, &f, &ih);
        if !errs.is_empty() {
            let first = errs[0].split(':').next().unwrap_or("").to_string();
            o.verdict = Verdict::Fail { sig: format!("frame-header-field:{first}"), detail: format!("{errs:?}; spec={f:?} ih={ih:?}") };
            return o;
        }
        if bs.num_read_bits() != fh_bits {
            o.verdict = Verdict::Fail { sig: "frame-header-bitpos".into(), detail: format!("read {} bits, written {}; spec={f:?}", bs.num_read_bits(), fh_bits) };
            return o;
        }
        if do_toc {
            let toc = match jxl_frame::data::Toc::parse(&mut bs, &got_f) {
                Ok(t) => t,
                Err(err) => {
                    o.verdict = Verdict::Fail { sig: format!("toc-rejected: {err}"), detail: format!("{err}; entries={entries}") };
                    return o;
                }
            };
            if bs.num_read_bits() != toc_bits {
                o.verdict = Verdict::Fail { sig: "toc-bitpos".into(), detail: format!("read {} bits, written {}", bs.num_read_bits(), toc_bits) };
                return o;
            }
            let groups: Vec<_> = toc.iter_bitstream_order().collect();
            let mut off = toc_bits / 8;
            if groups.len() != sizes.len() {
                o.verdict = Verdict::Fail { sig: "toc-count".into(), detail: format!("{} groups, expected {}", groups.len(), sizes.len()) };
                return o;
            }
            for (i, (g, s)) in groups.iter().zip(&sizes).enumerate() {
                if g.size != *s || g.offset != off {
                    o.verdict = Verdict::Fail { sig: "toc-entry".into(), detail: format!("entry {i}: got size {} offset {}, expected size {} offset {}", g.size, g.offset, s, off) };
                    return o;
                }
                off += *s as usize;
            }
            let total: usize = sizes.iter().map(|&s| s as usize).sum();
            if toc.total_byte_size() != total {
                o.verdict = Verdict::Fail { sig: "toc-total".into(), detail: format!("total {} expected {}", toc.total_byte_size(), total) };
                return o;
            }
        }
        o
    }
}
