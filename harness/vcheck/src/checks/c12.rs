//! C12 — 16-bit and 32-bit Modular buffers give identical results.

use crate::checks::c03::{compare_grids, describe_case};
use crate::engine::{Check, Outcome, Plan, Tier, Verdict};
use crate::util::*;
use jxlref::gen::modular::*;
use jxlref::src::Src;

pub struct C12;

impl Check for C12 {
    fn id(&self) -> &'static str {
        "C12"
    }
    fn plan(&self, tier: Tier) -> Plan {
        Plan { cases: if tier == Tier::Quick { 30_000 } else { 600_000 }, max_len: 4096 }
    }
    fn rule(&self) -> String {
        "choice sequence -> lossless Modular codestream of depth <= 12 (a quarter of the cases: depth 13..15 or samples over the whole signed 16-bit range, so that predictor sums such as N+W-NW leave 16 bits while every stored value fits) that declares modular_16bit_buffers = 1 *truthfully* (the reference encoder rejects any transform stage, prediction or reconstructed value outside the signed 16-bit range and regenerates the case), channel widths/heights 1..70 and around group edges, all transforms and tree shapes of C03. Oracle: decode with default (narrow, SIMD-capable) buffers and with force_wide_buffers(true): every channel sample-identical between the two, and both equal to the original. Non-trivial: RCT or squeeze present and some channel dimension > 32; distinct by FNV of the codestream.".into()
    }
    fn assumptions(&self) -> Vec<String> {
        vec![
            "truthfulness of the 16-bit declaration is established by the encoder over coded channel values, every forward-transform stage and every reconstructed sample; decoder-internal temporaries of wider type are not modelled".into(),
            "VarDCT frames with Modular extra channels are covered once the VarDCT writer lands (see DESIGN)".into(),
        ]
    }
    fn run(&self, choice: &[u8], describe: bool) -> Outcome {
        let mut src = Src::new(choice);
        let opts = ModGenOpts { narrow: true, allow_float: false, max_dim: 600, multi_group: 40, ..Default::default() };
        let case = gen_modular_case(&mut src, &opts);
        let mut o = Outcome::pass();
        let big = case.expected.iter().any(|c| c.w > 32 || c.h > 32);
        o.nontrivial = big && case.classes.iter().any(|c| c.starts_with("tx:rct") || c.starts_with("tx:squeeze"));
        o.case_hash = crate::engine::fnv(&case.bytes) | 1;
        o.classes = case.classes.clone();
        if big {
            o.classes.push("dim>32".into());
        }
        if describe {
            o.describe = Some(describe_case(&case));
        }
        let mut results = vec![];
        for (name, wide) in [("narrow", false), ("wide", true)] {
            let image = match open(&case.bytes, &DecodeOpts { threads: 0, force_wide: wide }) {
                Ok(i) => i,
                Err(e) => {
                    o.verdict = Verdict::Fail { sig: format!("decode-rejected/{name}: {}", crate::checks::short(&e)), detail: format!("{e}; {}", describe_case(&case)) };
                    return o;
                }
            };
            let render = match image.render_frame(0) {
                Ok(r) => r,
                Err(e) => {
                    o.verdict = Verdict::Fail { sig: format!("render-rejected/{name}: {}", crate::checks::short(&e.to_string())), detail: format!("{e}; {}", describe_case(&case)) };
                    return o;
                }
            };
            results.push(render_grids(&render));
        }
        // narrow vs wide
        for (i, (a, b)) in results[0].iter().zip(&results[1]).enumerate() {
            let same = match (a, b) {
                (Grid::I(x, w, h), Grid::I(y, w2, h2)) => w == w2 && h == h2 && x == y,
                (Grid::F(x, w, h), Grid::F(y, w2, h2)) => w == w2 && h == h2 && x.iter().zip(y).all(|(p, q)| p.to_bits() == q.to_bits()),
                _ => false,
            };
            if !same {
                let vs_narrow = compare_grids(&case, &results[0], "narrow").map(|x| x.1);
                let vs_wide = compare_grids(&case, &results[1], "wide").map(|x| x.1);
                o.verdict = Verdict::Fail { sig: "narrow-wide-differ".into(), detail: format!("channel {i} differs between narrow and wide buffers; narrow vs original: {vs_narrow:?}; wide vs original: {vs_wide:?}; {}", describe_case(&case)) };
                return o;
            }
        }
        for (k, name) in [(0, "narrow"), (1, "wide")] {
            if let Some((sig, detail)) = compare_grids(&case, &results[k], name) {
                o.verdict = Verdict::Fail { sig, detail: format!("{detail}; {}", describe_case(&case)) };
                return o;
            }
        }
        o
    }
}
