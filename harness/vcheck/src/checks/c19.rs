//! C19 — colour descriptions round-trip through the synthesised ICC profile;
//! transfer curves invert and are monotone; converting to the same encoding is a no-op.
//!
//! Three generated sub-checks (first choice, weights 5:4:1):
//!  (a) `icc`      EnumColourEncoding -> colour_encoding_to_icc -> ColorEncodingWithProfile::with_icc
//!  (b) `curve`    linear -> tf -> linear through the public ColorTransform (NullCms)
//!  (c) `identity` ColorTransform::new(e, e) is a no-op and leaves buffers bit-identical

use crate::engine::{catch, fnv, Check, Outcome, Plan, Tier, Verdict};
use jxl_color::{ColorEncodingWithProfile, ColorTransform, NullCms};
use jxl_image::color::{
    ColourEncoding, ColourSpace, Customxy, EnumColourEncoding, OpsinInverseMatrix, Primaries, RenderingIntent, ToneMapping, TransferFunction,
    WhitePoint,
};
use jxl_oxide_common::BundleDefault;
use jxlref::colour_model as cm;
use jxlref::src::Src;
use serde_json::{json, Value};
use std::collections::BTreeMap;
use std::sync::Mutex;

pub struct C19;

// ---------------------------------------------------------------------------
// Frozen tolerances (see `rule()` / `assumptions()` for the grounding; the
// observed maxima of every run are written to the evidence file under
// `observed_maxima`).

/// xy agreement demanded by the property.
const TOL_XY: f64 = 1.0e-4;
/// relative gamma agreement demanded by the property.
const TOL_GAMMA_REL: f64 = 1.0e-4;
/// |x' - x| <= TOL_RT * max(1, |x|), demanded by the property on the nominal range.
const TOL_RT: f64 = 1.0e-4;
/// Coarsest ICC *format* resolution (worst-case xy shift from correctly rounded
/// s15Fixed16 numbers) still inside the domain: the nine named white point x
/// primaries combinations reach 3.73e-5 (DCI white, sRGB primaries); descriptions
/// the format carries more coarsely than that are outside the domain.
const MAX_FORMAT_RESOLUTION: f64 = 4.0e-5;
/// Pure-gamma exponents for which the curve sub-check asserts the flat TOL_RT.
const CURVE_GAMMA_MAX_EXPONENT: f64 = 4.0;
/// Largest step against the input order that is attributed to the documented
/// approximations (piecewise rational polynomials) rather than to a wrong curve.
const MONO_SLACK: f64 = 1.0e-6;
/// Calibrated round-trip tolerance of the sRGB pair (observed 3.771e-4 at x = 1.0 over a
/// 1e6-point scan of [0, 1]; the encoder alone is 1.657e-4 off the IEC formula there).
const TOL_RT_SRGB: f64 = 1.6e-3;
/// Step against the order that the PQ EOTF approximation makes near black, as a
/// fraction of 10000 cd/m2 (scanned worst 2.83e-8 over 200001 points of [0, 0.05]).
const PQ_DECODE_STEP_BACK: f64 = 1.2e-7;

/// Gamma field range (`inverted: true`, encoding exponent g/1e7) that names a
/// usable curve: 1/8192 <= g/1e7 <= 1, i.e. decoding exponent in [1, 8192].
const G_MIN: u32 = 1221; // ceil(1e7 / 8192)
const G_ONE: u32 = 10_000_000;

/// A custom white point must have Bradford cone responses within this factor of D50's.
const WHITE_CONE_RATIO_MAX: f64 = 4.0;
const DISCARD_WHITE: &str = "custom white point outside the range chromatic adaptation is meaningful for (a Bradford cone response beyond 4x / below 1/4 of D50's)";
const DISCARD_TRIANGLE: &str = "no triangle of area 1e-3 fits around the white point";

static OBSERVED: Mutex<BTreeMap<String, f64>> = Mutex::new(BTreeMap::new());

#[derive(Default)]
struct Obs(Vec<(String, f64)>);
impl Obs {
    fn see(&mut self, key: impl Into<String>, v: f64) {
        let key = key.into();
        if let Some(e) = self.0.iter_mut().find(|e| e.0 == key) {
            if v > e.1 {
                e.1 = v;
            }
        } else {
            self.0.push((key, v));
        }
    }
    fn flush(self) {
        if self.0.is_empty() {
            return;
        }
        let mut m = OBSERVED.lock().unwrap();
        for (k, v) in self.0 {
            let e = m.entry(k).or_insert(0.0);
            if v > *e || v.is_nan() {
                *e = v;
            }
        }
    }
}

// ---------------------------------------------------------------------------
// Generators.

type P = (i64, i64); // chromaticity in units of 1e-6

const U: i64 = 1_000_000;

const NAMED_WP_UNITS: [(P, &str); 4] = [((312700, 329000), "D65"), ((333333, 333333), "E"), ((314000, 351000), "DCI"), ((345700, 358500), "D50")];
const SRGB_UNITS: [P; 3] = [(640000, 330000), (300000, 600000), (150000, 60000)];
const BT2100_UNITS: [P; 3] = [(708000, 292000), (170000, 797000), (131000, 46000)];
const P3_UNITS: [P; 3] = [(680000, 320000), (265000, 690000), (150000, 60000)];

fn cross(a: P, b: P, c: P) -> i128 {
    (b.0 - a.0) as i128 * (c.1 - a.1) as i128 - (b.1 - a.1) as i128 * (c.0 - a.0) as i128
}

/// "Names a real colour space": every primary inside the chromaticity
/// triangle x,y >= 0, x+y <= 1; |area| >= 1e-3; the white point strictly inside
/// the primaries' triangle (each primary contributes positively to white).
fn real_space(w: P, t: [P; 3]) -> bool {
    // y = 0 gives a primary of zero luminance: x/y is undefined, and every RGB<->XYZ construction divides by y
    // (y >= 0.001 keeps all real-world spaces except ProPhoto's blue, y = 0.0001)
    if t.iter().any(|p| p.0 < 0 || p.1 < 1000 || p.0 + p.1 > U) {
        return false;
    }
    let a = cross(t[0], t[1], t[2]);
    if a.abs() < 2_000_000_000 {
        return false; // area = |cross| / 2 in units of 1e-12
    }
    let s = a.signum();
    [cross(t[0], t[1], w), cross(t[1], t[2], w), cross(t[2], t[0], w)].iter().all(|c| c.signum() == s)
}

fn wp_units(w: &WhitePoint) -> P {
    match w {
        WhitePoint::D65 => NAMED_WP_UNITS[0].0,
        WhitePoint::E => NAMED_WP_UNITS[1].0,
        WhitePoint::Dci => NAMED_WP_UNITS[2].0,
        WhitePoint::Custom(c) => (c.x as i64, c.y as i64),
    }
}

fn wp_xy(w: &WhitePoint) -> cm::Xy {
    match w {
        WhitePoint::D65 => cm::WP_D65,
        WhitePoint::E => cm::WP_E,
        WhitePoint::Dci => cm::WP_DCI,
        WhitePoint::Custom(c) => [c.x as f64 / 1e6, c.y as f64 / 1e6],
    }
}

fn prim_xy(p: &Primaries) -> [cm::Xy; 3] {
    match p {
        Primaries::Srgb => cm::PRIM_SRGB,
        Primaries::Bt2100 => cm::PRIM_BT2100,
        Primaries::P3 => cm::PRIM_P3,
        Primaries::Custom { red, green, blue } => [red, green, blue].map(|c| [c.x as f64 / 1e6, c.y as f64 / 1e6]),
    }
}

fn wp_kind(w: &WhitePoint) -> &'static str {
    match w {
        WhitePoint::D65 => "d65",
        WhitePoint::E => "e",
        WhitePoint::Dci => "dci",
        WhitePoint::Custom(_) => "custom",
    }
}

fn prim_kind(p: &Primaries) -> &'static str {
    match p {
        Primaries::Srgb => "srgb",
        Primaries::Bt2100 => "bt2100",
        Primaries::P3 => "p3",
        Primaries::Custom { .. } => "custom",
    }
}

fn tf_kind(t: &TransferFunction) -> &'static str {
    match t {
        TransferFunction::Gamma { inverted: true, .. } => "gamma",
        TransferFunction::Gamma { inverted: false, .. } => "gamma-noninv",
        TransferFunction::Bt709 => "bt709",
        TransferFunction::Unknown => "unknown",
        TransferFunction::Linear => "linear",
        TransferFunction::Srgb => "srgb",
        TransferFunction::Pq => "pq",
        TransferFunction::Dci => "dci",
        TransferFunction::Hlg => "hlg",
    }
}

/// Decoding exponent of a pure power curve (None for the piecewise / HDR curves).
fn power_exponent(t: &TransferFunction) -> Option<f64> {
    match *t {
        TransferFunction::Gamma { g, inverted: true } => Some(1e7 / g as f64),
        TransferFunction::Gamma { g, inverted: false } => Some(g as f64 / 1e7),
        TransferFunction::Linear => Some(1.0),
        TransferFunction::Dci => Some(2.6),
        _ => None,
    }
}

/// Class of a power exponent.  u32::MAX / 1e7 = 429.4967295 is the largest
/// exponent the non-inverted `Gamma { g: u32 }` form can express; after the
/// 1/65536 quantisation of the ICC gamma the limit is just below, at 429.4967.
fn exponent_class(e: f64) -> &'static str {
    if e <= 1.0 + 1e-4 {
        "1"
    } else if e <= 4.0 {
        "(1,4]"
    } else if e <= 64.0 {
        "(4,64]"
    } else if e < 429.4967 {
        "(64,429.49]"
    } else {
        "(429.49,8192]"
    }
}

fn gen_wp(src: &mut Src) -> WhitePoint {
    match src.weighted(&[3, 1, 1, 5]) {
        0 => WhitePoint::D65,
        1 => WhitePoint::E,
        2 => WhitePoint::Dci,
        _ => {
            let (x, y) = match src.weighted(&[2, 2, 4, 1]) {
                0 => NAMED_WP_UNITS[src.below(4)].0,
                1 => {
                    // around a named point, straddling the parser's snapping distance
                    let b = NAMED_WP_UNITS[src.below(4)].0;
                    (b.0 + src.range_i(-200, 200), b.1 + src.range_i(-200, 200))
                }
                2 => (src.range_i(240_000, 500_000), src.range_i(240_000, 500_000)),
                _ => {
                    let x = src.range_i(1, U - 2);
                    (x, src.range_i(1, U - 1 - x))
                }
            };
            WhitePoint::Custom(Customxy { x: x as i32, y: y as i32 })
        }
    }
}

fn custom_primaries(t: [P; 3]) -> Primaries {
    let c = |p: P| Customxy { x: p.0 as i32, y: p.1 as i32 };
    Primaries::Custom { red: c(t[0]), green: c(t[1]), blue: c(t[2]) }
}

/// Three points around the white point, one in each 120-degree sector (jitter
/// below 30 degrees, so the triangle contains the white point), at a generated
/// fraction of the distance to the border of the chromaticity triangle.
fn primaries_around(src: &mut Src, w: P, full_size: bool) -> [P; 3] {
    let (wx, wy) = (w.0 as f64 / 1e6, w.1 as f64 / 1e6);
    let base = src.range(0, 359) as f64;
    let mut t = [(0i64, 0i64); 3];
    for (i, p) in t.iter_mut().enumerate() {
        let jitter = src.range_i(-29, 29) as f64;
        let frac = if full_size { 1.0 } else { src.range(20, 1000) as f64 / 1000.0 };
        let a = (base + 120.0 * i as f64 + jitter).to_radians();
        let (dx, dy) = (a.cos(), a.sin());
        let mut tmax = f64::INFINITY;
        if dx < 0.0 {
            tmax = tmax.min(-wx / dx);
        }
        if dy < 0.0 {
            tmax = tmax.min(-wy / dy);
        }
        if dx + dy > 0.0 {
            tmax = tmax.min((1.0 - wx - wy) / (dx + dy));
        }
        let x = (((wx + frac * tmax * dx) * 1e6).round() as i64).clamp(0, U);
        let y = (((wy + frac * tmax * dy) * 1e6).round() as i64).clamp(0, U - x);
        *p = (x, y);
    }
    // which vertex is red/green/blue (both orientations)
    match src.below(6) {
        0 => t,
        1 => [t[0], t[2], t[1]],
        2 => [t[1], t[0], t[2]],
        3 => [t[1], t[2], t[0]],
        4 => [t[2], t[0], t[1]],
        _ => [t[2], t[1], t[0]],
    }
}

/// Primaries forming a real colour space with `w`, by construction.  `None`
/// only when no triangle of area 1e-3 around `w` fits (white point in a corner).
fn gen_primaries(src: &mut Src, w: P) -> Option<Primaries> {
    let named = [(Primaries::Srgb, SRGB_UNITS), (Primaries::Bt2100, BT2100_UNITS), (Primaries::P3, P3_UNITS)];
    let pick = src.weighted(&[3, 1, 1, 5]);
    if pick < 3 && real_space(w, named[pick].1) {
        return Some(named[pick].0);
    }
    match src.weighted(&[4, 2, 2]) {
        1 => {
            let t = named[src.below(3)].1;
            if real_space(w, t) {
                return Some(custom_primaries(t));
            }
        }
        2 => {
            let mut t = named[src.below(3)].1;
            for p in t.iter_mut() {
                p.0 += src.range_i(-300, 300);
                p.1 += src.range_i(-300, 300);
            }
            if real_space(w, t) {
                return Some(custom_primaries(t));
            }
        }
        _ => {}
    }
    let t = primaries_around(src, w, false);
    if real_space(w, t) {
        return Some(custom_primaries(t));
    }
    let t = primaries_around(src, w, true);
    if real_space(w, t) {
        return Some(custom_primaries(t));
    }
    None
}

fn gen_gamma_field(src: &mut Src) -> u32 {
    match src.weighted(&[3, 3, 2, 2, 1]) {
        0 => src.pick(&[4545455u32, 4166667, 5555556, 3846154, G_ONE, G_MIN, 5_000_000, G_ONE - 1, 23283, 23284, 1222, 2_500_000]),
        1 => src.range(G_MIN as u64, G_ONE as u64) as u32,
        2 => {
            // log-uniform over the 13 octaves of the decoding exponent
            let k = src.range(0, 12) as u32;
            let hi = G_ONE >> k;
            let lo = (G_ONE >> (k + 1)).max(G_MIN);
            src.range(lo as u64, hi as u64) as u32
        }
        3 => src.range(3_000_000, 6_000_000) as u32,
        _ => G_ONE - src.range(0, 2000) as u32,
    }
}

fn gen_tf(src: &mut Src) -> TransferFunction {
    match src.weighted(&[1, 3, 1, 1, 1, 1, 1, 1]) {
        0 => TransferFunction::Srgb,
        1 => TransferFunction::Gamma { g: gen_gamma_field(src), inverted: true },
        2 => {
            // the non-inverted form the library itself produces (decoding exponent g/1e7 >= 1)
            let g = match src.weighted(&[2, 2, 1]) {
                0 => src.pick(&[22_000_000u32, 24_000_000, 18_000_000, 26_000_000, G_ONE, G_ONE + 1, u32::MAX]),
                1 => src.range(G_ONE as u64, 50_000_000) as u32,
                _ => src.range(G_ONE as u64, u32::MAX as u64) as u32,
            };
            TransferFunction::Gamma { g, inverted: false }
        }
        3 => TransferFunction::Bt709,
        4 => TransferFunction::Linear,
        5 => TransferFunction::Pq,
        6 => TransferFunction::Dci,
        _ => TransferFunction::Hlg,
    }
}

fn gen_intent(src: &mut Src) -> RenderingIntent {
    src.pick(&[RenderingIntent::Relative, RenderingIntent::Perceptual, RenderingIntent::Saturation, RenderingIntent::Absolute])
}

/// A colour encoding that names a real colour space (see `real_space`).
fn gen_encoding(src: &mut Src, tf: Option<TransferFunction>) -> Result<EnumColourEncoding, &'static str> {
    let grey = src.weighted(&[3, 1]) == 1;
    let white_point = gen_wp(src);
    // a white point is something chromatic adaptation is defined for: Bradford cone
    // responses within a factor 4 of D50's (every CIE standard illuminant, every black body above ~2400 K)
    if cm::bradford_cone_ratio(wp_xy(&white_point)).iter().any(|r| !(*r >= 1.0 / WHITE_CONE_RATIO_MAX && *r <= WHITE_CONE_RATIO_MAX)) {
        return Err(DISCARD_WHITE);
    }
    let primaries = if grey { Primaries::Srgb } else { gen_primaries(src, wp_units(&white_point)).ok_or(DISCARD_TRIANGLE)? };
    let tf = match tf {
        Some(t) => t,
        None => gen_tf(src),
    };
    let rendering_intent = gen_intent(src);
    Ok(EnumColourEncoding { colour_space: if grey { ColourSpace::Grey } else { ColourSpace::Rgb }, white_point, primaries, tf, rendering_intent })
}

fn enc_classes(o: &mut Outcome, e: &EnumColourEncoding) {
    o.classes.push(format!("cs:{}", if e.colour_space == ColourSpace::Grey { "grey" } else { "rgb" }));
    o.classes.push(format!("wp:{}", wp_kind(&e.white_point)));
    if e.colour_space == ColourSpace::Rgb {
        o.classes.push(format!("prim:{}", prim_kind(&e.primaries)));
    }
    o.classes.push(format!("tf:{}", tf_kind(&e.tf)));
    if let TransferFunction::Gamma { .. } = e.tf {
        o.classes.push(format!("gamma-exponent:{}", exponent_class(power_exponent(&e.tf).unwrap())));
    }
    o.classes.push(format!("intent:{:?}", e.rendering_intent));
}

fn has_custom(e: &EnumColourEncoding) -> bool {
    matches!(e.white_point, WhitePoint::Custom(_))
        || (e.colour_space == ColourSpace::Rgb && matches!(e.primaries, Primaries::Custom { .. }))
        || matches!(e.tf, TransferFunction::Gamma { .. })
}

fn fail(o: &mut Outcome, sig: impl Into<String>, detail: impl Into<String>) {
    o.verdict = Verdict::Fail { sig: sig.into(), detail: detail.into() };
}

/// Panic location without the line number (stable across unrelated edits).
fn panic_file(p: &str) -> String {
    let loc = p.split(": ").next().unwrap_or("");
    let file = loc.rsplit('/').next().unwrap_or(loc);
    file.split(':').next().unwrap_or(file).to_string()
}

// ---------------------------------------------------------------------------
// (a) ICC synthesis round trip.

/// A custom value that came back as a named one: "marginal" while the distance
/// stays below twice the tolerance (the parser snaps within 1e-4 of the value it
/// recovered), "gross" beyond.
fn snapped_suffix(snapped: bool, d: f64) -> &'static str {
    match (snapped, d <= 2.0 * TOL_XY) {
        (false, _) => "",
        (true, true) => ":snapped-to-named:marginal",
        (true, false) => ":snapped-to-named:gross",
    }
}

fn run_icc(src: &mut Src, o: &mut Outcome, describe: bool, fixed: Option<EnumColourEncoding>) {
    o.classes.push("sub:icc".into());
    let enc = match fixed {
        Some(e) => e,
        None => match gen_encoding(src, None) {
            Ok(e) => e,
            Err(why) => {
                o.verdict = Verdict::Discard(why.into());
                return;
            }
        },
    };
    let rgb = enc.colour_space == ColourSpace::Rgb;
    let want_wp = wp_xy(&enc.white_point);
    let want_pr = prim_xy(&enc.primaries);
    let canon = format!("icc|{enc:?}");
    o.case_hash = fnv(canon.as_bytes()) | 1;
    o.nontrivial = has_custom(&enc);
    if describe {
        o.describe = Some(json!({"sub": "icc", "encoding": format!("{enc:?}")}));
    }
    // domain: what the ICC format itself cannot carry to half the tolerance is not asked for
    let res = cm::icc_matrix_resolution(want_wp, if rgb { Some(want_pr) } else { None });
    match res {
        Some(r) if r.white_point.max(r.primaries) <= MAX_FORMAT_RESOLUTION => {}
        _ => {
            o.verdict = Verdict::Discard("ICC s15Fixed16 matrices cannot carry this white point / primaries to 4e-5 (format resolution; the named spaces need 3.73e-5)".into());
            return;
        }
    }
    enc_classes(o, &enc);
    let mut obs = Obs::default();

    let icc = match catch(|| jxl_color::icc::colour_encoding_to_icc(&enc)) {
        Ok(v) => v,
        Err(p) => {
            fail(o, format!("icc-roundtrip:synth-panic@{}:tf={}", panic_file(&p), tf_kind(&enc.tf)), format!("colour_encoding_to_icc panicked: {p}; encoding={enc:?}"));
            return;
        }
    };
    let prof = match catch(|| ColorEncodingWithProfile::with_icc(&icc)) {
        Ok(Ok(p)) => p,
        Ok(Err(e)) => {
            fail(o, format!("icc-roundtrip:parse-error:tf={}", tf_kind(&enc.tf)), format!("with_icc rejected the synthesised profile: {e}; encoding={enc:?}"));
            return;
        }
        Err(p) => {
            fail(o, format!("icc-roundtrip:parse-panic@{}:tf={}", panic_file(&p), tf_kind(&enc.tf)), format!("with_icc panicked: {p}; encoding={enc:?}"));
            return;
        }
    };
    let got = match prof.encoding() {
        ColourEncoding::Enum(e) => e.clone(),
        ColourEncoding::IccProfile(cs) => {
            fail(
                o,
                format!("icc-roundtrip:not-enum:tf={}", tf_kind(&enc.tf)),
                format!("synthesised profile was not recognised as an enum encoding (came back as opaque ICC, colour space {cs:?}); encoding={enc:?}"),
            );
            return;
        }
    };
    if got.colour_space != enc.colour_space {
        fail(o, "icc-roundtrip:colour-space", format!("got {:?}; encoding={enc:?}", got.colour_space));
        return;
    }
    if got.rendering_intent != enc.rendering_intent {
        fail(o, "icc-roundtrip:intent", format!("got {:?}; encoding={enc:?}", got.rendering_intent));
        return;
    }
    let got_wp = wp_xy(&got.white_point);
    let d = (got_wp[0] - want_wp[0]).abs().max((got_wp[1] - want_wp[1]).abs());
    let wp_snapped = matches!(enc.white_point, WhitePoint::Custom(_)) && !matches!(got.white_point, WhitePoint::Custom(_));
    obs.see(format!("icc/white-point-xy-error/{}/{}", if rgb { "rgb" } else { "grey" }, if wp_snapped { "custom-snapped-to-named" } else { "kept" }), d);
    if !(d <= TOL_XY + 1e-12) {
        obs.flush();
        fail(
            o,
            format!(
                "icc-roundtrip:white-point:{}:{}{}",
                if rgb { "rgb" } else { "grey" },
                wp_kind(&enc.white_point),
                snapped_suffix(wp_snapped, d)
            ),
            format!("white point came back as {:?} = {got_wp:?}, expected {want_wp:?} (max |dxy| = {d:.3e}, format resolution {:?}); encoding={enc:?}", got.white_point, res),
        );
        return;
    }
    if rgb {
        let got_pr = prim_xy(&got.primaries);
        let mut d = 0.0f64;
        for i in 0..3 {
            for k in 0..2 {
                d = d.max((got_pr[i][k] - want_pr[i][k]).abs());
            }
        }
        let pr_snapped = matches!(enc.primaries, Primaries::Custom { .. }) && !matches!(got.primaries, Primaries::Custom { .. });
        obs.see(format!("icc/primaries-xy-error/{}", if pr_snapped { "custom-snapped-to-named" } else { "kept" }), d);
        if !(d <= TOL_XY + 1e-12) {
            obs.flush();
            fail(
                o,
                format!(
                    "icc-roundtrip:primaries:{}{}",
                    prim_kind(&enc.primaries),
                    snapped_suffix(pr_snapped, d)
                ),
                format!("primaries came back as {:?} = {got_pr:?}, expected {want_pr:?} (max |dxy| = {d:.3e}, format resolution {:?}); encoding={enc:?}", got.primaries, res),
            );
            return;
        }
    }
    let tf_ok = match (power_exponent(&enc.tf), power_exponent(&got.tf)) {
        (Some(a), Some(b)) => {
            let rel = (a - b).abs() / a;
            obs.see(format!("icc/gamma-relative-error/exponent{}", exponent_class(a)), rel);
            rel <= TOL_GAMMA_REL
        }
        (None, None) => got.tf == enc.tf,
        _ => false,
    };
    obs.flush();
    if !tf_ok {
        let class = match power_exponent(&enc.tf) {
            Some(e) => format!("power:exponent{}", exponent_class(e)),
            None => tf_kind(&enc.tf).to_string(),
        };
        fail(
            o,
            format!("icc-roundtrip:tf:{class}"),
            format!("transfer function came back as {:?} (exponent {:?}), expected {:?} (exponent {:?}); encoding={enc:?}", got.tf, power_exponent(&got.tf), enc.tf, power_exponent(&enc.tf)),
        );
    }
}

// ---------------------------------------------------------------------------
// (b) transfer curves through ColorTransform.

fn tone_mapping(intensity_target: f32) -> ToneMapping {
    let mut t = <ToneMapping as BundleDefault<()>>::default_with_context(());
    t.intensity_target = intensity_target;
    t
}

fn transform(from: &EnumColourEncoding, to: &EnumColourEncoding, it: f32) -> Result<ColorTransform, String> {
    let oim = <OpsinInverseMatrix as BundleDefault<()>>::default_with_context(());
    let tm = tone_mapping(it);
    let f = ColorEncodingWithProfile::new(from.clone());
    let t = ColorEncodingWithProfile::new(to.clone());
    match catch(|| ColorTransform::new(&f, &t, &oim, &tm, &NullCms)) {
        Ok(Ok(t)) => Ok(t),
        Ok(Err(e)) => Err(format!("error: {e}")),
        Err(p) => Err(format!("panic: {p}")),
    }
}

/// Runs the transform the way the renderer does: always three planar buffers
/// (gray is replicated), all of the same length.
fn run3(t: &ColorTransform, ch: &mut [Vec<f32>; 3]) -> Result<usize, String> {
    let [a, b, c] = ch;
    match catch(|| t.run(&mut [&mut a[..], &mut b[..], &mut c[..]])) {
        Ok(Ok(n)) => Ok(n),
        Ok(Err(e)) => Err(format!("error: {e}")),
        Err(p) => Err(format!("panic: {p}")),
    }
}

const SPECIALS: [f32; 24] = [
    0.0, 1.0, 1e-7, 1.1e-7, 1e-4, 0.99e-4, 0.0031308, 0.0031309, 0.04045, 0.040451, 0.018, 0.0180001, 0.081, 0.0810001, 1.0 / 12.0, 0.08333334, 0.5,
    0.50000006, 0.99999994, 1.0000001, 1e-3, 1e-5, 0.25, 0.75,
];

/// Sorted sample buffer in [lo, hi]: a dense grid (free of choice bytes), random
/// values, and values at / next to the curves' breakpoints.
fn gen_samples(src: &mut Src, lo: f64, hi: f64) -> Vec<f32> {
    let mut v: Vec<f32> = vec![];
    let n_grid = match src.weighted(&[2, 3, 2, 1]) {
        0 => 0,
        1 => src.range(2, 40) as usize,
        2 => src.range(2, 300) as usize,
        _ => src.range(2, 1500) as usize,
    };
    if n_grid > 0 {
        // sub-interval grid: whole range, or zoomed in somewhere
        let (a, b) = match src.weighted(&[3, 2, 1]) {
            0 => (lo, hi),
            1 => (0.0f64.max(lo), 1.0f64.min(hi)),
            _ => {
                let c = lo + (hi - lo) * src.range(0, 65535) as f64 / 65535.0;
                let w = (hi - lo) * 10f64.powi(-(src.range(1, 6) as i32));
                ((c - w).max(lo), (c + w).min(hi))
            }
        };
        for i in 0..n_grid {
            v.push((a + (b - a) * i as f64 / (n_grid - 1).max(1) as f64) as f32);
        }
    }
    let n_rand = src.range(0, 24) as usize;
    for _ in 0..n_rand {
        let u = src.u32() as f64 / u32::MAX as f64;
        let x = match src.below(3) {
            0 => lo + (hi - lo) * u,
            1 => u,                           // nominal range
            _ => 10f64.powf(-8.0 + 8.0 * u), // log-uniform small positive
        };
        v.push(x.clamp(lo, hi) as f32);
    }
    let n_spec = src.range(0, 12) as usize;
    for _ in 0..n_spec {
        let s = SPECIALS[src.below(SPECIALS.len())];
        let s = if lo < 0.0 && src.chance(40) { -s } else { s };
        v.push((s as f64).clamp(lo, hi) as f32);
    }
    if v.is_empty() {
        v.push(lo.max(0.0) as f32);
        v.push(hi.min(1.0) as f32);
    }
    v.sort_by(|a, b| a.partial_cmp(b).unwrap());
    v
}

/// Round-trip tolerance as a fraction of max(1, |x|), per curve (see `assumptions()`).
fn rt_tolerance(tf: &TransferFunction, intensity_target: f32) -> f64 {
    match tf {
        // fast sRGB encoder (8-bit-grade approximation ported from libjxl): calibrated
        TransferFunction::Srgb => TOL_RT_SRGB,
        // the PQ EOTF approximation is off by a fixed 6.2e-7 of 10000 cd/m2 near black,
        // which is a larger share of a smaller intensity target
        TransferFunction::Pq | TransferFunction::Hlg => TOL_RT * (255.0 / intensity_target as f64).max(1.0),
        _ => TOL_RT,
    }
}

struct Pass<'a> {
    /// curve name used in signatures
    tf: &'a str,
    what: &'a str,
    /// pure gamma beyond CURVE_GAMMA_MAX_EXPONENT: one merged signature per direction
    large_exponent: bool,
    intensity_target: f32,
}

impl Pass<'_> {
    fn sig(&self, observable: &str) -> String {
        if self.large_exponent {
            format!("curve:large-gamma-exponent:{}", self.what)
        } else {
            // observable may carry a qualifier after ':' -> curve:<observable>:<tf>:<qualifier>:<direction>
            match observable.split_once(':') {
                Some((obs, q)) => format!("curve:{obs}:{}:{q}:{}", self.tf, self.what),
                None => format!("curve:{observable}:{}:{}", self.tf, self.what),
            }
        }
    }
}

/// finite?  returns Some((index, channel)) of the first non-finite sample
fn first_nonfinite(ch: &[Vec<f32>; 3], nch: usize) -> Option<(usize, usize)> {
    for c in 0..nch {
        if let Some(i) = ch[c].iter().position(|v| !v.is_finite()) {
            return Some((i, c));
        }
    }
    None
}

/// Largest step of `out` against the order of `input` as a fraction of
/// max(1, |out|), over neighbouring pairs whose inputs are strictly ordered in
/// the expected direction (0 when monotone).
fn max_drop(input: &[f32], out: &[f32], ascending: bool) -> (f64, usize) {
    let mut worst = (0.0f64, 0usize);
    for i in 0..out.len().saturating_sub(1) {
        let (lo, hi) = if ascending { (i, i + 1) } else { (i + 1, i) };
        if !(input[lo] < input[hi]) {
            continue;
        }
        // relative to the magnitude of the output (f32 rounding noise scales with it)
        let d = (out[lo] as f64 - out[hi] as f64) / (out[lo].abs() as f64).max(1.0);
        if d > worst.0 {
            worst = (d, i);
        }
    }
    worst
}

/// Backward step a faithful decoder of the *published* BT.709 constants makes
/// just above e = 0.081: the encoder jumps from 4.5*0.018 = 0.081 to
/// 1.099*0.018^0.45 - 0.099 = 0.08125, so e in (0.081, 0.08125) decodes below 0.018.
fn bt709_published_gap() -> f64 {
    0.018 - ((0.081f64 + 0.099) / 1.099).powf(1.0 / 0.45)
}

#[allow(clippy::too_many_arguments)]
fn check_finite_monotone(o: &mut Outcome, obs: &mut Obs, p: &Pass, input: &[Vec<f32>; 3], out: &[Vec<f32>; 3], nch: usize, sorted: [Option<bool>; 3], ctx: &str) -> bool {
    if let Some((i, c)) = first_nonfinite(out, nch) {
        let black = (0..nch).all(|k| input[k][i] == 0.0);
        fail(
            o,
            p.sig(if black { "nonfinite:black-pixel" } else { "nonfinite:non-black" }),
            format!("output sample {} (channel {c}, index {i}) for input pixel {:?}; {ctx}", out[c][i], (0..nch).map(|k| input[k][i]).collect::<Vec<_>>()),
        );
        return false;
    }
    let slack = MONO_SLACK
        + match (p.tf, p.what) {
            ("bt709", "decode") => bt709_published_gap(),
            ("pq", "decode") => PQ_DECODE_STEP_BACK * 10000.0 / p.intensity_target as f64,
            _ => 0.0,
        };
    for c in 0..nch {
        let Some(asc) = sorted[c] else { continue };
        let (d, i) = max_drop(&input[c], &out[c], asc);
        obs.see(format!("curve/monotone-step-back/{}/{}", p.tf, p.what), d);
        if d > slack {
            fail(
                o,
                p.sig("not-monotone"),
                format!(
                    "inputs {:e} -> {:e} map to outputs {:e} -> {:e} (channel {c}, indices {i},{}; step against order {d:.3e} of max(1,|out|), allowed {slack:.3e}); {ctx}",
                    input[c][i],
                    input[c][i + 1],
                    out[c][i],
                    out[c][i + 1],
                    i + 1
                ),
            );
            return false;
        }
    }
    true
}

/// Arrange one sorted sample list into three channels: ch0 ascending, ch1
/// rotated (same values in other SIMD lanes), ch2 descending.
fn spread(samples: &[f32], rot: usize, same: bool) -> ([Vec<f32>; 3], [Option<bool>; 3]) {
    if same {
        return ([samples.to_vec(), samples.to_vec(), samples.to_vec()], [Some(true), Some(true), Some(true)]);
    }
    let mut r = samples.to_vec();
    r.rotate_left(rot % samples.len().max(1));
    let mut d = samples.to_vec();
    d.reverse();
    ([samples.to_vec(), r, d], [Some(true), None, Some(false)])
}

fn run_curve(src: &mut Src, o: &mut Outcome, describe: bool, fixed: Option<(EnumColourEncoding, f32, Vec<f32>)>) {
    o.classes.push("sub:curve".into());
    let (enc, it, samples, rot, same_channels, with_black) = match fixed {
        Some((e, it, s)) => (e, it, s, 0usize, true, true),
        None => {
            // curve under test
            let tf = match src.weighted(&[2, 3, 2, 1, 2, 1, 2]) {
                0 => TransferFunction::Srgb,
                1 => {
                    // display gammas; exponents beyond CURVE_GAMMA_MAX_EXPONENT are only checked for finiteness/monotonicity
                    let g = match src.weighted(&[3, 3, 1]) {
                        0 => src.pick(&[4545455u32, 4166667, 5555556, 3846154, G_ONE, 2_500_000, G_ONE - 1]),
                        1 => src.range(2_500_000, G_ONE as u64) as u32,
                        _ => gen_gamma_field(src),
                    };
                    if src.chance(48) {
                        let e = (1e7 / g as f64 * 1e7).round().min(u32::MAX as f64) as u32;
                        TransferFunction::Gamma { g: e.max(G_ONE), inverted: false }
                    } else {
                        TransferFunction::Gamma { g, inverted: true }
                    }
                }
                2 => TransferFunction::Bt709,
                3 => TransferFunction::Linear,
                4 => TransferFunction::Pq,
                5 => TransferFunction::Dci,
                _ => TransferFunction::Hlg,
            };
            let enc = match gen_encoding(src, Some(tf)) {
                Ok(e) => e,
                Err(why) => {
                    o.verdict = Verdict::Discard(why.into());
                    return;
                }
            };
            let hdr = matches!(tf, TransferFunction::Pq | TransferFunction::Hlg);
            let it = if hdr { src.pick(&[255.0f32, 1000.0, 4000.0, 10000.0, 100.0, 203.0]) } else { src.pick(&[255.0f32, 100.0]) };
            let beyond = matches!(tf, TransferFunction::Gamma { .. }) && power_exponent(&tf).unwrap() > CURVE_GAMMA_MAX_EXPONENT;
            let (lo, hi) = if hdr || beyond { (0.0, 1.0) } else { (-0.5, 1.5) };
            let samples = gen_samples(src, lo, hi);
            let rot = src.range(0, 15) as usize;
            let same = src.chance(96);
            let with_black = src.chance(64);
            (enc, it, samples, rot, same, with_black)
        }
    };
    let tfk = tf_kind(&enc.tf);
    let tfs = match enc.tf {
        TransferFunction::Gamma { .. } if power_exponent(&enc.tf).unwrap() > CURVE_GAMMA_MAX_EXPONENT => format!("{tfk}:exponent{}", exponent_class(power_exponent(&enc.tf).unwrap())),
        _ => tfk.to_string(),
    };
    let hdr = matches!(enc.tf, TransferFunction::Pq | TransferFunction::Hlg);
    let is_hlg = enc.tf == TransferFunction::Hlg;
    let grey = enc.colour_space == ColourSpace::Grey;
    let nch = if grey { 1 } else { 3 };
    let pure = it <= 255.0; // above, the transform to a non-HDR target tone-maps by design
    // HLG is a three-channel function (OOTF on luminance): a black pixel is its own class
    let mut samples = samples;
    if !with_black {
        for v in samples.iter_mut() {
            if *v == 0.0 {
                *v = 1e-6;
            }
        }
        samples.sort_by(|a, b| a.partial_cmp(b).unwrap());
    }
    let canon = format!("curve|{enc:?}|{it}|{rot}|{same_channels}|{:?}", samples.iter().map(|v| v.to_bits()).collect::<Vec<_>>());
    o.case_hash = fnv(canon.as_bytes()) | 1;
    o.nontrivial = samples.iter().any(|v| v.abs() > 1e-3);
    enc_classes(o, &enc);
    o.classes.push(format!("intensity-target:{it}"));
    o.classes.push(format!("curve-mode:{}", if pure { "round-trip" } else { "encode-only+hdr-cross" }));
    if samples.iter().any(|v| *v == 0.0) {
        o.classes.push("curve:has-zero-sample".into());
    }
    o.classes.push(format!("curve-len-mod8:{}", samples.len() % 8));
    if describe {
        o.describe = Some(json!({"sub": "curve", "encoding": format!("{enc:?}"), "intensity_target": it, "samples": samples.len(),
            "first": samples.first(), "last": samples.last(), "channels": if same_channels { "r=g=b" } else { "asc/rotated/desc" }}));
    }
    let ctx = format!("encoding={enc:?}, intensity_target={it}, {} samples", samples.len());
    let mut lin = enc.clone();
    lin.tf = TransferFunction::Linear;
    let mut obs = Obs::default();
    let gamma_beyond = matches!(enc.tf, TransferFunction::Gamma { .. }) && power_exponent(&enc.tf).unwrap() > CURVE_GAMMA_MAX_EXPONENT;

    let build = |o: &mut Outcome, from: &EnumColourEncoding, to: &EnumColourEncoding, what: &str| -> Option<ColorTransform> {
        match transform(from, to, it) {
            Ok(t) => Some(t),
            Err(e) => {
                let kind = if e.starts_with("panic") { format!("panic@{}", panic_file(&e["panic: ".len()..])) } else { "error".into() };
                fail(o, format!("curve:transform-{kind}:{tfk}:{what}"), format!("ColorTransform::new failed: {e}; {ctx}"));
                None
            }
        }
    };
    let exec = |o: &mut Outcome, t: &ColorTransform, ch: &mut [Vec<f32>; 3], what: &str| -> bool {
        match run3(t, ch) {
            Ok(n) if n == nch => true,
            Ok(n) => {
                fail(o, format!("curve:channel-count:{tfk}:{what}"), format!("run returned {n} channels, expected {nch}; {ctx}"));
                false
            }
            Err(e) => {
                let kind = if e.starts_with("panic") { format!("panic@{}", panic_file(&e["panic: ".len()..])) } else { "error".into() };
                fail(o, format!("curve:run-{kind}:{}:{tfk}:{what}", if grey { "grey" } else { "rgb" }), format!("ColorTransform::run failed: {e}; {ctx}"));
                false
            }
        }
    };

    let Some(fwd) = build(o, &lin, &enc, "encode") else { return };
    // a conversion between different curves is not the no-op (else "inverts" would hold vacuously)
    let is_identity_curve = power_exponent(&enc.tf).map_or(false, |e| e == 1.0);
    if fwd.is_noop() && !is_identity_curve {
        fail(o, format!("curve:noop-between-different-curves:{tfk}"), format!("ColorTransform::new(linear -> {tfk}) reports is_noop(); {ctx}"));
        return;
    }
    // HLG mixes channels: monotone only along r=g=b
    let (input, sorted) = spread(&samples, rot, same_channels || grey);
    let sorted = if is_hlg && !same_channels { [None, None, None] } else { sorted };
    let mut y = input.clone();
    if !exec(o, &fwd, &mut y, "encode") {
        obs.flush();
        return;
    }
    if !check_finite_monotone(o, &mut obs, &Pass { tf: &tfs, what: "encode", large_exponent: gamma_beyond, intensity_target: it }, &input, &y, nch, sorted, &ctx) {
        obs.flush();
        return;
    }
    if pure {
        let Some(inv) = build(o, &enc, &lin, "decode") else { return };
        let mut x2 = y.clone();
        if !exec(o, &inv, &mut x2, "decode") {
            obs.flush();
            return;
        }
        if !check_finite_monotone(o, &mut obs, &Pass { tf: &tfs, what: "decode", large_exponent: gamma_beyond, intensity_target: it }, &y, &x2, nch, sorted, &ctx) {
            obs.flush();
            return;
        }
        // round trip
        let tol = rt_tolerance(&enc.tf, it);
        let mut worst: Option<(f64, f32, f32, f32)> = None;
        for c in 0..nch {
            for i in 0..samples.len() {
                let x = input[c][i] as f64;
                let err = (x2[c][i] as f64 - x).abs() / x.abs().max(1.0);
                let region = if (0.0..=1.0).contains(&x) {
                    "nominal"
                } else if x > 1.0 {
                    "above-1"
                } else {
                    "negative"
                };
                let key = if gamma_beyond { format!("curve/round-trip-error/{tfk}:exponent{}/{region}", exponent_class(power_exponent(&enc.tf).unwrap())) } else { format!("curve/round-trip-error/{tfk}/{region}") };
                obs.see(key, err);
                // asserted: the nominal range, and (1, 1.5]; negative inputs only for the
                // odd-symmetric / linear-toe curves (pure gamma clamps negatives to 0 by design)
                let asserted = !gamma_beyond
                    && match region {
                        "negative" => matches!(enc.tf, TransferFunction::Srgb | TransferFunction::Bt709 | TransferFunction::Linear),
                        _ => true,
                    };
                if asserted && !(err <= tol) && worst.map_or(true, |w| err > w.0 || err.is_nan()) {
                    worst = Some((err, input[c][i], y[c][i], x2[c][i]));
                }
            }
        }
        if let Some((err, x, e, x2v)) = worst {
            obs.flush();
            let region = if (0.0..=1.0).contains(&x) { "nominal" } else if x > 1.0 { "above-1" } else { "negative" };
            fail(o, format!("curve:round-trip:{tfk}:{region}"), format!("x = {x:e} encodes to {e:e} and decodes to {x2v:e} (error {err:.3e} of max(1,|x|), allowed {tol:.3e}); {ctx}"));
            return;
        }
        // decode-first pass: the decoder on arbitrary sorted encoded values, then the encoder
        // (finite + monotone only: tiny values are clamped by design, so e -> e is not asserted)
        let mut l = input.clone();
        if !exec(o, &inv, &mut l, "decode") {
            obs.flush();
            return;
        }
        if !check_finite_monotone(o, &mut obs, &Pass { tf: &tfs, what: "decode", large_exponent: gamma_beyond, intensity_target: it }, &input, &l, nch, sorted, &ctx) {
            obs.flush();
            return;
        }
        let mut e2 = l.clone();
        if !exec(o, &fwd, &mut e2, "encode") {
            obs.flush();
            return;
        }
        if !check_finite_monotone(o, &mut obs, &Pass { tf: &tfs, what: "encode", large_exponent: gamma_beyond, intensity_target: it }, &l, &e2, nch, sorted, &ctx) {
            obs.flush();
            return;
        }
    }
    // HDR there-and-back (no tone mapping between two HDR encodings, at any intensity target):
    // signal -> other HDR curve -> signal, compared in display-linear light with the
    // reference (f64) decoder as the measuring instrument.
    if hdr && !grey {
        let mut other = enc.clone();
        other.tf = if is_hlg { TransferFunction::Pq } else { TransferFunction::Hlg };
        let Some(a) = build(o, &enc, &other, "to-other-hdr") else { return };
        let Some(b) = build(o, &other, &enc, "from-other-hdr") else { return };
        // keep the linear value within the nominal range of both curves
        let top = if is_hlg { 1.0 } else { cm::pq_encode((it as f64 / 10000.0).min(1.0)) };
        let scaled: Vec<f32> = samples.iter().map(|v| (*v as f64 * top) as f32).collect();
        // along r=g=b: the OOTF couples the channels through luminance, and for saturated
        // pixels of negligible luminance the inverse OOTF magnifies the PQ approximation's
        // near-black error without bound (conditioning, not a curve defect)
        let (input, _) = spread(&scaled, rot, true);
        let mut m = input.clone();
        if !exec(o, &a, &mut m, "to-other-hdr") {
            obs.flush();
            return;
        }
        if !check_finite_monotone(o, &mut obs, &Pass { tf: &tfs, what: "to-other-hdr", large_exponent: false, intensity_target: it }, &input, &m, nch, [None; 3], &ctx) {
            obs.flush();
            return;
        }
        let mut back = m.clone();
        if !exec(o, &b, &mut back, "from-other-hdr") {
            obs.flush();
            return;
        }
        if !check_finite_monotone(o, &mut obs, &Pass { tf: &tfs, what: "from-other-hdr", large_exponent: false, intensity_target: it }, &m, &back, nch, [None; 3], &ctx) {
            obs.flush();
            return;
        }
        // display-linear light (1.0 = intensity target) of a pixel of the signal under test
        let lum = cm::rgb_to_xyz(prim_xy(&enc.primaries), wp_xy(&enc.white_point)).map(|(mtx, _)| mtx[1]).unwrap_or([0.2627, 0.6780, 0.0593]);
        let gamma = cm::hlg_system_gamma(it as f64);
        let display = |px: [f64; 3]| -> [f64; 3] {
            if is_hlg {
                let s = px.map(cm::hlg_inverse_oetf);
                let ys = lum[0] * s[0] + lum[1] * s[1] + lum[2] * s[2];
                let k = if ys > 0.0 { ys.powf(gamma - 1.0) } else { 0.0 };
                s.map(|v| v * k)
            } else {
                px.map(|e| cm::pq_decode(e) * 10000.0 / it as f64)
            }
        };
        // two approximate conversions each way
        let tol = 2.0 * rt_tolerance(&enc.tf, it);
        let mut worst: Option<(f64, [f32; 3], [f32; 3])> = None;
        for i in 0..scaled.len() {
            let pin = [0, 1, 2].map(|c| input[c][i]);
            let pout = [0, 1, 2].map(|c| back[c][i]);
            let (x, y) = (display(pin.map(|v| v as f64)), display(pout.map(|v| v as f64)));
            for c in 0..3 {
                let err = (y[c] - x[c]).abs() / x[c].abs().max(1.0);
                obs.see(format!("curve/hdr-there-and-back-error/{tfk}/it{it}"), err);
                if !(err <= tol) && worst.as_ref().map_or(true, |w| err > w.0) {
                    worst = Some((err, pin, pout));
                }
            }
        }
        if let Some((err, x, b)) = worst {
            obs.flush();
            fail(
                o,
                format!("curve:hdr-there-and-back:{tfk}"),
                format!("{tfk} pixel {x:?} converted to the other HDR curve and back gives {b:?} (error {err:.3e} of max(1,|x|) in display-linear light by the reference decoder, allowed {tol:.3e}); {ctx}"),
            );
            return;
        }
    }
    obs.flush();
}

// ---------------------------------------------------------------------------
// (c) identity conversion.

fn run_identity(src: &mut Src, o: &mut Outcome, describe: bool) {
    o.classes.push("sub:identity".into());
    let enc = match gen_encoding(src, None) {
        Ok(e) => e,
        Err(why) => {
            o.verdict = Verdict::Discard(why.into());
            return;
        }
    };
    let it = src.pick(&[255.0f32, 1000.0, 4000.0, 10000.0]);
    let via_icc = src.chance(64);
    let n = src.range(1, 40) as usize;
    let mut ch: [Vec<f32>; 3] = [vec![], vec![], vec![]];
    for c in ch.iter_mut() {
        for _ in 0..n {
            let v = match src.weighted(&[4, 2, 1]) {
                0 => (src.range(0, 65535) as f32 / 65535.0) * 2.0 - 0.5,
                1 => f32::from_bits(src.u32()), // any bit pattern, incl. NaN payloads, infinities, -0.0, subnormals
                _ => src.pick(&[0.0f32, -0.0, 1.0, f32::MIN_POSITIVE, f32::MAX, f32::INFINITY, f32::NEG_INFINITY, f32::NAN, 1e-45]),
            };
            c.push(v);
        }
    }
    let canon = format!("identity|{enc:?}|{it}|{via_icc}|{:?}", ch.iter().map(|c| c.iter().map(|v| v.to_bits()).collect::<Vec<_>>()).collect::<Vec<_>>());
    o.case_hash = fnv(canon.as_bytes()) | 1;
    o.nontrivial = has_custom(&enc) || enc.tf != TransferFunction::Srgb;
    enc_classes(o, &enc);
    o.classes.push(format!("identity:{}", if via_icc { "both-sides-from-synthesised-icc" } else { "enum" }));
    if describe {
        o.describe = Some(json!({"sub": "identity", "encoding": format!("{enc:?}"), "intensity_target": it, "via_icc": via_icc, "samples_per_channel": n}));
    }
    let e = if via_icc {
        let icc = match catch(|| jxl_color::icc::colour_encoding_to_icc(&enc)) {
            Ok(v) => v,
            Err(_) => {
                o.verdict = Verdict::Discard("identity via ICC: synthesis panicked (sub-check icc covers it)".into());
                return;
            }
        };
        match catch(|| ColorEncodingWithProfile::with_icc(&icc)) {
            Ok(Ok(p)) => p,
            _ => {
                o.verdict = Verdict::Discard("identity via ICC: profile not parsed (sub-check icc covers it)".into());
                return;
            }
        }
    } else {
        ColorEncodingWithProfile::new(enc.clone())
    };
    let oim = <OpsinInverseMatrix as BundleDefault<()>>::default_with_context(());
    let tm = tone_mapping(it);
    let t = match catch(|| ColorTransform::new(&e, &e, &oim, &tm, &NullCms)) {
        Ok(Ok(t)) => t,
        Ok(Err(err)) => {
            fail(o, "identity:transform-error", format!("ColorTransform::new(e, e) failed: {err}; encoding={enc:?}"));
            return;
        }
        Err(p) => {
            fail(o, format!("identity:transform-panic@{}", panic_file(&p)), format!("{p}; encoding={enc:?}"));
            return;
        }
    };
    if !t.is_noop() {
        fail(o, "identity:not-noop", format!("ColorTransform::new(e, e).is_noop() is false: {t:?}; encoding={enc:?}"));
        return;
    }
    let want_ch = if e.is_grayscale() { 1 } else { 3 };
    if t.input_channels() != want_ch || t.output_channels() != want_ch {
        fail(o, "identity:channel-count", format!("input_channels {} output_channels {} expected {want_ch}; encoding={enc:?}", t.input_channels(), t.output_channels()));
        return;
    }
    let before: Vec<Vec<u32>> = ch.iter().map(|c| c.iter().map(|v| v.to_bits()).collect()).collect();
    match run3(&t, &mut ch) {
        Ok(nc) if nc == want_ch => {}
        Ok(nc) => {
            fail(o, "identity:channel-count", format!("run returned {nc}, expected {want_ch}; encoding={enc:?}"));
            return;
        }
        Err(err) => {
            fail(o, "identity:run-failed", format!("{err}; encoding={enc:?}"));
            return;
        }
    }
    let after: Vec<Vec<u32>> = ch.iter().map(|c| c.iter().map(|v| v.to_bits()).collect()).collect();
    if before != after {
        fail(o, "identity:changed-samples", format!("no-op transform changed the buffers; encoding={enc:?}"));
    }
}

// ---------------------------------------------------------------------------

fn fixed_encoding(i: u8) -> EnumColourEncoding {
    let rel = RenderingIntent::Relative;
    match i {
        0 => EnumColourEncoding::srgb(RenderingIntent::Perceptual),
        1 => EnumColourEncoding::dci_p3(rel),
        2 => EnumColourEncoding::bt2100_pq(RenderingIntent::Absolute),
        3 => EnumColourEncoding::bt2100_hlg(RenderingIntent::Saturation),
        4 => EnumColourEncoding::gray_gamma22(rel),
        5 => EnumColourEncoding { tf: TransferFunction::Gamma { g: 4545455, inverted: true }, ..EnumColourEncoding::srgb(rel) },
        // smallest gamma field libjxl accepts: decoding exponent 8190.0
        6 => EnumColourEncoding { tf: TransferFunction::Gamma { g: G_MIN, inverted: true }, ..EnumColourEncoding::srgb(rel) },
        // Adobe RGB (1998) style custom primaries, D65, gamma 563/256
        7 => EnumColourEncoding {
            primaries: custom_primaries([(640000, 330000), (210000, 710000), (150000, 60000)]),
            tf: TransferFunction::Gamma { g: 4547069, inverted: true },
            ..EnumColourEncoding::srgb(rel)
        },
        // ProPhoto-like: D50 custom white point, wide primaries
        8 => EnumColourEncoding {
            white_point: WhitePoint::Custom(Customxy { x: 345700, y: 358500 }),
            primaries: custom_primaries([(734700, 265300), (159600, 840400), (36600, 100)]),
            tf: TransferFunction::Gamma { g: 5555556, inverted: true },
            ..EnumColourEncoding::srgb(rel)
        },
        9 => EnumColourEncoding { colour_space: ColourSpace::Grey, tf: TransferFunction::Hlg, ..EnumColourEncoding::srgb(rel) },
        // custom white point 1.36e-4 away from D65 (comes back as D65)
        10 => EnumColourEncoding { white_point: WhitePoint::Custom(Customxy { x: 312564, y: 328884 }), ..EnumColourEncoding::srgb(rel) },
        // gamma 1/10 (decoding exponent 10)
        _ => EnumColourEncoding { tf: TransferFunction::Gamma { g: 1_000_000, inverted: true }, ..EnumColourEncoding::srgb(rel) },
    }
}

/// Hand-made curve cases: (encoding, intensity target, samples).
fn fixed_curve(i: u8) -> (EnumColourEncoding, f32, Vec<f32>) {
    let rel = RenderingIntent::Relative;
    let with_black: Vec<f32> = (0..=64).map(|i| i as f32 / 64.0).collect();
    let no_black: Vec<f32> = with_black[1..].to_vec();
    match i {
        0 => (EnumColourEncoding::srgb(rel), 255.0, with_black),
        1 => (EnumColourEncoding::bt2100_pq(rel), 255.0, no_black),
        2 => (EnumColourEncoding::bt2100_pq(rel), 10000.0, no_black),
        3 => (EnumColourEncoding::bt2100_hlg(rel), 1000.0, no_black),
        4 => (EnumColourEncoding::bt2100_hlg(rel), 255.0, no_black),
        5 => (EnumColourEncoding::bt709(rel), 255.0, with_black),
        // regressions for recorded findings
        6 => (EnumColourEncoding::bt2100_hlg(rel), 1000.0, with_black), // black pixel, inverse OOTF
        7 => (EnumColourEncoding::bt2100_hlg(rel), 255.0, with_black),  // black pixel, OOTF
        8 => (fixed_encoding(9), 255.0, no_black),                      // gray HLG
        _ => (fixed_encoding(11), 255.0, no_black.iter().map(|v| v * 1e-3).collect()), // exponent 10, underflowing decode
    }
}

impl Check for C19 {
    fn id(&self) -> &'static str {
        "C19"
    }
    fn plan(&self, tier: Tier) -> Plan {
        Plan { cases: if tier == Tier::Quick { 1_000_000 } else { 20_000_000 }, max_len: 512 }
    }
    fn rule(&self) -> String {
        format!(
            "choice sequence -> sub-check (weights 5:4:1). \
(a) icc: EnumColourEncoding{{Rgb|Grey; white point D65/E/DCI/custom; primaries sRGB/BT.2100/P3/custom; tf gamma (inverted field {G_MIN}..=1e7, non-inverted 1e7..=u32::MAX)/BT.709/linear/sRGB/PQ/DCI/HLG; 4 intents}} naming a real colour space by construction (custom white x,y>0, x+y<1 with Bradford cone responses within {WHITE_CONE_RATIO_MAX}x of D50's; primaries inside x>=0, y>=0.001, x+y<=1, |area|>=1e-3, white point strictly inside their triangle) -> colour_encoding_to_icc -> ColorEncodingWithProfile::with_icc must be Ok and an enum encoding with the same colour space and intent, white point and primaries within {TOL_XY:e} in xy of the described values (named values per the standards; named<->custom accepted), tf equal (pure powers incl. linear and DCI compared by decoding exponent within {TOL_GAMMA_REL:e} relative). \
(b) curve: ColorTransform::new(linear->tf) and (tf->linear) with NullCms on identical primaries/white point/intent, run on three planar buffers like the renderer (ascending / rotated / descending copies, or r=g=b); sorted samples (dense grids, random, curve breakpoints and their neighbours) in [-0.5,1.5] (sRGB/BT.709/gamma/DCI/linear) or [0,1] (PQ/HLG, gamma exponent > {CURVE_GAMMA_MAX_EXPONENT}): outputs finite; each direction non-decreasing along strictly ordered inputs up to {MONO_SLACK:e}*max(1,|out|) (plus the analytic BT.709 published-constant gap for its decoder and {PQ_DECODE_STEP_BACK:e}*10000/intensity_target for the PQ decoder); |x'-x| <= tol*max(1,|x|) on [0,1] and (1,1.5] (negative inputs only for sRGB/BT.709/linear; pure gamma clamps them to 0 by design) with tol = {TOL_RT:e} (BT.709, gamma <= {CURVE_GAMMA_MAX_EXPONENT}, DCI, linear), {TOL_RT:e}*max(1,255/intensity_target) (PQ, HLG), {TOL_RT_SRGB:e} (sRGB) for intensity targets <= 255; PQ/HLG at 1000/4000/10000: encode direction finite+monotone; all targets, RGB, along r=g=b: PQ<->HLG there-and-back within 2*tol measured in display-linear light with the f64 reference decoder. \
(c) identity: ColorTransform::new(e,e) (enum, or both sides parsed from the synthesised ICC) is_noop, channel counts unchanged, buffers of arbitrary bit patterns bit-identical after run. \
Non-trivial: (a),(c) custom chromaticity or gamma present; (b) some |x|>1e-3. Distinct by FNV of the canonical case text."
        )
    }
    fn assumptions(&self) -> Vec<String> {
        vec![
            format!("gamma field restricted to {G_MIN}..=10000000 of 1..=16777215 (decoding exponent 1..8192): the 1220 values below (exponent > 8192: rejected by libjxl; below 306 not representable as an ICC s15Fixed16 gamma) and the 6777215 values above 1e7 (encoding exponent > 1: TransferFunction::Gamma documents g <= 10_000_000 when inverted, libjxl rejects them) are not generated, i.e. 40.4% of the raw field range"),
            format!("custom white points whose Bradford cone responses are not within {WHITE_CONE_RATIO_MAX}x of D50's are discarded and counted (ICC v4 requires a linear-Bradford chad to D50; it degenerates where a cone response approaches 0; the kept range contains every CIE standard illuminant and every black body above about 2400 K)"),
            format!("colour descriptions whose white point / primaries the ICC format itself cannot carry to {MAX_FORMAT_RESOLUTION:e} (sum over the s15Fixed16 chad/colorant/wtpt numbers of the xy shift caused by half a unit each, computed by the independent f64 model jxlref::colour_model::icc_matrix_resolution) are discarded and counted: the nine named white point x primaries combinations need up to 3.73e-5, so the domain is every description the format carries at least about as finely as the named ones"),
            "XYB and Unknown colour spaces and the Unknown transfer function are outside the property's domain (todo!/panic! arms in icc/synthesize.rs are not exercised)".into(),
            "transfer-curve inversion is observable through the public API only for intensity_target <= 255: above that ColorTransform inserts Rec.2408 tone mapping towards any non-HDR target (linear included) by design; PQ/HLG at higher targets are covered in the encode direction and by PQ<->HLG there-and-back; intensity targets 295..305 are not generated (the HLG inverse OOTF is documented to be skipped there while the forward one is not)".into(),
            format!("tolerances: 1e-4 is the property's; the sRGB pair gets {TOL_RT_SRGB:e} because linear_to_srgb is the 8-bit-grade fast approximation ported from libjxl (1.657e-4 off the IEC formula at 1.0; observed worst round trip 3.771e-4 at x = 1.0 over a 1e6-point scan); PQ/HLG scale with 255/intensity_target below 255 because the PQ EOTF approximation is off by a fixed 6.24e-7 of 10000 cd/m2 near black (observed 6.24e-5 at 100, 3.08e-5 at 203, 2.45e-5 at 255); absolute accuracy against the reference curves is NOT asserted (the property only asks for inversion and monotonicity)"),
            format!("pure gamma curves with decoding exponent above {CURVE_GAMMA_MAX_EXPONENT} are checked for finiteness and monotonicity on [0,1] only, under one merged signature: f32 samples and the documented fast powf approximation amplify the round-trip error in proportion to the exponent"),
            "HLG is treated as the three-channel function it is (OOTF on luminance): monotonicity is asserted along r=g=b; exactly black pixels are generated in a quarter of the curve cases and are a signature class of their own".into(),
            "sub-check (c) of the design also asks for request_color_encoding(header encoding) + render to be bit-identical to the default render; that needs the C03/C05 image writers and is not built here".into(),
        ]
    }
    fn extra_coverage(&self) -> Vec<(String, Value)> {
        let m = OBSERVED.lock().unwrap();
        let mut obj = serde_json::Map::new();
        for (k, v) in m.iter() {
            obj.insert(k.clone(), json!(format!("{v:.3e}")));
        }
        vec![
            ("observed_maxima".into(), Value::Object(obj)),
            ("frozen_tolerances".into(), json!({"xy": TOL_XY, "gamma_relative": TOL_GAMMA_REL, "round_trip": TOL_RT, "round_trip_srgb": TOL_RT_SRGB, "round_trip_pq_hlg": "1e-4*max(1,255/intensity_target)", "hdr_there_and_back": "2x round trip", "monotone_slack_relative": MONO_SLACK, "pq_decode_step_back_of_10000_nits": PQ_DECODE_STEP_BACK, "bt709_decode_published_gap": bt709_published_gap(), "max_format_resolution": MAX_FORMAT_RESOLUTION, "white_cone_ratio_max": WHITE_CONE_RATIO_MAX, "curve_gamma_max_exponent": CURVE_GAMMA_MAX_EXPONENT})),
        ]
    }
    fn fixed_cases(&self) -> Vec<(String, Vec<u8>)> {
        let mut v = vec![];
        for i in 0..11u8 {
            v.push((format!("fixed-icc-{i}"), vec![0xff, b'I', i]));
        }
        for i in 0..10u8 {
            v.push((format!("fixed-curve-{i}"), vec![0xff, b'C', i]));
        }
        v
    }
    fn run(&self, choice: &[u8], describe: bool) -> Outcome {
        let mut o = Outcome::pass();
        if choice.len() >= 3 && choice[0] == 0xff && (choice[1] == b'I' || choice[1] == b'C') {
            let mut src = Src::new(&[]);
            if choice[1] == b'I' {
                run_icc(&mut src, &mut o, describe, Some(fixed_encoding(choice[2])));
            } else {
                run_curve(&mut src, &mut o, describe, Some(fixed_curve(choice[2])));
            }
            o.classes.push("fixed".into());
            return o;
        }
        let mut src = Src::new(choice);
        match src.weighted(&[5, 4, 1]) {
            0 => run_icc(&mut src, &mut o, describe, None),
            1 => run_curve(&mut src, &mut o, describe, None),
            _ => run_identity(&mut src, &mut o, describe),
        }
        o
    }
}
