//! VSMOKE — acceptance test of the reference VarDCT writer (helper check, not
//! one of the properties): every generated VarDCT codestream must be accepted
//! and rendered by jxl-oxide, with the right dimensions, finite samples, and
//! identical samples when rendered twice.

use crate::engine::{Check, Outcome, Plan, Tier, Verdict};
use crate::util::*;
use jxlref::gen::vardct::*;
use jxlref::src::Src;
use serde_json::json;

pub struct VSmoke;

pub fn describe_vardct_case(c: &VarDctCase) -> serde_json::Value {
    json!({"size": [c.ih.width, c.ih.height], "bit_depth": format!("{:?}", c.ih.bit_depth), "xyb": c.ih.xyb_encoded, "extra_channels": c.ih.ec_info.iter().map(|e| e.dim_shift).collect::<Vec<_>>(),
        "passes": c.fh.passes.num_passes, "upsampling": c.fh.upsampling, "groups": c.num_groups, "lf_groups": c.num_lf_groups, "classes": c.classes, "bytes": c.bytes.len(),
        "structure": if std::env::var("VERIF_DEBUG").is_ok() { c.debug.clone() } else { String::new() }})
}

fn dump(case: &VarDctCase) {
    if let Ok(dir) = std::env::var("VERIF_VDCT_DUMP") {
        let _ = std::fs::create_dir_all(&dir);
        let name = format!("{dir}/{:016x}.jxl", crate::engine::fnv(&case.bytes));
        let _ = std::fs::write(name, &case.bytes);
    }
}

/// Parses the frame's sections through the decoder's own section readers and
/// compares what they deliver with the generated frame content: quantiser,
/// block-context model, CfL parameters, quantised LF image, CfL maps, varblock
/// layout and multipliers, and - per varblock and channel - the decoded HF
/// coefficients (as a sum over the varblock's area, and for single-pass frames
/// as the multiset of non-zero values; coefficient *positions* are not compared,
/// they depend on the decoder's internal buffer conventions).
fn readback(case: &VarDctCase, image: &jxl_oxide::JxlImage) -> Result<(), (String, String)> {
    use jxl_frame::data::{decode_pass_group, PassGroupParams, PassGroupParamsVardct};
    use jxl_vardct::BlockInfo;
    use jxlref::bits::f16_to_f32;
    use jxlref::vardct::*;
    let f = &case.frame;
    let err = |what: &str, detail: String| (format!("readback-{what}"), detail);
    let frame = image.frame(case.main_frame).ok_or_else(|| err("no-frame", String::new()))?;
    let use_lf_frame = case.fh.use_lf_frame();
    let lf_global = frame.try_parse_lf_global::<i32>().ok_or_else(|| err("lf-global-missing", String::new()))?.map_err(|e| err("lf-global", e.to_string()))?;
    let v = lf_global.vardct.as_ref().ok_or_else(|| err("not-vardct", String::new()))?;
    if (v.quantizer.global_scale, v.quantizer.quant_lf) != (f.global_scale, f.quant_lf) {
        return Err(err("quantizer", format!("{:?} vs ({}, {})", v.quantizer, f.global_scale, f.quant_lf)));
    }
    let m = match f.lf_dequant {
        None => [1.0 / 32.0, 0.25, 0.5],
        Some(b) => [f16_to_f32(b[0]), f16_to_f32(b[1]), f16_to_f32(b[2])],
    };
    if [lf_global.lf_dequant.m_x_lf, lf_global.lf_dequant.m_y_lf, lf_global.lf_dequant.m_b_lf] != m {
        return Err(err("lf-dequant", format!("{:?} vs {:?}", lf_global.lf_dequant, m)));
    }
    if v.hf_block_ctx.block_ctx_map != f.block_ctx.map() || v.hf_block_ctx.num_block_clusters as usize != f.block_ctx.num_clusters() {
        return Err(err("block-ctx-map", format!("{:?} vs {:?}", v.hf_block_ctx.block_ctx_map, f.block_ctx.map())));
    }
    if let BlockCtxSpec::Custom { lf_thr, qf_thr, .. } = &f.block_ctx {
        if v.hf_block_ctx.lf_thresholds != *lf_thr || v.hf_block_ctx.qf_thresholds != *qf_thr {
            return Err(err("block-ctx-thresholds", format!("{:?} {:?} vs {:?} {:?}", v.hf_block_ctx.lf_thresholds, v.hf_block_ctx.qf_thresholds, lf_thr, qf_thr)));
        }
    }
    let c = &v.lf_chan_corr;
    let exp = match &f.lf_corr {
        None => (84, 0.0, 1.0, 128, 128),
        Some(s) => (s.colour_factor, f16_to_f32(s.base_correlation_x), f16_to_f32(s.base_correlation_b), s.x_factor_lf as u32, s.b_factor_lf as u32),
    };
    if (c.colour_factor, c.base_correlation_x, c.base_correlation_b, c.x_factor_lf, c.b_factor_lf) != exp {
        return Err(err("lf-chan-corr", format!("{c:?} vs {exp:?}")));
    }
    let grid_eq = |g: &jxl_grid::AlignedGrid<i32>, ch: &jxlref::modular::predict::Chan| -> bool { (g.width(), g.height()) == (ch.w, ch.h) && (0..ch.h).all(|y| g.get_row(y)[..ch.w] == ch.data[y * ch.w..(y + 1) * ch.w]) };
    let mut lf_groups = vec![];
    for (lg, spec) in f.lf_groups.iter().enumerate() {
        let g = frame
            .try_parse_lf_group::<i32>(Some(v), lf_global.gmodular.ma_config(), None, lg as u32)
            .ok_or_else(|| err("lf-group-missing", format!("lf group {lg}")))?
            .map_err(|e| err("lf-group", format!("lf group {lg}: {e}")))?;
        if use_lf_frame {
            // the LF comes from the LF frame: the LF group carries no coefficients
            if g.lf_coeff.is_some() {
                return Err(err("lf-coeff-present", format!("lf group {lg} of a frame with use_lf_frame")));
            }
        } else {
            let lc = g.lf_coeff.as_ref().ok_or_else(|| err("lf-coeff-missing", String::new()))?;
            if lc.extra_precision as u32 != spec.extra_precision {
                return Err(err("extra-precision", format!("{} vs {}", lc.extra_precision, spec.extra_precision)));
            }
            let chans = lc.lf_quant.image().ok_or_else(|| err("lf-image-missing", String::new()))?.image_channels();
            for k in 0..3 {
                if !grid_eq(&chans[k], &spec.lf[k]) {
                    return Err(err("lf-quant", format!("lf group {lg} coded channel {k} differs")));
                }
            }
        }
        let hm = g.hf_meta.as_ref().ok_or_else(|| err("hf-meta-missing", String::new()))?;
        if !grid_eq(&hm.x_from_y, &spec.x_from_y) || !grid_eq(&hm.b_from_y, &spec.b_from_y) {
            return Err(err("cfl-map", format!("lf group {lg}")));
        }
        if (hm.block_info.width(), hm.block_info.height()) != (spec.bw, spec.bh) {
            return Err(err("block-grid-size", format!("{}x{} vs {}x{}", hm.block_info.width(), hm.block_info.height(), spec.bw, spec.bh)));
        }
        let mut n_data = 0;
        for y in 0..spec.bh {
            for x in 0..spec.bw {
                if let BlockInfo::Data { dct_select, hf_mul } = hm.block_info.get(x, y) {
                    let b = spec.blocks.get(n_data).ok_or_else(|| err("block-count", format!("lf group {lg}")))?;
                    if (b.bx, b.by, b.ty, b.hf_mul as i32) != (x, y, dct_select as u8, hf_mul) {
                        return Err(err("block-info", format!("lf group {lg} block {n_data}: ({x}, {y}, {dct_select:?}, {hf_mul}) vs {b:?}")));
                    }
                    n_data += 1;
                }
            }
        }
        if n_data != spec.blocks.len() {
            return Err(err("block-count", format!("lf group {lg}: {n_data} vs {}", spec.blocks.len())));
        }
        lf_groups.push(g);
    }
    let hf_global = frame.try_parse_hf_global(Some(&lf_global)).ok_or_else(|| err("hf-global-missing", String::new()))?.map_err(|e| err("hf-global", e.to_string()))?;
    if hf_global.num_hf_presets as usize != f.num_hf_presets || hf_global.hf_passes.len() != f.passes.len() {
        return Err(err("hf-global-counts", format!("{} presets, {} passes", hf_global.num_hf_presets, hf_global.hf_passes.len())));
    }
    let pool = jxl_threadpool::JxlThreadPool::none();
    let num_passes = f.passes.len();
    for g in 0..f.num_groups() {
        let (lg, ox, oy) = f.group_place(g);
        let mut bufs: Vec<jxl_grid::AlignedGrid<i32>> = (0..3)
            .map(|c| {
                let (hs, vs) = f.shifts(c);
                jxl_grid::AlignedGrid::with_alloc_tracker(GROUP_DIM >> hs, GROUP_DIM >> vs, None).unwrap()
            })
            .collect();
        for p in 0..num_passes {
            let pb = frame.pass_group_bitstream(p as u32, g as u32).ok_or_else(|| err("pass-group-missing", format!("pass {p} group {g}")))?.map_err(|e| err("pass-group-bitstream", e.to_string()))?;
            let mut bitstream = pb.bitstream;
            let [b0, b1, b2] = &mut bufs[..] else { unreachable!() };
            let mut out = [b0.as_subgrid_mut(), b1.as_subgrid_mut(), b2.as_subgrid_mut()];
            decode_pass_group::<i32>(
                &mut bitstream,
                PassGroupParams {
                    frame_header: frame.header(),
                    lf_group: &lf_groups[lg],
                    pass_idx: p as u32,
                    group_idx: g as u32,
                    global_ma_config: lf_global.gmodular.ma_config(),
                    modular: None,
                    vardct: Some(PassGroupParamsVardct { lf_vardct: v, hf_global: &hf_global, hf_coeff_output: &mut out }),
                    allow_partial: false,
                    tracker: None,
                    pool: &pool,
                },
            )
            .map_err(|e| err("pass-group", format!("pass {p} group {g}: {e}")))?;
        }
        let idxs = f.group_block_indices(g);
        for (k, &bi) in idxs.iter().enumerate() {
            let b = &f.lf_groups[lg].blocks[bi];
            let (dw, dh) = TRANSFORM_BLOCKS[b.ty as usize];
            for c in 0..3 {
                let (hs, vs) = f.shifts(c);
                let (x, y) = (b.bx - ox, b.by - oy);
                if ((x >> hs) << hs, (y >> vs) << vs) != (x, y) {
                    continue;
                }
                let (left, top) = ((x >> hs) * 8, (y >> vs) * 8);
                let mut got: Vec<i64> = vec![];
                for yy in top..top + dh * 8 {
                    got.extend(bufs[c].get_row(yy)[left..left + dw * 8].iter().filter(|&&v| v != 0).map(|&v| v as i64));
                }
                let mut want: Vec<i64> = vec![];
                for (p, pass) in f.passes.iter().enumerate() {
                    let shift = case.fh.passes.shift.get(p).copied().unwrap_or(0);
                    want.extend(pass.groups[g].blocks[k][c].iter().map(|&(_, v)| (v as i64) << shift));
                }
                let (sg, sw): (i64, i64) = (got.iter().sum(), want.iter().sum());
                if sg != sw {
                    return Err(err("coeff-sum", format!("group {g} block {k} ({}) channel {c}: sum {sg} vs {sw}", TRANSFORM_NAMES[b.ty as usize])));
                }
                if num_passes == 1 {
                    got.sort();
                    want.sort();
                    if got != want {
                        return Err(err("coeff-values", format!("group {g} block {k} ({}) channel {c}: {} vs {} non-zeros", TRANSFORM_NAMES[b.ty as usize], got.len(), want.len())));
                    }
                }
            }
        }
    }
    Ok(())
}

impl Check for VSmoke {
    fn id(&self) -> &'static str {
        "VSMOKE"
    }
    fn plan(&self, tier: Tier) -> Plan {
        Plan { cases: if tier == Tier::Quick { 3000 } else { 60_000 }, max_len: 4096 }
    }
    fn rule(&self) -> String {
        "choice sequence -> VarDCT codestream (one keyframe) written by the independent reference writer (all 27 transform types in legal tilings, hf_mul, sparse/dense quantised coefficients, generated LF image / CfL maps / sharpness, default and custom HfBlockContext / LfChannelCorrelation / LfChannelDequantization / dequantisation-matrix encodings / coefficient orders, 1..4 passes, XYB / stored RGB / YCbCr 4:4:4, Gaborish and EPF variants, extra channels, upsampling, several groups and LF groups, permuted TOC; noise parameters, spline dictionaries, patch dictionaries fed by a ReferenceOnly frame (Modular or VarDCT) written in front, LF taken from one or two levels of LF frames (Modular or VarDCT) written in front) -> jxl-oxide. Helper check: the stream is accepted, frame 0 renders, every plane has the image size, every sample is finite, and a second render gives bit-identical samples.".into()
    }
    fn assumptions(&self) -> Vec<String> {
        vec!["RAW dequantisation matrices only for square matrix shapes (orientation of the coded image for rectangular shapes not established)".into(), "chroma-subsampled frames use DCT8 only and skip adaptive LF smoothing".into()]
    }
    fn run(&self, choice: &[u8], describe: bool) -> Outcome {
        let mut src = Src::new(choice);
        let mut opts = VarDctGenOpts::default();
        // debugging aid: VERIF_VDCT_OPTS=dct8,noec,... switches generator features off
        if let Ok(s) = std::env::var("VERIF_VDCT_OPTS") {
            for t in s.split(',') {
                match t {
                    "dct8" => opts.dct8_only = true,
                    "noec" => opts.allow_ec = false,
                    "nopasses" => opts.allow_passes = false,
                    "xyb" => opts.allow_non_xyb = false,
                    "nodequant" => opts.allow_custom_dequant = false,
                    "noups" => opts.allow_upsampling = false,
                    "noperm" => opts.allow_permuted_toc = false,
                    "nosubtx" => opts.allow_modular_transforms = false,
                    "noorders" => opts.allow_custom_orders = false,
                    "nolz" => opts.allow_hf_lz77 = false,
                    "nosub" => opts.allow_subsampling = false,
                    "nonoise" => opts.noise = 0,
                    "nosplines" => opts.splines = 0,
                    "nopatches" => opts.patches = 0,
                    "nolf" => opts.lf_frames = 0,
                    "noise" => opts.noise = 256,
                    "splines" => opts.splines = 256,
                    "patches" => opts.patches = 256,
                    "lf" => opts.lf_frames = 256,
                    "lf2" => {
                        opts.lf_frames = 256;
                        opts.lf_two_levels = 256;
                    }
                    "small" => {
                        opts.boundary = 0;
                        opts.big_square = 0;
                        opts.multi_lf_group = 0;
                    }
                    _ => {}
                }
            }
        }
        let threads = if src.chance(64) { 3 } else { 0 };
        let case = gen_vardct_case(&mut src, &opts);
        let mut o = Outcome::pass();
        o.nontrivial = true;
        o.case_hash = crate::engine::fnv(&case.bytes) | 1;
        o.classes = case.classes.clone();
        o.classes.push(format!("threads:{threads}"));
        if describe {
            o.describe = Some(describe_vardct_case(&case));
        }
        let fail = |o: &mut Outcome, sig: String, detail: String| {
            dump(&case);
            o.verdict = Verdict::Fail { sig, detail: format!("{detail}; {}", describe_vardct_case(&case)) };
        };
        let image = match open(&case.bytes, &DecodeOpts { threads, force_wide: false }) {
            Ok(i) => i,
            Err(e) => {
                fail(&mut o, format!("decode-rejected: {}", crate::checks::short(&e)), e);
                return o;
            }
        };
        if image.num_loaded_keyframes() != 1 {
            fail(&mut o, "keyframe-count".into(), format!("{} keyframes", image.num_loaded_keyframes()));
            return o;
        }
        let mut first: Option<Vec<(usize, usize, Vec<u32>)>> = None;
        for round in 0..2 {
            let render = match image.render_frame(0) {
                Ok(r) => r,
                Err(e) => {
                    fail(&mut o, format!("render-rejected: {}", crate::checks::short(&e.to_string())), format!("round {round}: {e}"));
                    return o;
                }
            };
            let planes: Vec<(usize, usize, Vec<f32>)> = render.image_planar().iter().map(|p| (p.width(), p.height(), p.buf().to_vec())).collect();
            let expect_colour = if case.ih.colour_encoding.is_gray() { 1 } else { 3 };
            if planes.len() != expect_colour + case.ih.ec_info.len() {
                fail(&mut o, "channel-count".into(), format!("{} planes, expected {} + {}", planes.len(), expect_colour, case.ih.ec_info.len()));
                return o;
            }
            for (i, (w, h, v)) in planes.iter().enumerate() {
                if (*w, *h) != (case.ih.width as usize, case.ih.height as usize) {
                    fail(&mut o, "dims".into(), format!("plane {i}: {w}x{h}, image {}x{}", case.ih.width, case.ih.height));
                    return o;
                }
                if let Some(p) = v.iter().position(|x| !x.is_finite()) {
                    fail(&mut o, "non-finite-sample".into(), format!("plane {i} at ({}, {}): {}", p % w, p / w, v[p]));
                    return o;
                }
            }
            let bits: Vec<(usize, usize, Vec<u32>)> = planes.iter().map(|(w, h, v)| (*w, *h, v.iter().map(|x| x.to_bits()).collect())).collect();
            match &first {
                None => first = Some(bits),
                Some(f) => {
                    if *f != bits {
                        fail(&mut o, "render-not-repeatable".into(), "second render differs from the first".into());
                        return o;
                    }
                }
            }
        }
        // (d) the decoder's section readers deliver exactly the generated content
        if case.ih.ec_info.is_empty() {
            o.classes.push("readback:done".into());
            if let Err((sig, detail)) = readback(&case, &image) {
                fail(&mut o, sig, detail);
            }
        } else {
            o.classes.push("readback:skipped(extra channels)".into());
        }
        o
    }
}
