//! C01 — decoding untrusted bytes is total: every public call returns Ok/Err/a
//! value in bounded time; no panic (overflow / debug-assert panics included: this
//! check is built with the `checked` profile), no abort, no hang.
//!
//! A case = (bytes, chunking, call program).  Cases run in worker processes with a
//! deadline; a panic, an abnormal worker exit or a confirmed deadline overrun is a
//! verdict.  Known panic signatures (known_findings.json) are tolerated inside a
//! case so that the search continues behind them, and counted.

use crate::engine::{Check, Outcome, Plan, Tier, Verdict};
use jxl_oxide::color::{ColourSpace, EnumColourEncoding, RenderingIntent, TransferFunction};
use jxl_oxide::{AllocTracker, CropInfo, InitializeResult, JxlImage, JxlThreadPool};
use jxlref::gen::jpeg::{gen_jpeg_case, JpegGenOpts};
use jxlref::gen::stream::*;
use jxlref::src::Src;
use serde_json::json;
use std::sync::OnceLock;

pub struct C01;

const ALLOC_LIMIT: usize = 128 * 1024 * 1024;
const DIMENSION_LIMIT: u32 = 65536;

fn seed_files() -> &'static Vec<(String, Vec<u8>)> {
    static FILES: OnceLock<Vec<(String, Vec<u8>)>> = OnceLock::new();
    FILES.get_or_init(|| {
        let mut v = vec![];
        let mut dirs = vec![std::path::PathBuf::from("/repo/crates/jxl-oxide-tests/tests/fuzz_findings"), crate::engine::verif_root().join("corpus/c01-seeds")];
        dirs.push(std::path::PathBuf::from("/repo/crates/jxl-oxide-tests/tests"));
        for d in dirs {
            let Ok(rd) = std::fs::read_dir(&d) else { continue };
            let mut paths: Vec<_> = rd.filter_map(|e| e.ok()).map(|e| e.path()).filter(|p| p.extension().map(|e| e == "fuzz" || e == "jxl").unwrap_or(false)).collect();
            paths.sort();
            for p in paths {
                if let Ok(b) = std::fs::read(&p) {
                    if b.len() <= 1 << 20 {
                        v.push((p.file_name().unwrap().to_string_lossy().to_string(), b));
                    }
                }
            }
        }
        v
    })
}

fn colour_menu(i: usize) -> EnumColourEncoding {
    let rel = RenderingIntent::Relative;
    match i % 8 {
        0 => EnumColourEncoding::srgb(RenderingIntent::Perceptual),
        1 => EnumColourEncoding::dci_p3(rel),
        2 => EnumColourEncoding::bt2100_pq(RenderingIntent::Absolute),
        3 => EnumColourEncoding::bt2100_hlg(RenderingIntent::Saturation),
        4 => EnumColourEncoding::gray_gamma22(rel),
        5 => EnumColourEncoding::srgb_linear(rel),
        6 => EnumColourEncoding { colour_space: ColourSpace::Grey, tf: TransferFunction::Hlg, ..EnumColourEncoding::srgb(rel) },
        _ => EnumColourEncoding { tf: TransferFunction::Gamma { g: 4545455, inverted: true }, ..EnumColourEncoding::srgb(rel) },
    }
}

#[derive(Debug, Clone)]
enum Op {
    Feed(usize),
    Finalize,
    Render(usize),
    RenderLoading,
    Region(u32, u32, u32, u32),
    Colour(usize),
    RequestIcc(usize, usize),
    Meta,
    Jpeg,
    SpotColour(bool),
}

struct Stats {
    initialised: bool,
    renders_ok: usize,
    renders_err: usize,
    stage: &'static str,
    kinds: Vec<&'static str>,
}

fn touch_render(r: &jxl_oxide::Render, budget: &mut usize) {
    let _ = (r.keyframe_index(), r.name().len(), r.duration(), r.orientation());
    let all = r.image_all_channels();
    let _ = (all.width(), all.height(), all.channels(), all.buf().len());
    let planar = r.image_planar();
    let _ = planar.len();
    for no_alpha in [false, true] {
        let mut s = if no_alpha { r.stream_no_alpha() } else { r.stream() };
        let total = s.width() as usize * s.height() as usize * s.channels() as usize;
        if total == 0 || total > *budget {
            continue;
        }
        *budget -= total;
        let mut f = vec![0f32; total];
        let _ = s.write_to_buffer(&mut f);
        let mut s = if no_alpha { r.stream_no_alpha() } else { r.stream() };
        let mut b = vec![0u16; total.min(4096)];
        let _ = s.write_to_buffer(&mut b);
        let mut s = if no_alpha { r.stream_no_alpha() } else { r.stream() };
        let mut b = vec![0u8; total];
        let _ = s.write_to_buffer(&mut b);
    }
    let _ = r.color_channels().len();
    let (ec, bufs) = r.extra_channels();
    for e in ec {
        let _ = (e.ty(), e.name().len(), e.is_alpha(), e.is_black(), e.is_spot_colour());
    }
    let _ = bufs.len();
}

fn meta_calls(image: &JxlImage) {
    let h = image.image_header();
    let _ = format!("{:?}", h.metadata.bit_depth);
    let _ = (image.width(), image.height(), image.original_icc().map(|x| x.len()));
    let _ = image.rendered_icc().len();
    let _ = image.rendered_cicp();
    let pf = image.pixel_format();
    let _ = (pf.channels(), pf.is_grayscale(), pf.has_alpha(), pf.has_black());
    let _ = image.hdr_type();
    let _ = image.render_spot_color();
    let nf = image.num_loaded_frames();
    let nk = image.num_loaded_keyframes();
    let _ = image.is_loading_done();
    for i in 0..(nf + 2) {
        let _ = image.frame(i).map(|f| f.header().width);
        let _ = image.frame_offset(i);
    }
    for k in 0..(nk + 2) {
        let _ = image.frame_by_keyframe(k).map(|f| f.index());
        let _ = image.frame_header(k).map(|f| f.duration);
    }
    let ab = image.aux_boxes();
    if let Ok(e) = ab.first_exif() {
        let _ = e.map(|x| (x.tiff_header_offset(), x.payload().len()));
    }
    let _ = ab.first_xml().map(|x| x.len());
    let _ = image.current_image_region();
    let _ = image.reader().kind();
}

/// Runs a program on `bytes`; never panics itself (library panics propagate to the engine).
fn run_program(bytes: &[u8], ops: &[Op], threads: usize, force_wide: bool, use_read: bool, stats: &mut Stats) {
    let pool = if threads == 0 { JxlThreadPool::none() } else { JxlThreadPool::rayon(Some(threads)) };
    let builder = || JxlImage::builder().pool(pool.clone()).alloc_tracker(AllocTracker::with_limit(ALLOC_LIMIT)).force_wide_buffers(force_wide);
    let mut image: Option<JxlImage> = None;
    let mut uninit = None;
    let mut pending: Vec<u8> = vec![];
    let mut fed = 0usize;
    let mut dead = false; // an error from feed/init ends feeding (as a caller would)
    if use_read {
        match builder().read(std::io::Cursor::new(bytes)) {
            Ok(i) => image = Some(i),
            Err(_) => {
                stats.stage = "read-rejected";
                dead = true;
            }
        }
        fed = bytes.len();
    } else {
        uninit = Some(builder().build_uninit());
    }
    let mut write_budget = 32usize << 20;
    for op in ops {
        if std::env::var_os("VERIF_DEBUG").is_some() {
            eprintln!("C01 op {op:?}");
        }
        match op {
            Op::Feed(n) => {
                if dead || use_read {
                    continue;
                }
                let end = (fed + n).min(bytes.len());
                pending.extend_from_slice(&bytes[fed..end]);
                fed = end;
                stats.kinds.push("feed");
                if let Some(img) = image.as_mut() {
                    match img.feed_bytes(&pending) {
                        Ok(c) => {
                            pending.drain(..c.min(pending.len()));
                        }
                        Err(_) => dead = true,
                    }
                } else if let Some(mut u) = uninit.take() {
                    match u.feed_bytes(&pending) {
                        Ok(c) => {
                            pending.drain(..c.min(pending.len()));
                        }
                        Err(_) => {
                            dead = true;
                            continue;
                        }
                    }
                    let _ = u.reader().kind();
                    match u.try_init() {
                        Ok(InitializeResult::NeedMoreData(u)) => uninit = Some(u),
                        Ok(InitializeResult::Initialized(i)) => image = Some(i),
                        Err(_) => dead = true,
                    }
                }
            }
            Op::Finalize => {
                if let Some(img) = image.as_mut() {
                    stats.kinds.push("finalize");
                    let _ = img.finalize();
                }
            }
            _ => {}
        }
        let Some(img) = image.as_mut() else { continue };
        stats.initialised = true;
        let header = img.image_header();
        let huge = header.size.width.max(header.size.height) > DIMENSION_LIMIT;
        match op {
            Op::Render(k) => {
                if huge {
                    continue;
                }
                stats.kinds.push("render");
                match img.render_frame(*k) {
                    Ok(r) => {
                        stats.renders_ok += 1;
                        touch_render(&r, &mut write_budget);
                    }
                    Err(_) => stats.renders_err += 1,
                }
            }
            Op::RenderLoading => {
                if huge {
                    continue;
                }
                stats.kinds.push("render-loading");
                match img.render_loading_frame() {
                    Ok(r) => {
                        stats.renders_ok += 1;
                        touch_render(&r, &mut write_budget);
                    }
                    Err(_) => stats.renders_err += 1,
                }
            }
            Op::Region(l, t, w, h) => {
                // rectangles are folded into the image: regions outside it are no property's domain
                // (C06 quantifies over rectangles inside the image; they are known to panic in blend)
                stats.kinds.push("region");
                let (iw, ih) = (img.width().max(1), img.height().max(1));
                let (l, t) = (*l % iw, *t % ih);
                let (w, h) = ((*w).min(iw - l).max(1), (*h).min(ih - t).max(1));
                img.set_image_region(CropInfo { left: l, top: t, width: w, height: h });
            }
            Op::Colour(i) => {
                stats.kinds.push("colour");
                img.request_color_encoding(colour_menu(*i));
            }
            Op::RequestIcc(a, n) => {
                stats.kinds.push("request-icc");
                let a = (*a).min(bytes.len());
                let b = (a + n).min(bytes.len());
                let own = img.rendered_icc();
                let _ = if *n == 0 { img.request_icc(&own) } else { img.request_icc(&bytes[a..b]) };
            }
            Op::Meta => {
                stats.kinds.push("meta");
                meta_calls(img);
            }
            Op::Jpeg => {
                stats.kinds.push("jpeg");
                let st = img.jpeg_reconstruction_status();
                let mut out = vec![];
                let r = img.reconstruct_jpeg(&mut out);
                let _ = (st, r.is_ok(), out.len());
            }
            Op::SpotColour(b) => {
                img.set_render_spot_color(*b);
            }
            Op::Feed(_) | Op::Finalize => {}
        }
    }
    if stats.initialised {
        stats.stage = if stats.renders_ok > 0 { "render-ok" } else if stats.renders_err > 0 { "render-err" } else { "initialised" };
    } else if stats.stage.is_empty() {
        stats.stage = "not-initialised";
    }
}

fn mutate(bytes: &mut Vec<u8>, src: &mut Src, classes: &mut Vec<String>, protect: usize) {
    let n = src.range(1, 6);
    for _ in 0..n {
        if bytes.is_empty() {
            return;
        }
        // most mutations leave the first `protect` bytes (signature / headers) alone
        let lo = if src.chance(200) { protect.min(bytes.len() - 1) } else { 0 };
        let pos = lo + src.below(bytes.len() - lo);
        match src.weighted(&[6, 3, 2, 2, 2, 1]) {
            0 => {
                bytes[pos] ^= 1 << src.below(8);
                classes.push("mut:bitflip".into());
            }
            1 => {
                bytes[pos] = *[0u8, 0xff, 0x7f, 0x80, 1, 0xfe].get(src.below(6)).unwrap();
                classes.push("mut:byte-set".into());
            }
            2 => {
                let n = src.range(1, 16) as usize;
                let end = (pos + n).min(bytes.len());
                bytes.drain(pos..end);
                classes.push("mut:delete".into());
            }
            3 => {
                let n = src.range(1, 16) as usize;
                let ins: Vec<u8> = (0..n).map(|_| src.byte()).collect();
                bytes.splice(pos..pos, ins);
                classes.push("mut:insert".into());
            }
            4 => {
                // copy a chunk from elsewhere in the file
                let from = src.below(bytes.len());
                let n = (src.range(1, 64) as usize).min(bytes.len() - from);
                let chunk: Vec<u8> = bytes[from..from + n].to_vec();
                let end = (pos + n).min(bytes.len());
                bytes.splice(pos..end, chunk);
                classes.push("mut:splice".into());
            }
            _ => {
                bytes.truncate(pos.max(1));
                classes.push("mut:truncate".into());
            }
        }
    }
}

impl Check for C01 {
    fn id(&self) -> &'static str {
        "C01"
    }
    fn plan(&self, tier: Tier) -> Plan {
        Plan { cases: if tier == Tier::Quick { 60_000 } else { 1_500_000 }, max_len: 8192 }
    }
    fn isolated(&self) -> bool {
        true
    }
    fn deadline(&self) -> std::time::Duration {
        std::time::Duration::from_secs(20)
    }
    fn rule(&self) -> String {
        "choice sequence -> (bytes, chunking, call program, pool none / rayon(2), buffer width setting). Bytes: (a) random strings <= 4 KiB, half of them behind a valid signature; (b) the repository's 60 fuzz_findings files and saved seeds, plain and mutated; (c) container layouts from C10's generator including its ill-formed variants; (d) well-formed streams from the jxlref generators in which one literal of a structural entropy-coded stream (MA tree, TOC permutation, patch / spline dictionary) was replaced before coding (spec-level hostility); (e) valid streams from the jxlref generators (lossless Modular, multi-frame, VarDCT, JPEG transcodes with jbrd/Exif/XMP boxes; bare and container layouts) mutated by bit flips, byte sets, deletions, insertions, splices and truncation (mostly behind the headers), or unmutated. Call program: feed in generated chunks with unconsumed bytes re-offered + try_init, or read(); then a generated sequence over finalize, render_frame(k) (valid and out-of-range k), render_loading_frame, set_image_region (generated rectangles folded into the image), request_color_encoding (8-entry menu), request_icc (own ICC or slices of the input), metadata / ICC / CICP / pixel format / HDR type / frame and offset queries, aux boxes, jpeg_reconstruction_status + reconstruct_jpeg, and on every Render: image_all_channels, image_planar, stream()/stream_no_alpha() into f32/u16/u8 buffers. Allocation limit 128 MiB; renders are skipped for images larger than 65536 (as the project's fuzz harness does). Built with overflow checks and debug assertions. Oracle: no panic, no abnormal worker exit, no confirmed deadline overrun (20 s, 200 s alone); no expectation on Ok/Err. Non-trivial: the image was initialised (headers parsed); distinct by FNV of (bytes, program).".into()
    }
    fn assumptions(&self) -> Vec<String> {
        vec!["only the SIMD paths this CPU selects are executed".into(), "known panic signatures listed in known_findings.json are tolerated in generated cases (counted in known_finding_hits) and strict in the replay tier".into()]
    }
    fn run(&self, choice: &[u8], describe: bool) -> Outcome {
        let mut src = Src::new(choice);
        let pb = src.fork_bytes(256);
        let mut psrc = Src::new(&pb);
        let mb = src.fork_bytes(128);
        let mut msrc = Src::new(&mb);
        let mut o = Outcome::pass();
        let mut classes: Vec<String> = vec![];
        // ---- bytes -------------------------------------------------------------
        let fixed_file = choice.starts_with(b"\xffRAW");
        let mut protect = 0usize;
        let mut bytes: Vec<u8> = if fixed_file {
            let files = seed_files();
            let i = u16::from_le_bytes([choice.get(4).copied().unwrap_or(0), choice.get(5).copied().unwrap_or(0)]) as usize;
            classes.push("src:seed-file".into());
            files.get(i).map(|f| f.1.clone()).unwrap_or_default()
        } else {
            match src.weighted(&[1, 2, 3, 3, 2, 1, 3]) {
                0 => {
                    classes.push("src:random".into());
                    let n = src.range(0, 4096) as usize;
                    let mut v = match src.below(4) {
                        0 => vec![0xff, 0x0a],
                        1 => vec![0, 0, 0, 0xc, b'J', b'X', b'L', b' ', 0xd, 0xa, 0x87, 0xa],
                        _ => vec![],
                    };
                    let fill = src.fork_bytes(n);
                    v.extend_from_slice(&fill);
                    v
                }
                1 => {
                    classes.push("src:seed-file".into());
                    let files = seed_files();
                    if files.is_empty() {
                        vec![0xff, 0x0a]
                    } else {
                        files[src.below(files.len())].1.clone()
                    }
                }
                2 => {
                    classes.push("src:any-file".into());
                    let mut ao = AnyOpts::default();
                    ao.modular.max_dim = 96;
                    ao.vardct.big_square = 0;
                    ao.vardct.multi_lf_group = 0;
                    let (c, f) = gen_any_file(&mut src, &ao);
                    classes.push(format!("image:{}", c.kind));
                    protect = f.first_frame_start;
                    f.file
                }
                3 => {
                    classes.push("src:any-bare".into());
                    let mut ao = AnyOpts::default();
                    ao.modular.max_dim = 96;
                    ao.vardct.big_square = 0;
                    ao.vardct.multi_lf_group = 0;
                    let c = gen_any_case(&mut src, &ao);
                    classes.push(format!("image:{}", c.kind));
                    protect = c.header_len;
                    c.bytes
                }
                5 => {
                    // container layouts of C10's generator (incl. its ill-formed variants) around arbitrary payloads
                    classes.push("src:container-layout".into());
                    let l = crate::checks::c10::gen_layout(&mut src);
                    if let Some(k) = l.illformed {
                        classes.push(format!("ill:{k}"));
                    }
                    protect = 12;
                    l.file
                }
                6 => {
                    // well-formed streams carrying one out-of-range value in a structural stream (MA tree, TOC
                    // permutation, patch or spline dictionary): jxlref::hostile perturbs one literal before coding
                    classes.push("src:spec-hostile".into());
                    let mut ao = AnyOpts::default();
                    ao.weights = [2, 3, 3];
                    ao.modular.max_dim = 64;
                    ao.vardct.big_square = 0;
                    ao.vardct.multi_lf_group = 0;
                    ao.vardct.boundary = 8;
                    let seed = src.u64();
                    jxlref::hostile::arm(seed);
                    let r = std::panic::catch_unwind(std::panic::AssertUnwindSafe(|| gen_any_case(&mut src, &ao)));
                    jxlref::hostile::disarm();
                    match r {
                        Ok(c) => {
                            classes.push(format!("image:{}", c.kind));
                            protect = c.bytes.len();
                            c.bytes
                        }
                        Err(_) => {
                            // the reference writer could not express the perturbed value: fall back to a seed file
                            classes.push("spec-hostile:writer-refused".into());
                            let files = seed_files();
                            if files.is_empty() { vec![0xff, 0x0a] } else { files[src.below(files.len())].1.clone() }
                        }
                    }
                }
                _ => {
                    classes.push("src:jpeg-transcode".into());
                    let jo = JpegGenOpts::default();
                    let c = gen_jpeg_case(&mut src, &jo);
                    protect = 12;
                    c.jxl
                }
            }
        };
        let spec_hostile = classes.iter().any(|c| c == "src:spec-hostile");
        if !fixed_file && !msrc.chance(if spec_hostile { 200 } else { 40 }) && !classes.iter().any(|c| c == "src:random") {
            mutate(&mut bytes, &mut msrc, &mut classes, protect);
        } else if !fixed_file {
            classes.push("unmutated".into());
        }
        // ---- program -----------------------------------------------------------
        let use_read = psrc.chance(64);
        let threads = if psrc.chance(48) { 2 } else { 0 };
        let force_wide = psrc.chance(64);
        let mut ops: Vec<Op> = vec![];
        let n_chunks = if use_read { 0 } else { psrc.weighted(&[3, 3, 2, 1]) };
        let chunk_sizes: Vec<usize> = match n_chunks {
            0 => vec![bytes.len()],
            1 => {
                let a = psrc.below(bytes.len().max(1));
                vec![a, bytes.len()]
            }
            2 => (0..psrc.range(3, 12)).map(|_| psrc.range(1, (bytes.len() / 3).max(2) as u64) as usize).chain([bytes.len()]).collect(),
            _ => (0..psrc.range(8, 40)).map(|_| psrc.range(1, 9) as usize).chain([bytes.len()]).collect(),
        };
        let gen_op = |psrc: &mut Src, len: usize| -> Op {
            match psrc.weighted(&[6, 2, 3, 2, 1, 4, 2, 1, 1]) {
                0 => Op::Render(if psrc.chance(24) { psrc.range(0, 1000) as usize } else { psrc.below(4) }),
                1 => Op::RenderLoading,
                2 => match psrc.below(4) {
                    0 => Op::Region(psrc.range(0, 64) as u32, psrc.range(0, 64) as u32, psrc.range(0, 64) as u32, psrc.range(0, 64) as u32),
                    1 => Op::Region(psrc.range(0, 300) as u32, psrc.range(0, 300) as u32, psrc.range(0, 5000) as u32, psrc.range(0, 5000) as u32),
                    2 => Op::Region(psrc.u32(), psrc.u32(), psrc.u32(), psrc.u32()),
                    _ => Op::Region(0, 0, u32::MAX, u32::MAX),
                },
                3 => Op::Colour(psrc.below(8)),
                4 => Op::RequestIcc(psrc.below(len.max(1)), if psrc.chance(64) { 0 } else { psrc.range(0, 600) as usize }),
                5 => Op::Meta,
                6 => Op::Jpeg,
                7 => Op::Finalize,
                _ => Op::SpotColour(psrc.bool()),
            }
        };
        for (i, &n) in chunk_sizes.iter().enumerate() {
            ops.push(Op::Feed(n));
            // calls between chunks
            let k = if i + 1 == chunk_sizes.len() { 0 } else { psrc.weighted(&[5, 3, 1]) };
            for _ in 0..k {
                ops.push(gen_op(&mut psrc, bytes.len()));
            }
        }
        ops.push(Op::Finalize);
        let n_after = psrc.range(1, 10);
        for _ in 0..n_after {
            ops.push(gen_op(&mut psrc, bytes.len()));
        }
        ops.push(Op::Meta);
        ops.push(Op::Render(0));
        o.case_hash = (crate::engine::fnv(&bytes) ^ crate::engine::fnv(&pb).rotate_left(17)) | 1;
        if describe {
            o.describe = Some(json!({"len": bytes.len(), "head": crate::engine::hex(&bytes[..bytes.len().min(24)]), "classes": classes, "threads": threads, "force_wide": force_wide, "use_read": use_read, "ops": format!("{:?}", &ops[..ops.len().min(40)])}));
        }
        if let Ok(p) = std::env::var("VERIF_DUMP") {
            let _ = std::fs::write(p, &bytes);
        }
        if std::env::var_os("VERIF_DEBUG").is_some() {
            eprintln!("C01 case: len={} classes={classes:?} threads={threads} wide={force_wide} read={use_read} ops={ops:?}", bytes.len());
        }
        let mut stats = Stats { initialised: false, renders_ok: 0, renders_err: 0, stage: "", kinds: vec![] };
        run_program(&bytes, &ops, threads, force_wide, use_read, &mut stats);
        o.nontrivial = stats.initialised;
        classes.push(format!("stage:{}", stats.stage));
        stats.kinds.sort();
        stats.kinds.dedup();
        for k in stats.kinds {
            classes.push(format!("call:{k}"));
        }
        classes.push(if use_read { "api:read".into() } else { format!("api:feed-chunks:{}", match chunk_sizes.len() { 1 => "1", 2 => "2", 3..=13 => "3-13", _ => "14+" }) });
        if threads > 0 {
            classes.push("pool:rayon2".into());
        }
        classes.sort();
        classes.dedup();
        o.classes = classes;
        let _ = Verdict::Pass;
        o
    }
    fn fixed_cases(&self) -> Vec<(String, Vec<u8>)> {
        seed_files().iter().enumerate().map(|(i, (name, _))| (format!("seed-file:{name}"), [b"\xffRAW".as_slice(), &(i as u16).to_le_bytes()].concat())).collect()
    }
}
