use crate::engine::Check;

pub mod c10;
pub mod c14;

pub fn all() -> Vec<Box<dyn Check>> {
    vec![Box::new(c10::C10), Box::new(c14::C14)]
}

pub fn by_id(id: &str) -> Option<Box<dyn Check>> {
    all().into_iter().find(|c| c.id().eq_ignore_ascii_case(id))
}
