use crate::engine::Check;

pub mod c01;
pub mod c03;
pub mod c04;
pub mod c05;
pub mod c06;
pub mod c07;
pub mod c08;
pub mod c09;
pub mod c10;
pub mod c11;
pub mod c12;
pub mod c13;
pub mod c14;
pub mod c15;
pub mod c16;
pub mod c17;
pub mod c18;
pub mod c19;
pub mod c20;
pub mod vardct_smoke;

pub fn all() -> Vec<Box<dyn Check>> {
    vec![Box::new(c01::C01), Box::new(c03::C03), Box::new(c04::C04), Box::new(c05::C05), Box::new(c06::C06), Box::new(c07::C07), Box::new(c08::C08), Box::new(c09::C09), Box::new(c10::C10), Box::new(c11::C11), Box::new(c12::C12), Box::new(c13::C13), Box::new(c14::C14), Box::new(c15::C15), Box::new(c16::C16), Box::new(c17::C17), Box::new(c18::C18), Box::new(c19::C19), Box::new(c20::C20), Box::new(vardct_smoke::VSmoke)]
}

pub fn by_id(id: &str) -> Option<Box<dyn Check>> {
    all().into_iter().find(|c| c.id().eq_ignore_ascii_case(id))
}

/// First words of an error message, digits collapsed: stable enough for a signature.
pub fn short(msg: &str) -> String {
    let mut out = String::new();
    let mut last_digit = false;
    for c in msg.chars().take(60) {
        if c.is_ascii_digit() {
            if !last_digit {
                out.push('#');
            }
            last_digit = true;
        } else {
            out.push(c);
            last_digit = false;
        }
    }
    out
}

pub fn short_histos(h: &[jxlref::entropy::Histo]) -> String {
    let mut out = String::new();
    for x in h.iter().take(3) {
        match x {
            jxlref::entropy::Histo::Prefix(l) => {
                let used: Vec<(usize, u8)> = l.iter().copied().enumerate().filter(|x| x.1 > 0).take(40).collect();
                out.push_str(&format!("Prefix(size={}, lengths={:?}) ", l.len(), used));
            }
            jxlref::entropy::Histo::Ans { dist, shift } => {
                let used: Vec<(usize, u16)> = dist.iter().copied().enumerate().filter(|x| x.1 > 0).take(40).collect();
                out.push_str(&format!("Ans(table={}, shift={}, dist={:?}) ", dist.len(), shift, used));
            }
        }
    }
    out
}
