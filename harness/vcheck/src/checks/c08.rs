//! C08 — a failed render never wedges or corrupts the image: later calls still
//! return, and any later success equals a decode that never failed.
//!
//! Fault injection: the `cfg(jxl_oxide_verif)` switch of `AllocTracker` fails the
//! k-th and every later tracked allocation.  For every chosen k a fresh image is
//! decoded with the fault armed, then a generated program of later calls runs
//! (render same / other keyframes, change the region, lift the fault, arm it
//! again further on).  Cases run in worker processes: a call that never returns
//! is a deadline overrun confirmed on a solitary re-run.

use crate::engine::{Check, Outcome, Plan, Tier, Verdict};
use crate::util::*;
use jxl_oxide::{AllocTracker, CropInfo, JxlImage, JxlThreadPool};
use jxlref::gen::stream::*;
use jxlref::src::Src;
use serde_json::json;
use std::collections::HashMap;

pub struct C08;

type Bits = Vec<(usize, usize, Vec<u32>)>;
type Region = Option<(u32, u32, u32, u32)>;

#[derive(Clone, Debug)]
enum Op {
    Render(usize),
    Region(Region),
    Lift,
    /// arm the fault `n` allocations after the current count
    Arm(usize),
}

fn pool(threads: usize) -> JxlThreadPool {
    if threads == 0 {
        JxlThreadPool::none()
    } else {
        JxlThreadPool::rayon(Some(threads))
    }
}

/// The picture as a caller sees it: the planar buffers of the (oriented, region-sized) render.  The raw
/// grids behind it may legitimately cover different areas depending on who asked for the frame first
/// (a frame blended earlier for a patch source caches only that area), so they are not compared.
fn bits_of(r: &jxl_oxide::Render) -> Bits {
    r.image_planar().iter().map(|p| (p.width(), p.height(), p.buf().iter().map(|v| v.to_bits()).collect())).collect()
}

fn apply_region(image: &mut JxlImage, r: Region) {
    let (w, h) = (image.width(), image.height());
    match r {
        None => {
            image.set_image_region(CropInfo { left: 0, top: 0, width: w, height: h });
        }
        Some((l, t, rw, rh)) => {
            image.set_image_region(CropInfo { left: l, top: t, width: rw, height: rh });
        }
    }
}

/// Never-failed reference: a fresh image per (region), all keyframes.
struct Baseline<'a> {
    bytes: &'a [u8],
    threads: usize,
    cache: HashMap<Region, Vec<Result<Bits, String>>>,
}

impl Baseline<'_> {
    fn get(&mut self, region: Region) -> &Vec<Result<Bits, String>> {
        let (bytes, threads) = (self.bytes, self.threads);
        self.cache.entry(region).or_insert_with(|| {
            let mut image = match JxlImage::builder().pool(pool(threads)).alloc_tracker(AllocTracker::with_limit(1 << 30)).read(std::io::Cursor::new(bytes)) {
                Ok(i) => i,
                Err(_) => return vec![],
            };
            if region.is_some() {
                apply_region(&mut image, region);
            }
            (0..image.num_loaded_keyframes()).map(|k| image.render_frame(k).map(|r| bits_of(&r)).map_err(|e| e.to_string())).collect()
        })
    }
}

impl Check for C08 {
    fn id(&self) -> &'static str {
        "C08"
    }
    fn plan(&self, tier: Tier) -> Plan {
        Plan { cases: if tier == Tier::Quick { 2_000 } else { 30_000 }, max_len: 6144 }
    }
    fn isolated(&self) -> bool {
        true
    }
    fn deadline(&self) -> std::time::Duration {
        std::time::Duration::from_secs(20)
    }
    fn rule(&self) -> String {
        "choice sequence -> image (multi-frame Modular with blending / crops / patches / reference-only frames weighted up; also single-frame Modular and VarDCT; optionally one corrupted section byte) x fault index k over the tracked allocations of read + render of every keyframe (every k when the clean run makes <= 48 tracked allocations in quick / 400 in thorough = exhaustive for that image, else a sample of 24 biased to the render phase) (a quarter of the images instead take the fault inside a render_loading_frame() call made half-way through an incremental load) x generated program of later calls (render same/other keyframes, set a region inside the image or back to full, lift the fault, arm it again n allocations later) x pool none (mostly) or rayon(2). Oracle: no call panics or aborts, every call returns (20 s deadline per case in a worker process, confirmed alone at 10x); every render that returns Ok - while the fault is armed, after it is lifted, after a region change - is bit-identical to the render of the same keyframe and region by a fresh decode that never failed. An evaluation = one image with all its fault points. Non-trivial: some fault fired inside a render call of an image with >= 2 frames and a later render call returned Ok; distinct by FNV of the stream.".into()
    }
    fn assumptions(&self) -> Vec<String> {
        vec![
            "only allocations registered with the AllocTracker can be failed (the property's quantifier); with rayon(2) the k-th allocation is whichever the scheduler makes k-th".into(),
            "a permanently blocked call is detected by the per-case deadline, not by a scheduler hook (DESIGN hook 2 was not built)".into(),
            "whether a render succeeds again after the fault is lifted is recorded (classes recovered / sticky-error), not asserted: the property only requires that it returns".into(),
        ]
    }
    fn run(&self, choice: &[u8], describe: bool) -> Outcome {
        let mut src = Src::new(choice);
        let cb = src.fork_bytes(96);
        let mut csrc = Src::new(&cb);
        let mut o = Outcome::pass();
        let mut ao = AnyOpts::default();
        ao.weights = [2, 6, 2];
        ao.modular.max_dim = 160;
        ao.vardct.boundary = 8;
        ao.vardct.big_square = 0;
        ao.vardct.multi_lf_group = 0;
        let c = gen_any_case(&mut src, &ao);
        let sections = c.layouts.last().map(|l| l.sections.clone()).unwrap_or_default();
        let header_len = c.header_len;
        let (mut bytes, mut classes, desc) = (c.bytes, c.classes, c.desc);
        classes.retain(|c| c.starts_with("frames:") || c == "patches" || c.starts_with("image:") || c == "reference-only" || c == "crop" || c.starts_with("blend:"));
        if sections.len() > 1 && csrc.chance(40) {
            let cands: Vec<&(usize, usize)> = sections.iter().skip(1).filter(|s| s.1 > 0).collect();
            if !cands.is_empty() {
                let s = cands[csrc.below(cands.len())];
                let pos = s.0 + csrc.below(s.1);
                bytes[pos] ^= 1 << csrc.below(8);
                classes.push("corrupted-section".into());
            }
        }
        let threads = if csrc.chance(40) { 2 } else { 0 };
        if threads > 0 {
            classes.push("pool:rayon2".into());
        }
        o.case_hash = crate::engine::fnv(&bytes) | 1;
        let thorough = std::env::var("VERIF_TIER").map(|t| t == "thorough").unwrap_or(false);

        // clean run: allocation counts per phase
        let t0 = AllocTracker::with_limit(1 << 30);
        let image = JxlImage::builder().pool(pool(threads)).alloc_tracker(t0.clone()).read(std::io::Cursor::new(&bytes[..]));
        let n_read = t0.verif_alloc_calls();
        let image = match image {
            Ok(i) => i,
            Err(_) => {
                // corrupted at load time: nothing to render
                o.classes = classes;
                o.classes.push("rejected-at-load".into());
                return o;
            }
        };
        let nk = image.num_loaded_keyframes();
        let nframes = image.num_loaded_frames();
        let (iw, ih) = (image.width().max(1), image.height().max(1));
        for k in 0..nk {
            let _ = image.render_frame(k);
        }
        let n_total = t0.verif_alloc_calls();
        drop(image);
        if nk == 0 || n_total == 0 {
            o.classes = classes;
            return o;
        }
        // fault points
        let all_limit = if thorough { 400 } else { 48 };
        let ks: Vec<usize> = if n_total <= all_limit {
            classes.push("faults:exhaustive".into());
            (0..n_total).collect()
        } else {
            classes.push("faults:sampled".into());
            let mut v: Vec<usize> = (0..24)
                .map(|_| if csrc.chance(200) && n_total > n_read { n_read + csrc.below(n_total - n_read) } else { csrc.below(n_total) })
                .collect();
            v.sort();
            v.dedup();
            v
        };
        // program of later calls (shared by all fault points of the case)
        let n_ops = csrc.range(2, 8) as usize;
        let mut ops = vec![];
        for _ in 0..n_ops {
            ops.push(match csrc.weighted(&[5, 2, 2, 1]) {
                0 => Op::Render(csrc.below(nk)),
                1 => {
                    if csrc.chance(80) {
                        Op::Region(None)
                    } else {
                        let l = csrc.range(0, iw as u64 - 1) as u32;
                        let t = csrc.range(0, ih as u64 - 1) as u32;
                        let w = csrc.range(1, (iw - l) as u64) as u32;
                        let h = csrc.range(1, (ih - t) as u64) as u32;
                        Op::Region(Some((l, t, w, h)))
                    }
                }
                2 => Op::Lift,
                _ => Op::Arm(csrc.range(0, 40) as usize),
            });
        }
        // always end with: lift, full region, render everything
        ops.push(Op::Lift);
        ops.push(Op::Region(None));
        for k in 0..nk {
            ops.push(Op::Render(k));
        }
        if describe {
            o.describe = Some(json!({"image": desc, "n_read": n_read, "n_total": n_total, "faults": ks.len(), "ops": format!("{ops:?}"), "threads": threads}));
        }
        let mut baseline = Baseline { bytes: &bytes, threads, cache: HashMap::new() };
        let (mut fired_in_render, mut later_ok, mut recovered, mut sticky) = (0usize, 0usize, 0usize, 0usize);
        // a quarter of the cases load the image through the incremental API and take the fault inside a
        // render_loading_frame() call made half-way (the fault is lifted right after it)
        let tail = src.tail_fork_bytes(8);
        let progressive = tail[4] % 4 == 0 && bytes.len() > header_len + 2;
        let cut = header_len + 1 + ((tail[5] as usize | (tail[6] as usize) << 8) * (bytes.len().saturating_sub(header_len + 1)) >> 16);
        if progressive {
            classes.push("fault-in-loading-render".into());
        }
        for &k in &ks {
            let t = AllocTracker::with_limit(1 << 30);
            let mut failed_render = false;
            let mut lifted = false;
            let mut fail_from = k;
            let mut image = if progressive {
                let (t2, t3) = (t.clone(), t.clone());
                let builder = JxlImage::builder().pool(pool(threads)).alloc_tracker(t.clone());
                match crate::util::open_with_loading_render(&bytes, cut, builder, move || t2.verif_set_fail_from(t2.verif_alloc_calls() + k % 32), move || t3.verif_set_fail_from(usize::MAX)) {
                    Ok(i) => {
                        failed_render = true;
                        lifted = true;
                        fail_from = usize::MAX;
                        i
                    }
                    Err(_) => continue,
                }
            } else {
                t.verif_set_fail_from(k);
                match JxlImage::builder().pool(pool(threads)).alloc_tracker(t.clone()).read(std::io::Cursor::new(&bytes[..])) {
                    Ok(i) => i,
                    Err(_) => continue, // fault during load: no image to misuse
                }
            };
            let mut region: Region = None;
            // first: the renders the clean run made, in order (this is where index k falls)
            let mut program: Vec<Op> = (0..nk).map(Op::Render).collect();
            program.extend(ops.iter().cloned());
            for (step, op) in program.iter().enumerate() {
                match op {
                    Op::Render(kf) => {
                        let before = t.verif_alloc_calls();
                        let r = image.render_frame(*kf).map(|r| bits_of(&r)).map_err(|e| e.to_string());
                        let after = t.verif_alloc_calls();
                        let fired = fail_from != usize::MAX && after > before.max(fail_from);
                        match r {
                            Err(_) => {
                                if fired {
                                    failed_render = true;
                                }
                                if lifted && failed_render {
                                    sticky += 1;
                                }
                            }
                            Ok(got) => {
                                let want = baseline.get(region).get(*kf).cloned();
                                match want {
                                    Some(Ok(w)) => {
                                        if w != got {
                                            let what = if lifted { "after-lift" } else { "while-armed" };
                                            o.nontrivial = true;
                                            o.verdict = Verdict::Fail {
                                                sig: format!("samples-differ-after-failure/{what}"),
                                                detail: format!("fault at allocation {k} of {n_total} (read makes {n_read}); step {step} {op:?} region {region:?}: render returned Ok but differs from the never-failed decode; failed_render_before={failed_render}; ops={ops:?}; {desc}"),
                                            };
                                            o.classes = classes;
                                            return o;
                                        }
                                        if failed_render {
                                            later_ok += 1;
                                            if lifted {
                                                recovered += 1;
                                            }
                                        }
                                    }
                                    Some(Err(e)) => {
                                        o.nontrivial = true;
                                        o.verdict = Verdict::Fail {
                                            sig: "ok-where-clean-decode-fails".into(),
                                            detail: format!("fault at allocation {k}: step {step} {op:?} region {region:?} returned Ok, the never-failed decode fails with {e}; {desc}"),
                                        };
                                        o.classes = classes;
                                        return o;
                                    }
                                    None => {}
                                }
                            }
                        }
                        if fired && nframes >= 2 {
                            fired_in_render += 1;
                        }
                    }
                    Op::Region(r) => {
                        region = *r;
                        apply_region(&mut image, region);
                    }
                    Op::Lift => {
                        t.verif_set_fail_from(usize::MAX);
                        fail_from = usize::MAX;
                        lifted = true;
                    }
                    Op::Arm(n) => {
                        fail_from = t.verif_alloc_calls() + n;
                        t.verif_set_fail_from(fail_from);
                        lifted = false;
                    }
                }
            }
        }
        o.nontrivial = fired_in_render > 0 && later_ok > 0;
        if fired_in_render > 0 {
            classes.push("fault-fired-in-render".into());
        }
        if later_ok > 0 {
            classes.push("later-render-ok".into());
        }
        if recovered > 0 {
            classes.push("recovered-after-lift".into());
        }
        if sticky > 0 {
            classes.push("sticky-error-after-lift".into());
        }
        classes.sort();
        classes.dedup();
        o.classes = classes;
        o
    }
}
