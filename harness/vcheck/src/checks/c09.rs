//! C09 — feeding the stream in any chunks gives the same image as one buffer.

use crate::engine::{Check, Outcome, Plan, Tier, Verdict};
use crate::util::*;
use jxlref::chunk::gen_cuts;
use jxlref::gen::modular::ModGenOpts;
use jxlref::gen::stream::*;
use jxlref::src::Src;
use serde_json::json;

pub struct C09;

impl Check for C09 {
    fn fixed_cases(&self) -> Vec<(String, Vec<u8>)> {
        // permuted TOC fed one byte at a time (fixed defect 80acca1)
        vec![("raw-permuted-toc-bytewise".into(), b"\xffRAW\x02".to_vec())]
    }
    fn id(&self) -> &'static str {
        "C09"
    }
    fn plan(&self, tier: Tier) -> Plan {
        Plan { cases: if tier == Tier::Quick { 12_000 } else { 200_000 }, max_len: 4096 }
    }
    fn rule(&self) -> String {
        "choice sequence -> valid file (codestream from the reference frame generators; bare, or container with jxlc / split jxlp at generated and structure-aligned points, 32/64-bit/to-EOF box sizes, raw and brob Exif/xml/other boxes interleaved) x generated chunking (whole, 1-byte, fixed-n, random cut sets, cuts within -3..+17 of structure boundaries: box headers, jxlp index, image header end, frame header end, TOC end, every section boundary). Driver follows the documented feed contract. Oracle: versus JxlImageBuilder::read of the whole buffer: identical image header, frame/keyframe counts, every frame_offset, frame headers, completion flag, Exif (offset+payload) / xml, JPEG status, original ICC, and bit-identical samples of every keyframe. Non-trivial: >= 3 chunks and a cut strictly inside a structure; distinct by FNV of (file, cuts).".into()
    }
    fn run(&self, choice: &[u8], describe: bool) -> Outcome {
        let mut src = Src::new(choice);
        let cbytes = src.fork_bytes(96);
        let mut csrc = Src::new(&cbytes);
        let opts = ModGenOpts { max_dim: 300, multi_group: 40, ..Default::default() };
        let fixed = choice.starts_with(b"\xffRAW");
        let _ = &opts;
        let (case, file) = if fixed {
            let (m, f) = fixed_modular_file(choice.get(4).copied().unwrap_or(2));
            (AnyCase { bytes: m.bytes, classes: m.classes, layouts: vec![m.layout], header_len: m.header_len, kind: "modular", size: (m.ih.width, m.ih.height), orientation: 1, has_parallel_work: false, has_neighbourhood_feature: false, desc: String::new() }, f)
        } else {
            gen_any_file(&mut src, &AnyOpts::default())
        };
        let cuts = if fixed { (1..file.file.len()).collect() } else { gen_cuts(file.file.len(), &file.marks, &mut csrc) };
        let mut o = Outcome::pass();
        let inside = cuts.iter().any(|c| !file.marks.contains(c));
        o.nontrivial = cuts.len() >= 2 && inside;
        let mut h = crate::engine::fnv(&file.file);
        for c in &cuts {
            h = h.rotate_left(9) ^ (*c as u64).wrapping_mul(0x9E3779B97F4A7C15);
        }
        o.case_hash = h | 1;
        o.classes = file.classes.clone();
        o.classes.extend(case.classes.iter().filter(|c| c.starts_with("toc:") || c.starts_with("preview:") || c.starts_with("multi") || c.starts_with("image:")).cloned());
        o.classes.push(format!("chunks:{}", match cuts.len() + 1 { 1 => "1", 2..=4 => "2-4", 5..=32 => "5-32", _ => ">32" }));
        if describe {
            o.describe = Some(json!({"file_len": file.file.len(), "container": file.container, "classes": o.classes, "cuts": if cuts.len() > 20 { json!(format!("{} cuts", cuts.len())) } else { json!(cuts) }, "image": case.desc}));
        }
        let dopts = DecodeOpts::default();
        let whole = match open(&file.file, &dopts) {
            Ok(i) => observe(&i, true),
            Err(e) => {
                o.verdict = Verdict::Fail { sig: format!("whole-rejected: {}", crate::checks::short(&e)), detail: format!("{e}; classes={:?}", o.classes) };
                return o;
            }
        };
        let chunked = match feed_chunked(&file.file, &cuts, &dopts, |_, _| Ok(())) {
            Ok(Some(i)) => observe(&i, true),
            Ok(None) => {
                o.verdict = Verdict::Fail { sig: "chunked-never-initialised".into(), detail: format!("all bytes fed but try_init still reports NeedMoreData; classes={:?} cuts={:?}", o.classes, &cuts[..cuts.len().min(30)]) };
                return o;
            }
            Err(e) => {
                o.verdict = Verdict::Fail { sig: format!("chunked-rejected: {}", crate::checks::short(&e)), detail: format!("{e}; classes={:?} cuts={:?}", o.classes, &cuts[..cuts.len().min(30)]) };
                return o;
            }
        };
        if let Some(d) = diff_observation(&whole, &chunked) {
            let field = d.split(':').next().unwrap_or("").to_string();
            o.verdict = Verdict::Fail { sig: format!("differs:{field}"), detail: format!("{d}; classes={:?} cuts={:?}", o.classes, &cuts[..cuts.len().min(30)]) };
            return o;
        }
        // the reference's own expectations on the whole-buffer result
        if !whole.loading_done || whole.num_keyframes < 1 {
            o.verdict = Verdict::Fail { sig: "whole-incomplete".into(), detail: format!("loading_done={} keyframes={}", whole.loading_done, whole.num_keyframes) };
            return o;
        }
        if whole.frame_offsets.first().copied().flatten() != Some(case.layouts[0].frame_start) {
            o.verdict = Verdict::Fail { sig: "frame-offset".into(), detail: format!("frame_offset(0) = {:?}, frame starts at codestream byte {}", whole.frame_offsets.first(), case.layouts[0].frame_start) };
            return o;
        }
        if let Some(x) = &file.xml {
            let want = format!("data {:?}", &x[..]);
            if whole.xml != want {
                o.verdict = Verdict::Fail { sig: "xml-payload".into(), detail: format!("first_xml: {} expected {}", whole.xml, want) };
                return o;
            }
        }
        if let Some(e) = &file.exif {
            if e.len() >= 4 && (u32::from_be_bytes([e[0], e[1], e[2], e[3]]) as usize) < e.len() - 4 {
                let want = format!("data off={} payload={:?}", u32::from_be_bytes([e[0], e[1], e[2], e[3]]), &e[4..]);
                if whole.exif != want {
                    o.verdict = Verdict::Fail { sig: "exif-payload".into(), detail: format!("first_exif: {} expected {}", whole.exif, want) };
                    return o;
                }
            }
        }
        o
    }
}
