//! C17 — JPEG reconstruction reproduces the original JPEG byte for byte; the
//! status query says "available" only when a reconstruction can be attempted;
//! hostile or incomplete reconstruction data give an error, never a panic.

use crate::engine::{catch, fnv, panic_sig, Check, Outcome, Plan, Tier, Verdict};
use crate::util::*;
use jxl_oxide::JpegReconstructionStatus as Status;
use jxlref::chunk::gen_cuts;
use jxlref::gen::jpeg::*;
use jxlref::jpeg::*;
use jxlref::src::Src;
use serde_json::json;

pub struct C17;

fn fail(o: &mut Outcome, sig: impl Into<String>, detail: impl Into<String>) {
    o.verdict = Verdict::Fail { sig: sig.into(), detail: detail.into() };
}

/// Names the part of the JPEG that contains byte `pos`.
fn locate(case: &JpegCase, pos: usize) -> String {
    if pos < 2 {
        return "SOI".into();
    }
    let offs = &case.encoded.segment_offsets;
    let eoi = *offs.last().unwrap();
    if pos >= eoi + 2 {
        return "tail".into();
    }
    if pos >= eoi {
        return "EOI".into();
    }
    let i = offs.iter().rposition(|&o| o <= pos).unwrap_or(0);
    match &case.spec.segments[i] {
        Segment::App { kind, .. } => format!("APP-{kind:?}"),
        Segment::Com(_) => "COM".into(),
        Segment::Dqt(_) => "DQT".into(),
        Segment::Dht(_) => "DHT".into(),
        Segment::Sof => "SOF".into(),
        Segment::Dri => "DRI".into(),
        Segment::Unknown(_) => "inter-marker-data".into(),
        Segment::Sos(s) => {
            let hdr = 2 + 2 + 1 + 2 * case.spec.scans[*s].comps.len() + 3;
            if pos < offs[i] + hdr {
                "SOS-header".into()
            } else {
                "scan-data".into()
            }
        }
    }
}

fn compare(case: &JpegCase, got: &[u8]) -> Option<(String, String)> {
    let want = &case.jpeg;
    if got == &want[..] {
        return None;
    }
    let first_diff = |a: &[u8], b: &[u8]| a.iter().zip(b.iter()).position(|(x, y)| x != y).unwrap_or(a.len().min(b.len()));
    let k = first_diff(got, want);
    let show = |v: &[u8]| crate::engine::hex(&v[k.saturating_sub(4).min(v.len())..(k + 12).min(v.len())]);
    let mut place = locate(case, k);
    if place == "scan-data" {
        if let Some(bits) = &case.spec.pad_bits {
            // hypothesis: each group of padding bits is emitted in reverse order
            let mut rev = bits.clone();
            let mut at = 0;
            for &n in &case.encoded.pad_lens {
                rev[at..at + n as usize].reverse();
                at += n as usize;
            }
            let mut spec2 = case.spec.clone();
            spec2.pad_bits = Some(rev);
            if let Ok(e2) = encode_jpeg(&spec2) {
                if e2.bytes == got {
                    place = "padding-bits(each-group-reversed)".into();
                } else if e2.segment_offsets == case.encoded.segment_offsets {
                    // something else differs further on
                    let k2 = first_diff(got, &e2.bytes);
                    if k2 > k {
                        place = format!("padding-bits(each-group-reversed)+{}", locate(case, k2));
                    }
                }
            }
        }
    }
    Some((place.clone(), format!("reconstruction differs from the original JPEG in {place}: lengths {} vs {}, first difference at byte {k}: got ..{} expected ..{} (4 bytes of context)", got.len(), want.len(), show(got), show(want))))
}

/// Structural context that is part of a failure signature: a scan that does not contain the
/// full-resolution component of a chroma-subsampled image (its MCU grid differs from the frame's).
fn context_tag(case: &JpegCase) -> &'static str {
    let sp = &case.spec;
    let subsampled = sp.components.iter().any(|c| c.h as usize != sp.hmax() || c.v as usize != sp.vmax());
    let partial = sp.scans.iter().any(|s| s.comps.iter().all(|sc| (sp.components[sc.comp].h as usize) < sp.hmax() || (sp.components[sc.comp].v as usize) < sp.vmax()));
    // (sequential files only: every AC scan of a progressive file has one component)
    if subsampled && partial && sp.sof_marker != 0xc2 {
        " [subsampled:scan-of-reduced-components-only]"
    } else {
        ""
    }
}

fn status_name(s: Status) -> &'static str {
    match s {
        Status::Available => "Available",
        Status::Invalid => "Invalid",
        Status::Unavailable => "Unavailable",
        Status::NeedMoreData => "NeedMoreData",
    }
}

fn is_incomplete_error(msg: &str) -> bool {
    msg.contains("incomplete") || msg.contains("not found")
}

/// Whole file through `JxlImage::read`.
fn positive(case: &JpegCase, o: &mut Outcome) {
    let r = catch(|| -> Result<(), (String, String)> {
        // `JxlImageBuilder::read` stops reading at the end of the image; when the jbrd / Exif / xml
        // box follows the codestream the whole buffer is handed over through the feed interface instead
        let img = if case.needed_box_after_codestream {
            match feed_chunked(&case.jxl, &[], &DecodeOpts::default(), |_, _| Ok(())) {
                Ok(Some(i)) => i,
                Ok(None) => return Err(("feed-never-initialised".into(), "whole file fed, image not initialised".into())),
                Err(e) => return Err((format!("feed-rejected: {}", crate::checks::short(&e)), e)),
            }
        } else {
            open(&case.jxl, &DecodeOpts::default()).map_err(|e| (format!("open-rejected: {}", crate::checks::short(&e)), e))?
        };
        let st = img.jpeg_reconstruction_status();
        if st != Status::Available {
            return Err((format!("status:{}", status_name(st)), format!("whole transcoded file read, jpeg_reconstruction_status() = {st:?}")));
        }
        let mut out = vec![];
        img.reconstruct_jpeg(&mut out).map_err(|e| (format!("reconstruct-error: {}", crate::checks::short(&e.to_string())), e.to_string()))?;
        match compare(case, &out) {
            None => Ok(()),
            Some((place, d)) => Err((format!("bytes-differ:{place}"), d)),
        }
    });
    let tag = context_tag(case);
    match r {
        Ok(Ok(())) => {}
        Ok(Err((sig, d))) => {
            let tag = if sig.starts_with("bytes-differ:scan-data") || sig.starts_with("reconstruct-error") { tag } else { "" };
            fail(o, format!("{sig}{tag}"), format!("{d}; {}", case.desc))
        }
        Err(p) => fail(o, format!("{}{tag}", panic_sig(&p)), format!("panic on a valid transcoded file: {p}; {}", case.desc)),
    }
}

/// Very fine chunkings of large files cost quadratic time in the decoder (every step re-parses what
/// it has): beyond 1500 cuts only every k-th cut and the cuts next to structure boundaries are kept.
fn thin_cuts(cuts: &mut Vec<usize>, marks: &[usize]) {
    if cuts.len() <= 1500 {
        return;
    }
    let k = cuts.len().div_ceil(1000);
    let mut i = 0usize;
    cuts.retain(|&c| {
        i += 1;
        i % k == 0 || marks.iter().any(|&m| c + 12 >= m && c <= m + 12)
    });
}

/// The file arrives in chunks; the status is queried after every step.
fn arrival(case: &JpegCase, csrc: &mut Src, o: &mut Outcome) {
    let file = &case.jxl;
    let mut cuts = gen_cuts(file.len(), &case.marks, csrc);
    thin_cuts(&mut cuts, &case.marks);
    o.classes.push(format!("chunks:{}", match cuts.len() + 1 { 1 => "1", 2..=4 => "2-4", 5..=32 => "5-32", _ => ">32" }));
    let n_steps = cuts.len() + 1;
    // reconstruction is attempted at the first "available" step, at up to ~16 further ones, and at the last
    let stride = (n_steps / 16).max(1);
    // (severity, signature, detail); the most severe problem is reported
    let mut problems: Vec<(u32, String, String)> = vec![];
    let mut seen_available = false;
    let mut seen_unavailable_at: Option<usize> = None;
    let mut step = 0usize;
    let mut attempts = 0usize;
    let mut statuses: Vec<&'static str> = vec![];
    let fed_result = catch(|| {
        feed_chunked(file, &cuts, &DecodeOpts::default(), |img, fed| {
            step += 1;
            let Some(img) = img else { return Ok(()) };
            let st = img.jpeg_reconstruction_status();
            if statuses.last() != Some(&status_name(st)) {
                statuses.push(status_name(st));
            }
            let complete = fed == file.len();
            match st {
                Status::Invalid => problems.push((60, "arrival:status-invalid-on-valid-file".into(), format!("status Invalid after {fed} of {} bytes of a valid file", file.len()))),
                Status::Unavailable => {
                    seen_unavailable_at.get_or_insert(fed);
                }
                Status::NeedMoreData => {
                    if seen_available {
                        problems.push((50, "arrival:status-went-back".into(), format!("status NeedMoreData after {fed} bytes although it was Available earlier")));
                    }
                }
                Status::Available => {
                    if let Some(at) = seen_unavailable_at {
                        problems.push((55, "arrival:unavailable-then-available".into(), format!("status Unavailable ('will not change') after {at} bytes, Available after {fed}")));
                    }
                    let first = !seen_available;
                    seen_available = true;
                    if first || complete || step % stride == 0 {
                        attempts += 1;
                        let mut out = vec![];
                        match catch(|| img.reconstruct_jpeg(&mut out)) {
                            Err(p) => problems.push((100, format!("arrival:{}", panic_sig(&p)), format!("status Available after {fed} of {} bytes, reconstruct_jpeg panicked: {p}", file.len()))),
                            Ok(Ok(())) => {
                                if let Some((place, d)) = compare(case, &out) {
                                    problems.push((90, format!("arrival:early-reconstruction-differs:{place}"), format!("status Available after {fed} of {} bytes and reconstruct_jpeg returned Ok, but {d}", file.len())));
                                }
                            }
                            Ok(Err(e)) => {
                                let m = e.to_string();
                                if is_incomplete_error(&m) {
                                    problems.push((40, format!("arrival:available-but:{}", crate::checks::short(&m)), format!("status Available after {fed} of {} bytes, but reconstruct_jpeg fails with: {m}", file.len())));
                                } else {
                                    problems.push((70, format!("arrival:available-but-error:{}", crate::checks::short(&m)), format!("status Available after {fed} of {} bytes of a valid file, reconstruct_jpeg fails with: {m}", file.len())));
                                }
                            }
                        }
                    }
                }
            }
            Ok(())
        })
    });
    o.classes.push(format!("arrival:attempts-{}", match attempts { 0 => "0", 1 => "1", 2..=5 => "2-5", _ => ">5" }));
    match fed_result {
        Err(p) => problems.push((100, format!("arrival:{}", panic_sig(&p)), format!("panic while feeding a valid file in chunks: {p}"))),
        Ok(Err(e)) => problems.push((80, format!("arrival:feed-error: {}", crate::checks::short(&e)), format!("valid file rejected when fed in chunks: {e}"))),
        Ok(Ok(None)) => problems.push((80, "arrival:never-initialised".into(), "all bytes fed, image never initialised".into())),
        Ok(Ok(Some(img))) => {
            // everything has arrived and finalize() ran
            let r = catch(|| {
                let st = img.jpeg_reconstruction_status();
                if st != Status::Available {
                    return Err((format!("arrival:final-status:{}", status_name(st)), format!("all bytes fed and finalised, status {st:?}")));
                }
                let mut out = vec![];
                img.reconstruct_jpeg(&mut out).map_err(|e| (format!("arrival:final-reconstruct-error: {}", crate::checks::short(&e.to_string())), e.to_string()))?;
                match compare(case, &out) {
                    None => Ok(()),
                    Some((place, d)) => Err((format!("arrival:final-bytes-differ:{place}"), d)),
                }
            });
            match r {
                Ok(Ok(())) => {}
                Ok(Err((s, d))) => problems.push((95, s, d)),
                Err(p) => problems.push((100, format!("arrival:{}", panic_sig(&p)), format!("panic after complete arrival: {p}"))),
            }
        }
    }
    if let Some((_, sig, detail)) = problems.iter().max_by_key(|p| p.0) {
        let others: Vec<&str> = problems.iter().map(|p| p.1.as_str()).collect();
        let mut uniq: Vec<&str> = vec![];
        for s in others {
            if !uniq.contains(&s) {
                uniq.push(s);
            }
        }
        fail(o, sig.clone(), format!("{detail}; status sequence {statuses:?}; all problems of this case: {uniq:?}; cuts={:?}; {}", &cuts[..cuts.len().min(24)], case.desc));
    }
}

// ---------------------------------------------------------------------------
// Hostile reconstruction data

/// Edits the description of the box so that it is inconsistent or out of range in one specific way.
fn mutate_fields(j: &mut JbrdSpec, case: &JpegCase, src: &mut Src) -> String {
    const KINDS: usize = 22;
    let first = src.below(KINDS + 2);
    if first >= KINDS {
        // several independent edits
        let a = mutate_fields(j, case, src);
        if src.exhausted() {
            return a;
        }
        let b = mutate_fields(j, case, src);
        return format!("{a}+{b}").chars().take(60).collect();
    }
    // not every edit applies to every box: take the next applicable one (6 always applies)
    for k in 0..KINDS {
        if let Some(l) = mutate_one(j, case, src, (first + k) % KINDS) {
            return l;
        }
    }
    unreachable!()
}

fn mutate_one(j: &mut JbrdSpec, case: &JpegCase, src: &mut Src, kind: usize) -> Option<String> {
    let typed: Vec<usize> = (0..j.apps.len()).filter(|&i| j.apps[i].ty != 0).collect();
    Some(match kind {
        0 if !typed.is_empty() => {
            // typed APP marker shorter than its fixed signature
            let i = typed[src.below(typed.len())];
            let min = match j.apps[i].ty {
                1 => 17,
                2 => 9,
                _ => 32,
            };
            j.apps[i].length = src.range(1, min - 1) as u32;
            format!("typed-app-too-short(ty{})", j.apps[i].ty)
        }
        1 if case.icc.is_some() => {
            // ICC chunk lengths that only add up after wrapping below zero
            let icc: Vec<usize> = (0..j.apps.len()).filter(|&i| j.apps[i].ty == 1).collect();
            let n = case.icc.as_ref().unwrap().len() as u32;
            let k = src.range(1, 16) as u32;
            if icc.len() == 1 {
                // add a second chunk marker
                let at = j.markers.iter().position(|&m| m == 0xd9).unwrap_or(j.markers.len());
                j.markers.insert(at, 0xe2);
                j.apps.push(JbrdApp { ty: 1, length: 17 - k });
            } else {
                j.apps[icc[1]].length = 17 - k;
                for &i in &icc[2..] {
                    j.apps[i].length = 17;
                }
            }
            j.apps[icc[0]].length = (17 + n + k).min(65536);
            "icc-lengths-wrap".into()
        }
        2 if !j.apps.is_empty() => {
            let i = src.below(j.apps.len());
            j.apps[i].ty = src.range(4, 7) as u32;
            "app-type-reserved".into()
        }
        3 if !j.apps.is_empty() => {
            let i = src.below(j.apps.len());
            j.apps[i].length = if src.bool() { src.range(1, 65536) as u32 } else { (j.apps[i].length as i64 + src.range_i(-3, 3)).clamp(1, 65536) as u32 };
            "app-length-changed".into()
        }
        4 if !j.com_lengths.is_empty() => {
            let i = src.below(j.com_lengths.len());
            j.com_lengths[i] = if src.bool() { src.range(1, 65536) as u32 } else { (j.com_lengths[i] as i64 + src.range_i(-3, 3)).clamp(1, 65536) as u32 };
            "com-length-changed".into()
        }
        5 if !j.intermarker_lengths.is_empty() => {
            let i = src.below(j.intermarker_lengths.len());
            j.intermarker_lengths[i] = src.range(0, 65535) as u32;
            "intermarker-length-changed".into()
        }
        6 => {
            j.tail_length = src.pick(&[0u32, 1, 256, 257, 65792, 65793, 65793 + (1 << 22) - 1, j.tail_length + 1, j.tail_length.saturating_sub(1)]);
            "tail-length-changed".into()
        }
        7 if !j.huff.is_empty() => {
            let i = src.below(j.huff.len());
            match src.below(4) {
                0 => {
                    j.huff[i].counts = [0; 17];
                    j.huff[i].values.clear();
                    "huffman-empty".into()
                }
                1 => {
                    j.huff[i].counts[0] = src.range(1, 3) as u32;
                    for _ in 0..j.huff[i].counts[0] {
                        j.huff[i].values.insert(0, src.below(256) as u32);
                    }
                    "huffman-zero-length-codes".into()
                }
                2 => {
                    // far more codes of a length than a prefix code can have
                    let l = src.range(1, 16) as usize;
                    let add = src.range(1, 200) as u32;
                    j.huff[i].counts[l] = (j.huff[i].counts[l] + add).min(255);
                    let total: u32 = j.huff[i].counts.iter().sum();
                    while (j.huff[i].values.len() as u32) < total {
                        j.huff[i].values.push(src.below(257) as u32);
                    }
                    "huffman-oversubscribed".into()
                }
                _ => {
                    // drop the sentinel
                    j.huff[i].values.pop();
                    if let Some(l) = (1..=16).rev().find(|&l| j.huff[i].counts[l] != 0) {
                        j.huff[i].counts[l] -= 1;
                    }
                    "huffman-no-sentinel".into()
                }
            }
        }
        8 if !j.huff.is_empty() => {
            match src.below(3) {
                0 => {
                    j.huff.last_mut().unwrap().is_last = false;
                    "dht-group-not-terminated".into()
                }
                1 => {
                    let at = src.below(j.markers.len());
                    j.markers.insert(at, 0xc4);
                    "dht-marker-added".into()
                }
                _ => {
                    for h in j.huff.iter_mut() {
                        h.is_last = false;
                    }
                    "dht-no-group-end".into()
                }
            }
        }
        9 if !j.quant.is_empty() => {
            match src.below(4) {
                0 => {
                    j.quant.last_mut().unwrap().is_last = false;
                    "dqt-group-not-terminated".into()
                }
                1 => {
                    let at = src.below(j.markers.len());
                    j.markers.insert(at, 0xdb);
                    "dqt-marker-added".into()
                }
                2 => {
                    let i = src.below(j.quant.len());
                    j.quant[i].index = (j.quant[i].index + 1 + src.below(3) as u8) & 3;
                    "dqt-index-changed".into()
                }
                _ => {
                    let i = src.below(j.quant.len());
                    j.quant[i].precision ^= 1;
                    "dqt-precision-flipped".into()
                }
            }
        }
        10 if !j.scans.is_empty() => {
            let s = src.below(j.scans.len());
            let c = src.below(j.scans[s].comps.len());
            j.scans[s].comps[c].comp_idx = if src.bool() { 3 } else { src.below(4) as u8 };
            "scan-component-index".into()
        }
        11 if !j.scans.is_empty() => {
            let s = src.below(j.scans.len());
            let n = src.range(1, 4) as usize;
            let proto = j.scans[s].comps[0].clone();
            j.scans[s].comps = (0..n).map(|_| JbrdScanComp { comp_idx: src.below(4) as u8, ..proto.clone() }).collect();
            "scan-component-list".into()
        }
        12 if !j.scans.is_empty() => {
            let s = src.below(j.scans.len());
            j.scans[s].ss = src.below(64) as u8;
            j.scans[s].se = src.below(64) as u8;
            j.scans[s].al = src.below(16) as u8;
            j.scans[s].ah = src.below(16) as u8;
            if src.bool() {
                for m in j.markers.iter_mut() {
                    if *m == 0xc0 || *m == 0xc1 {
                        *m = if src.bool() { 0xc2 } else { 0xca };
                    }
                }
                "progressive-parameters(progressive-frame)".into()
            } else {
                "progressive-parameters(sequential-frame)".into()
            }
        }
        13 => {
            let at = src.below(j.markers.len());
            match src.below(4) {
                0 => {
                    j.markers.remove(at);
                    if !j.markers.contains(&0xd9) {
                        j.markers.push(0xd9);
                    }
                    "marker-removed".into()
                }
                1 => {
                    let m = j.markers[src.below(j.markers.len())];
                    j.markers.insert(at, m);
                    "marker-duplicated".into()
                }
                2 => {
                    j.markers.insert(at, src.pick(&[0xc3u8, 0xc8, 0xcc, 0xd0, 0xd7, 0xd8, 0xdc, 0xde, 0xdf, 0xf0, 0xfd]));
                    "marker-unsupported".into()
                }
                _ => {
                    j.markers.insert(at, 0xd9);
                    "early-eoi".into()
                }
            }
        }
        14 => {
            if !j.markers.contains(&0xdd) {
                let at = src.below(j.markers.len());
                j.markers.insert(at, 0xdd);
            }
            j.restart_interval = src.pick(&[0u32, 1, 2, 7, 65535]);
            "restart-interval-changed".into()
        }
        15 => {
            match src.below(3) {
                0 => {
                    let n = j.padding.as_ref().map(|b| b.len()).unwrap_or(0);
                    j.padding = Some(vec![0; src.below(n.max(1))]);
                    "padding-too-short".into()
                }
                1 => {
                    j.padding = Some(vec![]);
                    "padding-empty".into()
                }
                _ => {
                    j.padding = Some(vec![1; src.range(1000, 5000) as usize]);
                    "padding-long".into()
                }
            }
        }
        16 => {
            // component list does not match the frame
            match src.below(3) {
                0 => {
                    j.comp_type = 3;
                    j.comp_ids = vec![1, 2, 3, 4];
                    j.comp_q_idx = vec![0, 1, 2, 3];
                    "four-components".into()
                }
                1 => {
                    j.is_gray = !j.is_gray;
                    "is-gray-flipped".into()
                }
                _ => {
                    if j.comp_ids.len() == 1 {
                        j.comp_type = 1;
                        j.comp_ids = vec![1, 2, 3];
                        j.comp_q_idx = vec![j.comp_q_idx[0]; 3];
                    } else {
                        j.comp_type = 0;
                        j.comp_ids = vec![1];
                        j.comp_q_idx.truncate(1);
                    }
                    "component-count-changed".into()
                }
            }
        }
        17 if !j.scans.is_empty() => {
            let s = src.below(j.scans.len());
            let c = src.below(j.scans[s].comps.len());
            j.scans[s].comps[c].ac_tbl = src.below(4) as u8;
            j.scans[s].comps[c].dc_tbl = src.below(4) as u8;
            "scan-table-selectors".into()
        }
        18 if !j.scans.is_empty() => {
            let s = src.below(j.scans.len());
            let n = src.range(1, 40) as usize;
            let mut b = 0u32;
            j.scans[s].extra_zero_runs = (0..n)
                .map(|_| {
                    b += src.range(1, 9) as u32;
                    (b - 1, src.pick(&[1u32, 2, 3, 4, 5, 20, 275]))
                })
                .collect();
            j.scans[s].reset_points = (0..src.below(20) as u32).map(|k| k * 3).collect();
            "extra-zero-runs".into()
        }
        19 => {
            // data stream shorter / longer than the header says
            match src.below(3) {
                0 => {
                    j.tail_data.extend((0..src.range(1, 40)).map(|_| 0xaa));
                    "data-stream-too-long".into()
                }
                1 => {
                    let d = j.data_stream();
                    let keep = src.below(d.len().max(1));
                    j.app_data = d[..keep].to_vec();
                    j.com_data.clear();
                    j.intermarker_data.clear();
                    j.tail_data.clear();
                    "data-stream-too-short".into()
                }
                _ => {
                    j.app_data.clear();
                    j.com_data.clear();
                    j.intermarker_data.clear();
                    j.tail_data.clear();
                    "data-stream-empty".into()
                }
            }
        }
        20 => {
            // one more SOS marker than scan descriptions follow
            let at = j.markers.len() - 1;
            j.markers.insert(at, 0xda);
            if src.bool() {
                let proto = j.scans.last().cloned().unwrap_or_default();
                j.scans.push(proto);
                "scan-repeated".into()
            } else {
                "sos-marker-added".into()
            }
        }
        21 => {
            // markers of another frame type, APP / COM markers without their descriptions
            let at = src.below(j.markers.len());
            j.markers.insert(at, src.pick(&[0xe0u8, 0xe1, 0xe2, 0xfe, 0xff]));
            "described-marker-added".into()
        }
        _ => return None,
    })
}

fn negative(case: &JpegCase, nsrc: &mut Src, o: &mut Outcome) {
    let (payload0, hdr_len) = (case.boxes[case.jbrd_box].payload.clone(), case.jbrd_header_len);
    let family = nsrc.weighted(&[3, 3, 6, 1, 1, 1]);
    let mut boxes = case.boxes.clone();
    let (label, payload): (String, Vec<u8>) = match family {
        4 => {
            // the boxes around the reconstruction data change instead
            let is = |b: &jxlref::container::RawBox, ty: &[u8; 4]| &b.ty == ty || (&b.ty == b"brob" && b.payload.starts_with(ty));
            let l = match nsrc.below(5) {
                0 if boxes.iter().any(|b| is(b, b"Exif")) => {
                    boxes.retain(|b| !is(b, b"Exif"));
                    "exif-box-removed"
                }
                1 if boxes.iter().any(|b| is(b, b"xml ")) => {
                    boxes.retain(|b| !is(b, b"xml "));
                    "xml-box-removed"
                }
                2 if boxes.iter().any(|b| &b.ty == b"Exif") => {
                    for b in boxes.iter_mut().filter(|b| &b.ty == b"Exif") {
                        match nsrc.below(3) {
                            0 => b.payload.truncate(nsrc.below(4)),
                            1 => b.payload[..4].copy_from_slice(&[0xff; 4]),
                            _ => {
                                let keep = 4 + nsrc.below(b.payload.len() - 3);
                                b.payload.truncate(keep);
                            }
                        }
                    }
                    "exif-box-damaged"
                }
                3 => {
                    let b = boxes[case.jbrd_box].clone();
                    let at = nsrc.below(boxes.len() + 1);
                    boxes.insert(at, b);
                    "jbrd-box-twice"
                }
                _ => {
                    let at = nsrc.below(boxes.len() + 1);
                    boxes.insert(at, jxlref::container::RawBox::new(b"jbrd", vec![]));
                    "jbrd-box-empty-added"
                }
            };
            o.classes.push(format!("neg:boxes/{l}"));
            return run_hostile(case, &format!("boxes/{l}"), &boxes, nsrc, o);
        }
        5 => {
            // reconstruction data of this JPEG next to the codestream of another one
            let other_bytes = nsrc.fork_bytes(600);
            let other = gen_jpeg_case(&mut Src::new(&other_bytes), &JpegGenOpts { max_small_dim: 40, big: 4, multi_lf: 0, max_icc: 400 });
            if other.discard.is_some() {
                o.verdict = Verdict::Discard("second case not produced".into());
                return;
            }
            boxes.retain(|b| &b.ty != b"jxlc" && &b.ty != b"jxlp");
            let mut theirs: Vec<_> = other.boxes.iter().filter(|b| &b.ty == b"jxlc" || &b.ty == b"jxlp").cloned().collect();
            for b in theirs.iter_mut() {
                b.form = jxlref::container::SizeForm::S32;
            }
            if nsrc.bool() {
                boxes.extend(theirs);
            } else {
                boxes.splice(1..1, theirs);
            }
            o.classes.push("neg:foreign-codestream".into());
            return run_hostile(case, "foreign-codestream", &boxes, nsrc, o);
        }
        0 => {
            // truncated box (its size field says so too)
            let at = if nsrc.bool() { nsrc.below(hdr_len + 1) } else { nsrc.below(payload0.len()) };
            (format!("truncated/{}", if at < hdr_len { "in-header" } else { "in-data" }), payload0[..at].to_vec())
        }
        1 => {
            let mut p = payload0.clone();
            let n = 1 + nsrc.below(3);
            let in_header = nsrc.chance(200);
            for _ in 0..n {
                if p.is_empty() {
                    break;
                }
                let k = if in_header { nsrc.below(hdr_len.clamp(1, p.len())) } else { nsrc.below(p.len()) };
                p[k] ^= 1 << nsrc.below(8);
            }
            (format!("bit-flip/{}", if in_header { "header" } else { "anywhere" }), p)
        }
        2 => {
            let mut j = case.jbrd.clone();
            let l = mutate_fields(&mut j, case, nsrc);
            let r = std::panic::catch_unwind(std::panic::AssertUnwindSafe(|| j.payload(nsrc).0));
            match r {
                Ok(p) => (format!("field/{l}"), p),
                Err(_) => {
                    o.verdict = Verdict::Discard("mutated box description not representable".into());
                    return;
                }
            }
        }
        _ => {
            // valid header, damaged Brotli stream
            let mut p = payload0.clone();
            if p.len() > hdr_len {
                match nsrc.below(3) {
                    0 => p.truncate(hdr_len + nsrc.below(p.len() - hdr_len)),
                    1 => {
                        let k = hdr_len + nsrc.below(p.len() - hdr_len);
                        p[k] ^= 1 << nsrc.below(8);
                    }
                    _ => p.extend((0..nsrc.range(1, 30)).map(|_| 0x55)),
                }
            }
            ("brotli-damaged".into(), p)
        }
    };
    o.classes.push(format!("neg:{}", label.split('+').next().unwrap_or("")));
    boxes[case.jbrd_box].payload = payload;
    run_hostile(case, &label, &boxes, nsrc, o)
}

/// Whole-buffer and chunked decoding of a file with hostile reconstruction data: anything but a panic is fine.
fn run_hostile(case: &JpegCase, label: &str, boxes: &[jxlref::container::RawBox], nsrc: &mut Src, o: &mut Outcome) {
    // a to-EOF box in the middle would swallow the boxes behind it
    let mut boxes = boxes.to_vec();
    let n = boxes.len();
    for b in boxes.iter_mut().take(n - 1) {
        if b.form == jxlref::container::SizeForm::ToEof {
            b.form = jxlref::container::SizeForm::S32;
        }
    }
    let file = assemble_file(&boxes);
    // whole file
    let whole = catch(|| -> String {
        // (through the feed interface: `read` stops at the end of the image and would not see later boxes)
        let img = match feed_chunked(&file, &[], &DecodeOpts::default(), |_, _| Ok(())) {
            Ok(Some(i)) => i,
            _ => return "open-error".into(),
        };
        let st = img.jpeg_reconstruction_status();
        let mut out = vec![];
        match img.reconstruct_jpeg(&mut out) {
            Ok(()) => format!("{}+reconstructed{}", status_name(st), if out == case.jpeg { "-identical" } else { "" }),
            Err(_) => format!("{}+error", status_name(st)),
        }
    });
    match whole {
        Ok(r) => o.classes.push(format!("neg-result:{r}")),
        Err(p) => {
            fail(o, format!("hostile:{}", panic_sig(&p)), format!("hostile jbrd box ({label}) in an otherwise valid file: panic {p}; {}", case.desc));
            return;
        }
    }
    // the same file arriving in pieces, a reconstruction attempted whenever the status allows it
    let mut marks = case.marks.clone();
    marks.retain(|&m| m < file.len());
    let mut cuts = gen_cuts(file.len(), &marks, nsrc);
    thin_cuts(&mut cuts, &marks);
    let stride = (cuts.len() / 8).max(1);
    let mut step = 0usize;
    let mut inner_panic: Option<String> = None;
    let chunked = catch(|| {
        let _ = feed_chunked(&file, &cuts, &DecodeOpts::default(), |img, _| {
            step += 1;
            let Some(img) = img else { return Ok(()) };
            let st = img.jpeg_reconstruction_status();
            if st == Status::Available && step % stride == 0 && inner_panic.is_none() {
                let mut out = vec![];
                if let Err(p) = catch(|| {
                    let _ = img.reconstruct_jpeg(&mut out);
                }) {
                    inner_panic = Some(p);
                }
            }
            Ok(())
        });
    });
    if let Some(p) = inner_panic.or(chunked.err()) {
        fail(o, format!("hostile-chunked:{}", panic_sig(&p)), format!("hostile jbrd box ({label}) arriving in chunks (cuts {:?}): panic {p}; {}", &cuts[..cuts.len().min(24)], case.desc));
    }
}

impl Check for C17 {
    fn id(&self) -> &'static str {
        "C17"
    }
    fn plan(&self, tier: Tier) -> Plan {
        Plan { cases: if tier == Tier::Quick { 3_000 } else { 40_000 }, max_len: 8192 }
    }
    fn rule(&self) -> String {
        "choice sequence -> JpegSpec: sequential (SOF0/SOF1, about 60 %) or progressive (SOF2, about 40 %) Huffman JPEG, 1 or 3 components, 4:4:4 / 4:2:0 / 4:2:2 / 4:4:0, any size incl. non-multiples of the MCU, several groups, two LF groups, and (progressive) one-component images of more than 2^14 / 2^15 blocks; 1-3 quantisation tables with 8/16-bit precision in one or several DQT; standard or generated Huffman tables defined up front or redefined per scan; sequential: interleaved / per-component / mixed scans; progressive: generated legal scan scripts (DC first scans interleaved or not with Al 0..2, DC refinement, AC first scans over generated bands with Al 0..3, AC refinement scans over single or merged bands, any legal order, sometimes truncated), end-of-band runs up to 32767 (EOB0..EOB14), runs cut early (reset points: every block, random, periodic), ZRL symbols with pending correction bits, redundant ZRL symbols before the end of band (extra zero runs) in first and refinement scans; restart intervals; JFIF / APPn / COM / Adobe / ICC (multi-chunk) / Exif / XMP segments, inter-marker bytes, padding-bit patterns, trailing bytes; coefficient blocks empty / sparse / dense / long zero runs, DC differences up to +-2047, many small negative odd AC values -> (a) the JPEG file written by jxlref::jpeg from the JPEG standard and read back by an independent reader (discarded unless the coefficients agree), (b) the transcoded container file: jbrd box + Exif/xml boxes (raw or brob) + jxlc/jxlp codestream (VarDCT, DCT8, YCbCr, RAW quantisation weights, neutral or integer chroma-from-luma, ICC in the codestream). Positive: status Available and reconstruct_jpeg == (a) byte for byte. Arrival: the file is fed in generated chunks, status queried after every step: never Invalid, never Unavailable-then-Available, never back from Available; whenever Available a reconstruction attempt must not panic, must not fail with an incomplete/not-found error (nor any other error on a valid file) and an Ok result must equal (a); after the last byte the result equals (a). Negative: the jbrd payload is truncated, bit-flipped, or re-serialised from a field-level mutated description (lengths, types, counts, indices, group terminators, marker list, progressive parameters, ...), boxes removed / doubled, foreign codestream, whole and chunked: Err or any reconstruction, never a panic. Non-trivial: >= 2 blocks with non-zero AC coefficients.".into()
    }
    fn assumptions(&self) -> Vec<String> {
        vec![
            "scope: baseline (SOF0), extended sequential (SOF1) and progressive (SOF2) Huffman JPEG, 8-bit samples; arithmetic, lossless, hierarchical, 12-bit, 4-component and RGB (non-YCbCr) JPEGs are not generated; progressive scan scripts are legal ones (DC first per component, each band refined one bit at a time)".into(),
            "the JPEG writer is independent of the decoder (written from ITU-T T.81); the jbrd field layout follows ISO/IEC 18181-2 as implemented by libjxl (marker byte included in APPn and COM data, sentinel symbol 256 in Huffman codes, padding bits in file order)".into(),
        ]
    }
    fn fixed_cases(&self) -> Vec<(String, Vec<u8>)> {
        // shortest choice sequences found for each defect of the first exploration (2026-09): regressions
        let h = crate::engine::unhex;
        vec![
            ("com-segment-marker-byte".into(), h("596508244ac005e18b62")),
            ("padding-bit-order".into(), h("0000000000000000d16d6c3d00096d1e000000000000000000000000000000004a")),
            ("per-component-scans-422-9x1".into(), h("00000000000000000000000000000000000000000000000000000000000000000000000000000000000000002f0000ab00000000008d0000000000000000000000000000000000000000000061")),
            ("arrival-status-before-frame".into(), h("71")),
            ("arrival-jbrd-data-partial".into(), h("9546b8632deb64c95d7faaac2658703f82")),
            ("arrival-tail-partial".into(), h("c029b2d44cc9a177f3adc14393bd9e9c31")),
            ("hostile-dht-group-not-terminated".into(), h("a4")),
            ("hostile-huffman-empty".into(), h("ac")),
            ("hostile-scan-component-index".into(), h("6a")),
            ("hostile-dqt-group-not-terminated".into(), h("fd")),
            ("hostile-icc-lengths-wrap".into(), h("c3d3164f19b12f246e")),
            ("hostile-app-type-reserved".into(), h("21524a87a54baf4373")),
            ("hostile-progressive-ss-gt-se".into(), h("37028e94")),
            ("hostile-huffman-no-sentinel".into(), h("2149a49022866c9e9d3ca12dcf9c349126f6826d310a52b94bc316a0ec61fb6c99")),
            // progressive files; each fails when the named step of the reconstruction is broken
            // (checked against hand-made mutants of jxl-jbr/src/reconstruct/scan.rs)
            ("progressive-refinement-zrl-with-correction-bits".into(), h("6ba01351a5b8a74244d81627d7c8631608b3ffee59c10fdaa56ed7af92c966ba63430db140dc1c8839480bdb7ac51e88b23d23f7298d906479f1be")),
            ("progressive-refinement-extra-zrl-with-correction-bits".into(), h("a1268b75128d6a4fa39233130f1aa56e809077976bb8447ef0055f9fbeb3db9eee630a53590fccc5fe5af923af435023b3b55d6a06933cbcc2347eb3ff")),
            ("progressive-negative-ac-point-transform".into(), h("7bc770e032ca53fdd59860485bb50bd9e51ee1d4512f7ebf6ab89c53b23caeb26bdd0d7dab1c89b260dced0083e7d8fb1ea55d98429c9680014a680b449d67")),
            ("progressive-eob-run-32767-and-reset-points".into(), h("fffc140b60cd844a837b7795c1255e4c6aa5a73e8fedd22cd2793caeece4bea93c6faa50b5c7eec5e357")),
        ]
    }
    fn run(&self, choice: &[u8], describe: bool) -> Outcome {
        let mut src = Src::new(choice);
        let mode_bytes = src.fork_bytes(160);
        let mut msrc = Src::new(&mode_bytes);
        let case = gen_jpeg_case(&mut src, &JpegGenOpts::default());
        let mut o = Outcome::pass();
        if let Some(why) = &case.discard {
            return Outcome::discard(why.clone());
        }
        o.nontrivial = case.nonzero_ac_blocks >= 2;
        o.classes = case.classes.clone();
        let mut mode = msrc.weighted(&[2, 5, 5]);
        // exploration aid: VERIF_C17_MODE=0|1|2 forces positive-only / arrival / negative
        if let Some(m) = std::env::var("VERIF_C17_MODE").ok().and_then(|v| v.parse::<usize>().ok()) {
            mode = m.min(2);
        }
        o.classes.push(format!("mode:{}", ["positive-only", "arrival", "negative"][mode]));
        o.case_hash = (fnv(&case.jxl) ^ fnv(&mode_bytes).rotate_left(17)) | 1;
        if describe {
            o.describe = Some(json!({"jpeg": case.desc, "classes": o.classes, "jpeg_head_hex": crate::engine::hex(&case.jpeg[..case.jpeg.len().min(64)])}));
        }
        o.classes.push(format!("positive-via:{}", if case.needed_box_after_codestream { "feed(box-after-codestream)" } else { "read" }));
        if case.needed_box_after_codestream {
            // recorded, not judged: what `read` makes of a file whose reconstruction boxes end after the image does
            let r = catch(|| open(&case.jxl, &DecodeOpts::default()).map(|i| i.jpeg_reconstruction_status()));
            o.classes.push(format!("read-with-box-after-codestream:{}", match r { Ok(Ok(st)) => status_name(st).to_string(), Ok(Err(e)) => format!("error({})", crate::checks::short(&e)), Err(_) => "panic".into() }));
        }
        positive(&case, &mut o);
        if !matches!(o.verdict, Verdict::Pass) {
            return o;
        }
        match mode {
            1 => arrival(&case, &mut msrc, &mut o),
            2 => negative(&case, &mut msrc, &mut o),
            _ => {}
        }
        o
    }
}
