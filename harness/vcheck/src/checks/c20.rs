//! C20 — concurrent renders of shared frames run once at a time, agree, and never
//! deadlock.
//!
//! The harness owns the interleaving: caller threads are real threads, but a token
//! scheduler lets exactly one of them run between the scheduling points that the
//! `cfg(jxl_oxide_verif)` hooks expose in the render-handle protocol (before every
//! handle lock, at the condition-variable wait / notify, around each frame's render
//! operation).  The schedule is part of the generated case, so failures shrink and
//! replay.  With pool none the callers are the only threads.

use crate::engine::{Check, Outcome, Plan, Tier, Verdict};
use jxl_oxide::{AllocTracker, JxlImage, JxlThreadPool};
use jxl_render::verif::{set_sched_hooks, SchedHooks};
use jxlref::gen::stream::*;
use jxlref::src::Src;
use serde_json::json;
use std::cell::Cell;
use std::collections::HashMap;
use std::sync::{Arc, Condvar, Mutex};

pub struct C20;

type Bits = Vec<(usize, usize, Vec<u32>)>;

#[derive(Clone, Copy, PartialEq, Debug)]
enum St {
    NotStarted,
    Runnable,
    Waiting(usize),
    Finished,
}

struct State {
    status: Vec<St>,
    current: Option<usize>,
    schedule: Vec<u8>,
    pos: usize,
    deadlock: bool,
    /// frames whose render operation is executing -> by which thread
    active: HashMap<usize, usize>,
    executions: HashMap<usize, usize>,
    double_exec: Option<String>,
    switches: usize,
    switches_while_rendering: usize,
    waits: usize,
    trace: Vec<String>,
}

struct Sched {
    st: Mutex<State>,
    cv: Condvar,
}

thread_local! {
    static TID: Cell<Option<usize>> = const { Cell::new(None) };
}

const DEADLOCK_MSG: &str = "C20-scheduler: deadlock declared";

impl Sched {
    fn new(n: usize, schedule: Vec<u8>) -> Self {
        Sched {
            st: Mutex::new(State { status: vec![St::NotStarted; n], current: None, schedule, pos: 0, deadlock: false, active: HashMap::new(), executions: HashMap::new(), double_exec: None, switches: 0, switches_while_rendering: 0, waits: 0, trace: vec![] }),
            cv: Condvar::new(),
        }
    }

    /// Picks the next thread to run (called with the state locked, by the thread giving up the token).
    fn pick(&self, s: &mut State, me: usize) {
        let runnable: Vec<usize> = (0..s.status.len()).filter(|&i| s.status[i] == St::Runnable).collect();
        if runnable.is_empty() {
            if s.status.iter().any(|x| matches!(x, St::Waiting(_))) {
                s.deadlock = true;
            }
            s.current = None;
            return;
        }
        // schedule byte chooses among the runnable threads; an exhausted schedule keeps the current
        // thread running when it can (no further preemption)
        let next = if s.pos < s.schedule.len() {
            let b = s.schedule[s.pos] as usize;
            s.pos += 1;
            runnable[(b * runnable.len()) >> 8]
        } else if runnable.contains(&me) {
            me
        } else {
            runnable[0]
        };
        if next != me {
            s.switches += 1;
            if !s.active.is_empty() {
                s.switches_while_rendering += 1;
            }
        }
        s.current = Some(next);
    }

    /// Blocks until this thread holds the token.
    fn wait_turn<'a>(&'a self, mut s: std::sync::MutexGuard<'a, State>, me: usize) {
        loop {
            if s.deadlock {
                drop(s);
                panic!("{DEADLOCK_MSG}");
            }
            if s.current == Some(me) && s.status[me] == St::Runnable {
                return;
            }
            s = self.cv.wait(s).unwrap();
        }
    }

    fn thread_start(&self, me: usize) {
        TID.with(|t| t.set(Some(me)));
        let mut s = self.st.lock().unwrap();
        s.status[me] = St::Runnable;
        // the first thread to arrive after everyone registered gets scheduled by `start`
        self.cv.notify_all();
        self.wait_turn(s, me);
    }

    /// Called by the coordinating thread once all callers are parked.
    fn start(&self) {
        let mut s = self.st.lock().unwrap();
        while s.status.iter().any(|x| *x == St::NotStarted) {
            s = self.cv.wait(s).unwrap();
        }
        self.pick(&mut s, usize::MAX);
        self.cv.notify_all();
    }

    fn thread_finish(&self, me: usize) {
        let mut s = self.st.lock().unwrap();
        s.status[me] = St::Finished;
        s.active.retain(|_, t| *t != me);
        self.pick(&mut s, me);
        TID.with(|t| t.set(None));
        self.cv.notify_all();
    }
}

impl SchedHooks for Sched {
    fn yield_point(&self, site: &'static str, frame_idx: usize) {
        let Some(me) = TID.with(|t| t.get()) else { return };
        let mut s = self.st.lock().unwrap();
        if s.trace.len() < 400 {
            s.trace.push(format!("t{me}:{site}({frame_idx})"));
        }
        self.pick(&mut s, me);
        self.cv.notify_all();
        self.wait_turn(s, me);
    }
    fn cv_wait(&self, frame_idx: usize) {
        let Some(me) = TID.with(|t| t.get()) else { return };
        let mut s = self.st.lock().unwrap();
        if s.trace.len() < 400 {
            s.trace.push(format!("t{me}:WAIT({frame_idx})"));
        }
        s.waits += 1;
        s.status[me] = St::Waiting(frame_idx);
        self.pick(&mut s, me);
        self.cv.notify_all();
        self.wait_turn(s, me);
    }
    fn cv_notify(&self, frame_idx: usize) {
        if TID.with(|t| t.get()).is_none() {
            return;
        }
        let mut s = self.st.lock().unwrap();
        for x in s.status.iter_mut() {
            if *x == St::Waiting(frame_idx) {
                *x = St::Runnable;
            }
        }
    }
    fn render_begin(&self, frame_idx: usize) {
        let Some(me) = TID.with(|t| t.get()) else { return };
        let mut s = self.st.lock().unwrap();
        if let Some(&other) = s.active.get(&frame_idx) {
            if s.double_exec.is_none() {
                s.double_exec = Some(format!("frame {frame_idx}: thread {me} starts its render while thread {other} is still executing it"));
            }
        }
        s.active.insert(frame_idx, me);
        *s.executions.entry(frame_idx).or_default() += 1;
        if s.trace.len() < 400 {
            s.trace.push(format!("t{me}:BEGIN({frame_idx})"));
        }
    }
    fn render_end(&self, frame_idx: usize) {
        let Some(me) = TID.with(|t| t.get()) else { return };
        let mut s = self.st.lock().unwrap();
        if s.active.get(&frame_idx) == Some(&me) {
            s.active.remove(&frame_idx);
        }
        if s.trace.len() < 400 {
            s.trace.push(format!("t{me}:END({frame_idx})"));
        }
    }
}

/// The picture as a caller sees it: the planar buffers of the (oriented, region-sized) render.  The raw
/// grids behind it may legitimately cover different areas depending on who asked for the frame first
/// (a frame blended earlier for a patch source caches only that area), so they are not compared.
fn bits_of(r: &jxl_oxide::Render) -> Bits {
    r.image_planar().iter().map(|p| (p.width(), p.height(), p.buf().iter().map(|v| v.to_bits()).collect())).collect()
}

/// Serialises scenarios within one process (the hooks are process-global).
static SCENARIO: Mutex<()> = Mutex::new(());

impl Check for C20 {
    fn id(&self) -> &'static str {
        "C20"
    }
    fn plan(&self, tier: Tier) -> Plan {
        Plan { cases: if tier == Tier::Quick { 30_000 } else { 1_000_000 }, max_len: 6144 }
    }
    fn isolated(&self) -> bool {
        true
    }
    fn deadline(&self) -> std::time::Duration {
        std::time::Duration::from_secs(30)
    }
    fn threads(&self) -> usize {
        16
    }
    fn rule(&self) -> String {
        "choice sequence -> image with reference chains (multi-frame Modular: blending sources, patches from reference-only frames, slots overwritten; weighted up; also single-frame images) with pool none x 2..3 caller threads, each with a program of 1..3 render_frame(k) calls x schedule (generated byte string choosing, at every scheduling point, which runnable caller continues; exhausted = no further preemption) x optional injected failure (one flipped bit in the frame data, or an allocation fault armed at a generated allocation index). A token scheduler behind the cfg(jxl_oxide_verif) hooks runs exactly one caller between scheduling points (before each render-handle lock, at condvar wait/notify, around each frame's render operation). Oracle: (1) the scheduler never finds every unfinished caller waiting (deadlock / lost wake-up) and every caller returns; (2) every Ok result is bit-identical to the single-threaded render of that keyframe; without an injected allocation fault a caller gets Err only for keyframes whose single-threaded render fails; (3) no frame's render operation starts while another thread is executing the same frame's render operation. Non-trivial: at least one caller actually waited on a handle that another caller held in the Rendering state (so a context switch happened inside the protocol); distinct by FNV of (stream, programs, schedule).".into()
    }
    fn assumptions(&self) -> Vec<String> {
        vec![
            "preemption only at the hook points (the protocol's synchronisation points); memory is sequentially consistent under the token scheduler; real-thread interleavings with rayon pools are sampled by C07".into(),
            "the substituted wait has the semantics of Condvar::wait without spurious wake-ups".into(),
        ]
    }
    fn run(&self, choice: &[u8], describe: bool) -> Outcome {
        let mut src = Src::new(choice);
        let cb = src.fork_bytes(512);
        let mut csrc = Src::new(&cb);
        let mut o = Outcome::pass();
        let mut ao = AnyOpts::default();
        ao.weights = [1, 8, 1];
        ao.modular.max_dim = 64;
        ao.vardct.boundary = 8;
        ao.vardct.big_square = 0;
        ao.vardct.multi_lf_group = 0;
        ao.multi.max_dim = 24;
        let c = gen_any_case(&mut src, &ao);
        let header_len = c.header_len;
        let (mut bytes, mut classes, desc) = (c.bytes, c.classes, c.desc);
        classes.retain(|c| c.starts_with("frames:") || c == "patches" || c.starts_with("image:") || c == "reference-only" || c == "crop" || c.starts_with("keyframes:"));
        let inject = csrc.weighted(&[5, 2, 2]);
        if inject == 1 && bytes.len() > header_len + 8 {
            // one flipped bit somewhere in the frame data (headers stay valid)
            let pos = header_len + 4 + csrc.below(bytes.len() - header_len - 4);
            bytes[pos] ^= 1 << csrc.below(8);
            classes.push("inject:corrupted-byte".into());
        }
        if let Ok(p) = std::env::var("VERIF_DUMP") {
            let _ = std::fs::write(p, &bytes);
        }
        // single-threaded baseline (no hooks installed for this thread: TID is None)
        let open_img = |tracker: AllocTracker| JxlImage::builder().pool(JxlThreadPool::none()).alloc_tracker(tracker).read(std::io::Cursor::new(&bytes[..]));
        let t0 = AllocTracker::with_limit(1 << 30);
        let base_img = match open_img(t0.clone()) {
            Ok(i) => i,
            Err(_) => {
                o.classes = classes;
                o.classes.push("rejected-at-load".into());
                return o;
            }
        };
        let n_read = t0.verif_alloc_calls();
        let nk = base_img.num_loaded_keyframes();
        if nk == 0 {
            o.classes = classes;
            return o;
        }
        // a panic of the single-threaded render on a corrupted stream is C01's business, not a scheduling result
        let baseline = std::panic::catch_unwind(std::panic::AssertUnwindSafe(|| (0..nk).map(|k| base_img.render_frame(k).map(|r| bits_of(&r)).map_err(|e| e.to_string())).collect::<Vec<Result<Bits, String>>>()));
        let baseline = match baseline {
            Ok(b) => b,
            Err(_) => {
                if let Ok(dir) = std::env::var("VERIF_SAVE_PANICS") {
                    let _ = std::fs::create_dir_all(&dir);
                    let _ = std::fs::write(format!("{dir}/c20-{:016x}.jxl", crate::engine::fnv(&bytes)), &bytes);
                }
                std::mem::forget(base_img);
                o.verdict = Verdict::Discard("single-threaded render of the corrupted stream panics (reported under C01)".into());
                return o;
            }
        };
        let n_total = t0.verif_alloc_calls();
        drop(base_img);

        let n_threads = csrc.range(2, 3) as usize;
        let programs: Vec<Vec<usize>> = (0..n_threads).map(|_| (0..csrc.range(1, 3)).map(|_| csrc.below(nk)).collect()).collect();
        let sched_len = if csrc.chance(40) { csrc.range(0, 8) as usize } else { csrc.range(8, 400) as usize };
        let schedule: Vec<u8> = (0..sched_len).map(|_| csrc.byte()).collect();
        let fault_at = if inject == 2 && n_total > n_read {
            classes.push("inject:alloc-fault".into());
            Some(n_read + csrc.below(n_total - n_read))
        } else {
            None
        };
        o.case_hash = (crate::engine::fnv(&bytes) ^ crate::engine::fnv(&cb)) | 1;
        if describe {
            o.describe = Some(json!({"image": desc, "programs": programs, "schedule": schedule, "fault_at": fault_at}));
        }

        let _one = SCENARIO.lock().unwrap_or_else(|e| e.into_inner());
        let tracker = AllocTracker::with_limit(1 << 30);
        // a third of the scenarios load the image progressively with one loading render on the way, so that the
        // handles of the frames loaded then start from a progressive render cache
        let tail = src.tail_fork_bytes(12);
        let progressive = tail[8] % 3 == 0 && bytes.len() > header_len + 2;
        let image = if progressive {
            let cut = header_len + 1 + ((tail[9] as usize | (tail[10] as usize) << 8) * (bytes.len() - header_len - 1) >> 16);
            classes.push("loaded-with-loading-render".into());
            crate::util::open_with_loading_render(&bytes, cut, JxlImage::builder().pool(JxlThreadPool::none()).alloc_tracker(tracker.clone()), || (), || ()).map_err(|_| ())
        } else {
            open_img(tracker.clone()).map_err(|_| ())
        };
        let image = match image {
            Ok(i) => i,
            Err(_) => {
                o.classes = classes;
                return o;
            }
        };
        if let Some(k) = fault_at {
            tracker.verif_set_fail_from(k);
        }
        let sched = Arc::new(Sched::new(n_threads, schedule.clone()));
        set_sched_hooks(Some(sched.clone() as Arc<dyn SchedHooks>));
        let results: Vec<Result<Vec<Result<Bits, String>>, String>> = std::thread::scope(|s| {
            let hs: Vec<_> = (0..n_threads)
                .map(|t| {
                    let sched = sched.clone();
                    let prog = programs[t].clone();
                    let image = &image;
                    s.spawn(move || {
                        sched.thread_start(t);
                        let r = std::panic::catch_unwind(std::panic::AssertUnwindSafe(|| prog.iter().map(|&k| image.render_frame(k).map(|r| bits_of(&r)).map_err(|e| e.to_string())).collect::<Vec<_>>()));
                        sched.thread_finish(t);
                        r.map_err(|p| p.downcast_ref::<String>().cloned().or_else(|| p.downcast_ref::<&str>().map(|s| s.to_string())).unwrap_or_else(|| "panic".into()))
                    })
                })
                .collect();
            sched.start();
            hs.into_iter().map(|h| h.join().unwrap_or_else(|_| Err("join failed".into()))).collect()
        });
        set_sched_hooks(None);
        let st = sched.st.lock().unwrap();
        let trace = || st.trace.join(" ");
        o.classes = classes;
        if st.deadlock {
            let waiting: Vec<String> = st.status.iter().enumerate().map(|(i, s)| format!("t{i}:{s:?}")).collect();
            o.nontrivial = true;
            o.verdict = Verdict::Fail { sig: "deadlock".into(), detail: format!("every unfinished caller is waiting on a render handle and nobody can notify: {waiting:?}; programs={programs:?} schedule={schedule:?} fault_at={fault_at:?}; trace: {}; {desc}", trace()) };
            return o;
        }
        if let Some(d) = &st.double_exec {
            o.nontrivial = true;
            o.verdict = Verdict::Fail { sig: "frame-rendered-twice-concurrently".into(), detail: format!("{d}; programs={programs:?} schedule={schedule:?}; trace: {}; {desc}", trace()) };
            return o;
        }
        for (t, r) in results.iter().enumerate() {
            let rs = match r {
                Ok(rs) => rs,
                Err(p) => {
                    o.nontrivial = true;
                    o.verdict = Verdict::Fail { sig: format!("caller-panicked: {}", crate::checks::short(p)), detail: format!("caller {t} panicked: {p}; programs={programs:?} schedule={schedule:?} fault_at={fault_at:?}; trace: {}; {desc}", trace()) };
                    return o;
                }
            };
            for (i, got) in rs.iter().enumerate() {
                let k = programs[t][i];
                match (got, &baseline[k]) {
                    (Ok(g), Ok(w)) => {
                        if g != w {
                            let mut first = String::new();
                            for (c, (a, b)) in g.iter().zip(w.iter()).enumerate() {
                                if (a.0, a.1) != (b.0, b.1) {
                                    first = format!("channel {c}: size {}x{} vs {}x{}", a.0, a.1, b.0, b.1);
                                    break;
                                }
                                if let Some(i) = a.2.iter().zip(&b.2).position(|(x, y)| x != y) {
                                    first = format!("channel {c} sample {i}: {} vs {} (bits {:08x} vs {:08x}); {} samples differ", f32::from_bits(a.2[i]), f32::from_bits(b.2[i]), a.2[i], b.2[i], a.2.iter().zip(&b.2).filter(|(x, y)| x != y).count());
                                    break;
                                }
                            }
                            let detail_first = first;
                            o.nontrivial = true;
                            o.verdict = Verdict::Fail { sig: "samples-differ".into(), detail: format!("caller {t} call {i} (keyframe {k}): Ok but differs from the single-threaded render [{detail_first}]; programs={programs:?} schedule={schedule:?} fault_at={fault_at:?}; trace: {}; {desc}", trace()) };
                            return o;
                        }
                    }
                    (Ok(_), Err(e)) => {
                        o.nontrivial = true;
                        o.verdict = Verdict::Fail { sig: "ok-where-single-threaded-fails".into(), detail: format!("caller {t} call {i} (keyframe {k}) returned Ok, single-threaded render fails with {e}; {desc}") };
                        return o;
                    }
                    (Err(e), Ok(_)) => {
                        if fault_at.is_none() {
                            o.nontrivial = true;
                            o.verdict = Verdict::Fail { sig: format!("err-where-single-threaded-succeeds: {}", crate::checks::short(e)), detail: format!("caller {t} call {i} (keyframe {k}) failed with {e}, single-threaded render succeeds; programs={programs:?} schedule={schedule:?}; trace: {}; {desc}", trace()) };
                            return o;
                        }
                    }
                    (Err(_), Err(_)) => {}
                }
            }
        }
        o.nontrivial = st.switches > 0 && st.waits > 0;
        if st.waits > 0 {
            o.classes.push("a-caller-waited".into());
        }
        if st.switches_while_rendering > 0 {
            o.classes.push("switch-while-rendering".into());
        }
        if st.executions.values().any(|&n| n > 1) {
            o.classes.push("frame-rendered-again-later".into());
        }
        o.classes.push(format!("callers:{n_threads}"));
        o.classes.push(format!("switches:{}", match st.switches { 0 => "0", 1..=3 => "1-3", 4..=15 => "4-15", _ => "16+" }));
        o.classes.sort();
        o.classes.dedup();
        o
    }
}
