//! C16 — inverse block transforms match their mathematical definition.
//!
//! Entry points under test: `jxl_render::verif::transform_varblocks_generic`
//! and `transform_varblocks_arch` (LLF-from-LF followed by the in-place
//! inverse transform of every varblock of a block-info grid, three channels).
//! Oracle: `jxlref::models::idct` (f64, from the definitions) plus invariants
//! that use no table of either side.

use crate::engine::{Check, Outcome, Plan, Tier, Verdict};
use jxl_grid::{MutableSubgrid, SharedSubgrid};
use jxl_modular::ChannelShift;
use jxl_render::verif::{transform_varblocks_arch, transform_varblocks_generic};
use jxl_vardct::{BlockInfo, TransformType};
use jxlref::models::idct::{self, Family, NUM_TYPES, TYPES};
use jxlref::src::Src;
use serde_json::{json, Value};
use std::sync::atomic::{AtomicU64, AtomicU8, Ordering};

pub struct C16;

// ---------------------------------------------------------------------------
// Frozen tolerances.  Calibrated on the unchanged tree (3 thorough runs, seeds 0-2, 1.2 million
// cases, plus the quick runs of seeds 0-3): every constant is at least 4x the worst ratio observed
// for the comparison with the model and at least 8x the worst generic-vs-arch ratio (that
// comparison uses half the tolerance).  The observed maxima and the margins of the current run
// are written to the evidence file.  c = the effective coefficient block (after the LLF corner
// has been derived from the LF samples), N = samples in the varblock.  Every operation of the
// transforms is linear and homogeneous, so no absolute term is needed beyond guarding 0 <= 0.

/// Tolerances per transform family: (family, K2, K1).  A sample may differ from the model by at most
/// min(K2 * sqrt(N) * |c|_2, K1 * |c|_1) + ABS_FLOOR.  Both products bound the largest sample the
/// block can produce (|sample| <= 2 |c|_1 <= 2 sqrt(N) |c|_2), so both are relative to the output
/// scale; the l1 form is the sharper one for sparse blocks (an impulse), the l2 form for dense ones.
const K_TABLE: [(&str, f64, f64); 11] = [
    ("hornuss", 2.0e-7, 1.5e-6),
    ("dct2x2", 4.0e-7, 3.0e-6),
    ("dct4x4", 6.0e-7, 4.0e-6),
    ("dct4x8/8x4", 1.2e-6, 8.0e-6),
    ("afv", 6.0e-7, 3.0e-6),
    ("dct8x8", 2.2e-6, 1.0e-5),
    ("dct16", 9.0e-6, 7.0e-5),
    ("dct32", 1.0e-5, 7.0e-5),
    ("dct64", 2.0e-5, 1.6e-4),
    ("dct128", 3.2e-5, 3.2e-4),
    ("dct256", 6.5e-5, 8.0e-4),
];
fn k_ref(t: usize) -> (f64, f64) {
    let f = family_name(t);
    let e = K_TABLE.iter().find(|e| e.0 == f).expect("family in table");
    (e.1, e.2)
}
/// Tolerance against the model for a block whose effective coefficients have the given norms;
/// the generic and the arch path must agree within half of it.
fn tol_ref(t: usize, n: usize, l2: f64, l1: f64) -> f64 {
    let (k2, k1) = k_ref(t);
    (k2 * (n as f64).sqrt() * l2).min(k1 * l1) + ABS_FLOOR
}
const ABS_FLOOR: f64 = 1e-12;
/// |<r_a, r_b> - expected| <= K_GRAM * N * (|r_a| + |r_b|) for unit impulse responses.
const K_GRAM: f64 = 1.0e-7;

// ---------------------------------------------------------------------------
// Run statistics (for the evidence file).

const Z: AtomicU64 = AtomicU64::new(0);
const Z3: [AtomicU64; 3] = [Z; 3];
/// max observed |diff| / (sqrt(N) |c|_2) per type: [generic-model, arch-model, generic-arch]
static MAX_RATIO: [[AtomicU64; 3]; NUM_TYPES] = [Z3; NUM_TYPES];
static MAX_GRAM: [AtomicU64; NUM_TYPES] = [Z; NUM_TYPES];
/// the same relative to |c|_1
static MAX_RATIO1: [[AtomicU64; 3]; NUM_TYPES] = [Z3; NUM_TYPES];
static BLOCKS: AtomicU64 = AtomicU64::new(0);
static IMPULSE_POSITIONS: AtomicU64 = AtomicU64::new(0);
static TIER: AtomicU8 = AtomicU8::new(0);

fn note_max(a: &AtomicU64, v: f64) {
    // non-negative finite f64 order like their bit patterns
    if v.is_finite() && v >= 0.0 {
        a.fetch_max(v.to_bits(), Ordering::Relaxed);
    }
}

// ---------------------------------------------------------------------------

struct Sm(u64);
impl Sm {
    fn next(&mut self) -> u64 {
        self.0 = self.0.wrapping_add(0x9E3779B97F4A7C15);
        let mut z = self.0;
        z = (z ^ (z >> 30)).wrapping_mul(0xBF58476D1CE4E5B9);
        z = (z ^ (z >> 27)).wrapping_mul(0x94D049BB133111EB);
        z ^ (z >> 31)
    }
    /// uniform in [-1, 1)
    fn unit(&mut self) -> f64 {
        (self.next() >> 11) as f64 / (1u64 << 52) as f64 - 1.0
    }
    fn below(&mut self, n: usize) -> usize {
        (self.next() % n as u64) as usize
    }
}

fn tt(t: usize) -> TransformType {
    TransformType::try_from(t as u8).expect("0..27 are the defined transform types")
}

/// Selection weights per type index (256-sized ones are the expensive tail).
const TYPE_WEIGHTS: [u32; NUM_TYPES] = [
    30, 30, 30, 30, // DCT8 Hornuss DCT2 DCT4
    30, 20, 30, 30, // 16x16 32x32 16x8 8x16
    20, 20, 20, 20, // 32x8 8x32 32x16 16x32
    30, 30, 30, 30, 30, 30, // 4x8 8x4 AFV0-3
    10, 10, 10, // 64x64 64x32 32x64
    4, 4, 4, // 128
    2, 2, 2, // 256
];

const SMALL_TYPES: [usize; 10] = [0, 1, 2, 3, 12, 13, 14, 15, 16, 17];

#[derive(Clone, Copy, Debug, PartialEq, Eq)]
enum Kind {
    Zero,
    Impulse,
    Sparse,
    Dense,
    Decay,
    Large,
    Peak,
}

impl Kind {
    fn name(self) -> &'static str {
        match self {
            Kind::Zero => "lf-only",
            Kind::Impulse => "impulse",
            Kind::Sparse => "sparse",
            Kind::Dense => "dense",
            Kind::Decay => "quantised-decay",
            Kind::Large => "large-magnitude",
            Kind::Peak => "single-sample-peak",
        }
    }
}

#[derive(Clone, Debug)]
struct Content {
    kind: Kind,
    seed: u64,
    pos: usize,
    mag: f32,
    scale: f32,
    count: usize,
}

fn gen_content(src: &mut Src, t: usize, heavy_ok: bool) -> Content {
    let ti = &TYPES[t];
    let (w, h) = (ti.width(), ti.height());
    let kind = if heavy_ok {
        [Kind::Zero, Kind::Impulse, Kind::Sparse, Kind::Dense, Kind::Decay, Kind::Large, Kind::Peak][src.weighted(&[1, 4, 3, 3, 1, 1, 1])]
    } else {
        [Kind::Zero, Kind::Impulse, Kind::Sparse][src.weighted(&[2, 3, 1])]
    };
    let mut c = Content { kind, seed: 0, pos: 0, mag: 1.0, scale: 1.0, count: 0 };
    match kind {
        Kind::Zero => {}
        Kind::Impulse => {
            let pick_axis = |src: &mut Src, n: usize, llf: usize| -> usize {
                match src.weighted(&[2, 3]) {
                    0 => [0, 1, llf % n, n - 1, n / 2, n / 2 - 1, 2, 3 % n][src.below(8)],
                    _ => src.below(n),
                }
            };
            let u = pick_axis(src, w, ti.bw8);
            let v = pick_axis(src, h, ti.bh8);
            c.pos = v * w + u;
            c.mag = [1.0f32, -1.0, 0.5, 255.0, 1.0e-3, -3.75][src.below(6)];
        }
        Kind::Sparse => {
            c.seed = src.u64();
            c.count = src.range(2, 16) as usize;
            c.scale = [1.0f32, 64.0, 1.0 / 256.0][src.below(3)];
        }
        Kind::Dense => {
            c.seed = src.u64();
            c.scale = [1.0f32, 1.0 / 64.0, 1000.0][src.below(3)];
        }
        Kind::Decay => {
            c.seed = src.u64();
            c.scale = [1.0f32, 1.0 / 32.0][src.below(2)];
        }
        Kind::Large => {
            c.seed = src.u64();
            c.count = if src.bool() { 0 } else { src.range(2, 12) as usize };
            c.scale = (2.0f32).powi(src.range(20, 40) as i32);
        }
        Kind::Peak => {
            c.pos = src.below(h) * w + src.below(w);
            c.scale = [1.0f32, -0.125, 100.0][src.below(3)];
            c.count = src.below(2);
        }
    }
    c
}

fn make_coeffs(c: &Content, w: usize, h: usize) -> Vec<f32> {
    let n = w * h;
    let mut out = vec![0.0f32; n];
    let mut rng = Sm(c.seed);
    match c.kind {
        Kind::Zero => {}
        Kind::Impulse => out[c.pos] = c.mag,
        Kind::Sparse => {
            for _ in 0..c.count {
                let p = rng.below(n);
                out[p] = (rng.unit() as f32) * c.scale;
            }
        }
        Kind::Dense => {
            for o in out.iter_mut() {
                *o = (rng.unit() as f32) * c.scale;
            }
        }
        Kind::Decay => {
            // integer-valued, falling off with frequency: what dequantised data looks like
            for v in 0..h {
                for u in 0..w {
                    let amp = 96.0 / (1.0 + (u * 8 / w.max(8)) as f64 + (v * 8 / h.max(8)) as f64 + (u + v) as f64 * 0.5);
                    out[v * w + u] = ((rng.unit() * amp).round() as f32) * c.scale;
                }
            }
        }
        Kind::Large => {
            if c.count == 0 {
                for o in out.iter_mut() {
                    *o = (rng.unit() as f32) * c.scale;
                }
            } else {
                for _ in 0..c.count {
                    let p = rng.below(n);
                    out[p] = (rng.unit() as f32) * c.scale;
                }
                // one small value next to the huge ones
                let p = rng.below(n);
                out[p] = rng.unit() as f32;
            }
        }
        Kind::Peak => {
            // all coefficients add up coherently in one sample: the forward transform of a
            // single-sample block (count = 0), or simply every coefficient equal (count = 1)
            let (x0, y0) = (c.pos % w, c.pos / w);
            for v in 0..h {
                for u in 0..w {
                    let b = if c.count == 0 { idct::basis(w, u, x0) * idct::basis(h, v, y0) } else { 1.0 };
                    out[v * w + u] = (b as f32) * c.scale;
                }
            }
        }
    }
    out
}

// ---------------------------------------------------------------------------
// Buffer placement.

#[derive(Clone, Copy, Debug)]
struct Place {
    /// offset (in floats) of the buffer start from a 32-byte boundary
    lead: usize,
    x0: usize,
    y0: usize,
    stride: usize,
}

impl Place {
    fn aligned(gw: usize) -> Place {
        Place { lead: 0, x0: 0, y0: 0, stride: gw.next_multiple_of(8) }
    }
    fn origin(&self) -> usize {
        self.lead + self.y0 * self.stride + self.x0
    }
    fn len(&self, gw: usize, gh: usize) -> usize {
        self.origin() + (gh - 1) * self.stride + gw + 24
    }
    fn class(&self, gw: usize) -> &'static str {
        let o = self.origin();
        let sub = self.x0 != 0 || self.y0 != 0 || self.stride > gw.next_multiple_of(8);
        if o % 8 == 0 && self.stride % 8 == 0 {
            if sub { "place:aligned32+subgrid" } else { "place:aligned32" }
        } else if o % 4 == 0 && self.stride % 4 == 0 {
            if sub { "place:aligned16+subgrid" } else { "place:aligned16" }
        } else if self.stride % 4 != 0 {
            "place:stride-not-vector-multiple(generic fallback)"
        } else {
            "place:origin-misaligned(generic fallback)"
        }
    }
}

fn gen_place(src: &mut Src, gw: usize) -> Place {
    let r8 = gw.next_multiple_of(8);
    match src.weighted(&[4, 1, 2, 2, 3]) {
        0 => Place { lead: 0, x0: 0, y0: 0, stride: r8 + 8 * src.below(3) },
        1 => Place { lead: 4, x0: 0, y0: 0, stride: r8 + 4 * src.below(3) },
        2 => Place { lead: 1 + src.below(3), x0: 0, y0: 0, stride: r8 + 8 * src.below(2) },
        3 => Place { lead: [0, 4][src.below(2)], x0: 0, y0: src.below(3), stride: gw + 1 + src.below(7) },
        _ => {
            let x0 = [8usize, 16, 4, 12, 1, 2, 3, 5, 7][src.below(9)];
            let y0 = src.below(4);
            let stride = if src.bool() { (x0 + gw).next_multiple_of(8) + 8 * src.below(3) } else { x0 + gw + src.below(9) };
            Place { lead: 0, x0, y0, stride }
        }
    }
}

/// A float buffer whose logical index 0 sits on a 32-byte boundary.
struct AlignedStore {
    v: Vec<f32>,
    base: usize,
    len: usize,
}

impl AlignedStore {
    fn from_logical(data: &[f32]) -> AlignedStore {
        let mut v = vec![0.0f32; data.len() + 8];
        let addr = v.as_ptr() as usize;
        let base = ((32 - addr % 32) % 32) / 4;
        v[base..base + data.len()].copy_from_slice(data);
        AlignedStore { v, base, len: data.len() }
    }
    fn logical(&self) -> &[f32] {
        &self.v[self.base..self.base + self.len]
    }
}

fn canary(i: usize) -> f32 {
    -7000.0 - (i % 251) as f32
}

// ---------------------------------------------------------------------------
// One call of the entry points.

struct ChanSpec {
    cw8: usize,
    ch8: usize,
    place: Place,
    coeff: Vec<f32>, // logical buffer (canaries + blocks)
    lf_stride: usize,
    lf_origin: usize,
    lf: Vec<f32>, // logical LF buffer
}

struct GridSpec {
    w8: usize,
    h8: usize,
    bi: Vec<BlockInfo>,
    bi_stride: usize,
    bi_origin: usize,
    shifts: [ChannelShift; 3],
    chans: [ChanSpec; 3],
}

/// Runs both paths on private copies; returns the logical coefficient buffers afterwards
/// (`[path][channel]`, path 0 = generic, 1 = arch).
fn run_paths(g: &GridSpec) -> [[Vec<f32>; 3]; 2] {
    let mut result: [[Vec<f32>; 3]; 2] = Default::default();
    for (path, slot) in result.iter_mut().enumerate() {
        let mut stores: Vec<AlignedStore> = g.chans.iter().map(|c| AlignedStore::from_logical(&c.coeff)).collect();
        let lf_stores: Vec<AlignedStore> = g.chans.iter().map(|c| AlignedStore::from_logical(&c.lf)).collect();
        {
            let bi = SharedSubgrid::from_buf(&g.bi[g.bi_origin..], g.w8, g.h8, g.bi_stride);
            let lf: [SharedSubgrid<f32>; 3] = std::array::from_fn(|c| {
                let ch = &g.chans[c];
                let s = &lf_stores[c];
                SharedSubgrid::from_buf(&s.v[s.base + ch.lf_origin..s.base + s.len], ch.cw8, ch.ch8, ch.lf_stride)
            });
            let mut it = stores.iter_mut();
            let mut co: [MutableSubgrid<'_, f32>; 3] = std::array::from_fn(|c| {
                let ch = &g.chans[c];
                let s = it.next().unwrap();
                let (b, l) = (s.base, s.len);
                MutableSubgrid::from_buf(&mut s.v[b + ch.place.origin()..b + l], ch.cw8 * 8, ch.ch8 * 8, ch.place.stride)
            });
            if path == 0 {
                transform_varblocks_generic(&lf, &mut co, g.shifts, &bi);
            } else {
                transform_varblocks_arch(&lf, &mut co, g.shifts, &bi);
            }
        }
        for c in 0..3 {
            slot[c] = stores[c].logical().to_vec();
        }
    }
    result
}

/// A varblock as one channel sees it.
#[derive(Clone, Debug)]
struct PlacedBlock {
    t: usize,
    chan: usize,
    /// position in the channel's own 8x8-block grid
    sbx: usize,
    sby: usize,
    coeff: Vec<f32>,
    kind: Kind,
}

fn block_index(p: &Place, sbx: usize, sby: usize, x: usize, y: usize) -> usize {
    p.origin() + (sby * 8 + y) * p.stride + sbx * 8 + x
}

fn fail(o: &mut Outcome, sig: String, detail: String) {
    if !matches!(o.verdict, Verdict::Fail { .. }) {
        o.verdict = Verdict::Fail { sig, detail };
        o.nontrivial = true;
    }
}

fn l2(v: &[f64]) -> f64 {
    v.iter().map(|x| x * x).sum::<f64>().sqrt()
}

fn max_diff(a: &[f64], b: &[f64]) -> (f64, usize) {
    let mut worst = (0.0f64, 0usize);
    for i in 0..a.len() {
        let d = (a[i] - b[i]).abs();
        if !(d <= worst.0) {
            worst = (d, i);
        }
    }
    worst
}

struct BlockResult {
    generic: Vec<f64>,
    arch: Vec<f64>,
    eff_norm: f64,
    tol: f64,
}

/// Compare one varblock of both outputs with the model and with each other.
fn verify_block(o: &mut Outcome, g: &GridSpec, outs: &[[Vec<f32>; 3]; 2], b: &PlacedBlock) -> Option<BlockResult> {
    let ti = &TYPES[b.t];
    let (w, h, n) = (ti.width(), ti.height(), ti.num_samples());
    let ch = &g.chans[b.chan];
    let coeff: Vec<f64> = b.coeff.iter().map(|&x| x as f64).collect();
    let mut lf = vec![0.0f64; ti.bw8 * ti.bh8];
    for j in 0..ti.bh8 {
        for i in 0..ti.bw8 {
            lf[j * ti.bw8 + i] = ch.lf[ch.lf_origin + (b.sby + j) * ch.lf_stride + b.sbx + i] as f64;
        }
    }
    let (want, eff) = idct::inverse_with_lf(b.t, &coeff, &lf);
    let eff_norm = l2(&eff);
    let eff_l1: f64 = eff.iter().map(|x| x.abs()).sum();
    let scale = (n as f64).sqrt() * eff_norm;
    let tol_model = tol_ref(b.t, n, eff_norm, eff_l1);
    let grab = |buf: &Vec<f32>| -> Vec<f64> {
        let mut px = vec![0.0f64; n];
        for y in 0..h {
            for x in 0..w {
                px[y * w + x] = buf[block_index(&ch.place, b.sbx, b.sby, x, y)] as f64;
            }
        }
        px
    };
    let generic = grab(&outs[0][b.chan]);
    let arch = grab(&outs[1][b.chan]);
    BLOCKS.fetch_add(1, Ordering::Relaxed);
    let ctx = |i: usize| format!("sample ({}, {}) of {} block at ({}, {}) channel {} [{}], N={n} |c|_2={eff_norm:.6e} |c|_1={eff_l1:.6e}", i % w, i / w, ti.name, b.sbx, b.sby, b.chan, b.kind.name());
    for (which, (a, bb, tol)) in [(&generic, &want, tol_model), (&arch, &want, tol_model), (&generic, &arch, tol_model / 2.0)].into_iter().enumerate() {
        let name = ["generic-vs-definition", "arch-vs-definition", "generic-vs-arch"][which];
        let (d, i) = max_diff(a, bb);
        if scale > 0.0 && d.is_finite() {
            note_max(&MAX_RATIO[b.t][which], d / scale);
            note_max(&MAX_RATIO1[b.t][which], d / eff_l1);
        }
        if !(d <= tol) {
            fail(o, format!("{}:{}", ti.name, name), format!("|{:.9e} - {:.9e}| = {:.3e} > tol {:.3e} (ratio to sqrt(N)|c|_2 = {:.3e}, to |c|_1 = {:.3e}) at {}", a[i], bb[i], d, tol, d / scale, d / eff_l1, ctx(i)));
            return None;
        }
    }
    Some(BlockResult { generic, arch, eff_norm, tol: tol_model })
}

/// Everything outside the processed varblocks must be bit-identical to what was put in.
fn verify_untouched(o: &mut Outcome, g: &GridSpec, outs: &[[Vec<f32>; 3]; 2], blocks: &[PlacedBlock]) {
    for c in 0..3 {
        let ch = &g.chans[c];
        let mut inside = vec![false; ch.coeff.len()];
        for b in blocks.iter().filter(|b| b.chan == c) {
            let ti = &TYPES[b.t];
            for y in 0..ti.height() {
                for x in 0..ti.width() {
                    inside[block_index(&ch.place, b.sbx, b.sby, x, y)] = true;
                }
            }
        }
        for (path, name) in ["generic", "arch"].iter().enumerate() {
            let after = &outs[path][c];
            for i in 0..after.len() {
                if !inside[i] && after[i].to_bits() != ch.coeff[i].to_bits() {
                    let rel = i as isize - ch.place.origin() as isize;
                    fail(o, format!("write-outside-block:{name}"), format!("channel {c}: buffer element {i} (offset {rel} from the grid origin, stride {}) changed from {} to {}; blocks: {:?}", ch.place.stride, ch.coeff[i], after[i], blocks.iter().filter(|b| b.chan == c).map(|b| (TYPES[b.t].name, b.sbx, b.sby)).collect::<Vec<_>>()));
                    return;
                }
            }
        }
    }
}

/// Invariants on the implementation's output that use no table of either side.
fn verify_invariants(o: &mut Outcome, g: &GridSpec, b: &PlacedBlock, r: &BlockResult) {
    let ti = &TYPES[b.t];
    let (w, n) = (ti.width(), ti.num_samples());
    let ch = &g.chans[b.chan];
    let scale = (n as f64).sqrt() * r.eff_norm;
    let tol = r.tol;
    let lf_at = |i: usize, j: usize| ch.lf[ch.lf_origin + (b.sby + j) * ch.lf_stride + b.sbx + i] as f64;
    for (name, px) in [("generic", &r.generic), ("arch", &r.arch)] {
        if b.kind == Kind::Zero {
            // LF only: the 8x8 box averages reproduce the LF samples (for a constant LF: a constant block)
            let constant = (0..ti.bh8).all(|j| (0..ti.bw8).all(|i| lf_at(i, j) == lf_at(0, 0)));
            if constant {
                o.classes.push("invariant:constant".into());
                for (i, p) in px.iter().enumerate() {
                    if !((p - lf_at(0, 0)).abs() <= tol) {
                        fail(o, format!("{}:constant-block:{name}", ti.name), format!("LF = {} everywhere, no other coefficient, but sample ({}, {}) = {}", lf_at(0, 0), i % w, i / w, p));
                        return;
                    }
                }
            }
            if ti.is_plain_dct() || constant {
                o.classes.push("invariant:box-average".into());
                for j in 0..ti.bh8 {
                    for i in 0..ti.bw8 {
                        let mut m = 0.0;
                        for y in 0..8 {
                            for x in 0..8 {
                                m += px[(j * 8 + y) * w + i * 8 + x];
                            }
                        }
                        m /= 64.0;
                        if !((m - lf_at(i, j)).abs() <= tol) {
                            fail(o, format!("{}:box-average:{name}", ti.name), format!("8x8 box ({i}, {j}) of an LF-only block averages to {m}, LF sample is {}", lf_at(i, j)));
                            return;
                        }
                    }
                }
            }
        }
        if ti.is_plain_dct() && r.eff_norm > 0.0 {
            // Parseval: |samples|_2 = sqrt(N) |c|_2
            let got = l2(px);
            let rel = (got / scale - 1.0).abs();
            if !(rel <= k_ref(b.t).0 * (n as f64).sqrt() * 2.0 + 1e-9) {
                fail(o, format!("{}:parseval:{name}", ti.name), format!("|samples| = {got:.9e}, sqrt(N)|c| = {scale:.9e}, relative difference {rel:.3e}"));
                return;
            }
        }
    }
}

// ---------------------------------------------------------------------------
// Generated cases.

struct Hasher(u64);
impl Hasher {
    fn add(&mut self, v: u64) {
        for b in v.to_le_bytes() {
            self.0 ^= b as u64;
            self.0 = self.0.wrapping_mul(0x100000001b3);
        }
    }
}

fn gen_lf(src: &mut Src, n: usize) -> (Vec<f32>, &'static str) {
    let kind = src.weighted(&[2, 2, 5, 1]);
    let seed = if kind >= 2 { src.u64() } else { 0 };
    let mut rng = Sm(seed);
    match kind {
        0 => (vec![0.0; n], "lf:zero"),
        1 => {
            let v = [0.5f32, -1.0, 0.001, 37.25][src.below(4)];
            (vec![v; n], "lf:constant")
        }
        2 => ((0..n).map(|_| rng.unit() as f32).collect(), "lf:random"),
        _ => ((0..n).map(|_| (rng.unit() * 1.0e9) as f32).collect(), "lf:large"),
    }
}

impl C16 {
    fn run_generated(&self, src: &mut Src, o: &mut Outcome, describe: bool) {
        let mut hash = Hasher(0xcbf29ce484222325);
        let t_main = src.weighted(&TYPE_WEIGHTS);
        let tm = &TYPES[t_main];
        let small_main = tm.bw8 * tm.bh8 == 1;
        let shifted = small_main && src.chance(50);

        // ---- block layout -------------------------------------------------
        let (w8, h8, cells, ju): (usize, usize, Vec<(usize, usize, usize)>, [u32; 3]);
        if shifted {
            let mut j = [src.below(4) as u32, src.below(4) as u32, src.below(4) as u32];
            if j.iter().all(|&x| x == 0) {
                j[src.below(3)] = 1 + src.below(3) as u32; // make sure something is subsampled
            }
            let hs = j.iter().any(|&v| v == 1 || v == 2);
            let vs = j.iter().any(|&v| v == 1 || v == 3);
            let mut ww = src.range(1, 4) as usize;
            let mut hh = src.range(1, 4) as usize;
            if hs {
                ww = ww.next_multiple_of(2);
            }
            if vs {
                hh = hh.next_multiple_of(2);
            }
            let mut cs = vec![];
            for by in 0..hh {
                for bx in 0..ww {
                    let t = if bx == 0 && by == 0 { t_main } else { SMALL_TYPES[src.below(SMALL_TYPES.len())] };
                    cs.push((bx, by, t));
                }
            }
            (w8, h8, cells, ju) = (ww, hh, cs, j);
            o.classes.push("layout:subsampled-tiling".into());
        } else {
            let bx0 = src.weighted(&[6, 2, 1]);
            let by0 = src.weighted(&[6, 2, 1]);
            let padx = src.weighted(&[5, 2, 1]);
            let pady = src.weighted(&[5, 2, 1]);
            let ww = bx0 + tm.bw8 + padx;
            let hh = by0 + tm.bh8 + pady;
            let mut cs = vec![(bx0, by0, t_main)];
            let filler = src.chance(100);
            if filler {
                for by in 0..hh {
                    for bx in 0..ww {
                        let in_main = bx >= bx0 && bx < bx0 + tm.bw8 && by >= by0 && by < by0 + tm.bh8;
                        if !in_main && src.chance(180) {
                            cs.push((bx, by, SMALL_TYPES[src.below(SMALL_TYPES.len())]));
                        }
                    }
                }
            }
            o.classes.push(if cs.len() > 1 { "layout:main+fillers".into() } else if ww * hh > tm.bw8 * tm.bh8 { "layout:single-in-larger-grid".into() } else { "layout:single".to_string() });
            (w8, h8, cells, ju) = (ww, hh, cs, [0, 0, 0]);
        }
        let shifts: [ChannelShift; 3] = std::array::from_fn(|c| ChannelShift::from_jpeg_upsampling(ju, c));
        let sh: [(usize, usize); 3] = std::array::from_fn(|c| (shifts[c].hshift() as usize, shifts[c].vshift() as usize));
        hash.add(w8 as u64 | (h8 as u64) << 16 | (ju[0] as u64) << 32 | (ju[1] as u64) << 36 | (ju[2] as u64) << 40);

        // ---- block info grid (a window into a larger array, traps outside) -------
        let bi_stride = w8 + src.below(3);
        let bi_origin = src.below(2) * bi_stride + src.below(bi_stride - w8 + 1);
        let trap = BlockInfo::Data { dct_select: TransformType::Dct256, hf_mul: 1 };
        let mut bi = vec![trap; bi_origin + h8 * bi_stride + 4];
        for by in 0..h8 {
            for bx in 0..w8 {
                bi[bi_origin + by * bi_stride + bx] = BlockInfo::Uninit;
            }
        }
        for &(bx, by, t) in &cells {
            let ti = &TYPES[t];
            for dy in 0..ti.bh8 {
                for dx in 0..ti.bw8 {
                    bi[bi_origin + (by + dy) * bi_stride + bx + dx] = BlockInfo::Occupied;
                }
            }
            bi[bi_origin + by * bi_stride + bx] = BlockInfo::Data { dct_select: tt(t), hf_mul: 1 + src.below(4) as i32 };
            hash.add((bx as u64) << 8 | (by as u64) << 16 | t as u64);
        }

        // ---- channels -----------------------------------------------------------
        let rich_chan = src.below(3);
        o.classes.push(format!("rich-channel:{rich_chan}"));
        let mut blocks: Vec<PlacedBlock> = vec![];
        let mut lf_notes = vec![];
        let chans: [ChanSpec; 3] = std::array::from_fn(|c| {
            let (hs, vs) = sh[c];
            let cw8 = (w8 + (1 << hs) - 1) >> hs;
            let ch8 = (h8 + (1 << vs) - 1) >> vs;
            let (gw, gh) = (cw8 * 8, ch8 * 8);
            let place = gen_place(src, gw);
            hash.add(place.lead as u64 | (place.x0 as u64) << 8 | (place.y0 as u64) << 16 | (place.stride as u64) << 24);
            let mut coeff: Vec<f32> = (0..place.len(gw, gh)).map(canary).collect();
            for &(bx, by, t) in &cells {
                if bx % (1 << hs) != 0 || by % (1 << vs) != 0 {
                    continue;
                }
                let ti = &TYPES[t];
                let (sbx, sby) = (bx >> hs, by >> vs);
                let heavy_ok = ti.num_samples() <= 1024 || c == rich_chan;
                let content = gen_content(src, t, heavy_ok);
                hash.add(content.seed ^ (content.pos as u64) << 3 ^ (content.mag.to_bits() as u64) << 20 ^ (content.scale.to_bits() as u64) << 7 ^ content.kind as u64);
                let data = make_coeffs(&content, ti.width(), ti.height());
                for y in 0..ti.height() {
                    for x in 0..ti.width() {
                        coeff[block_index(&place, sbx, sby, x, y)] = data[y * ti.width() + x];
                    }
                }
                blocks.push(PlacedBlock { t, chan: c, sbx, sby, coeff: data, kind: content.kind });
            }
            let lf_stride = cw8 + src.below(4);
            let lf_origin = src.below(3);
            let (mut vals, mut note) = gen_lf(src, cw8 * ch8);
            if !shifted && tm.is_plain_dct() && tm.bw8 * tm.bh8 > 1 && src.chance(40) {
                // the main block's LF window holds one basis function of the bw8 x bh8 DCT:
                // a single LLF coefficient
                let (bx0, by0, _) = cells[0];
                let (u0, v0) = (src.below(tm.bw8), src.below(tm.bh8));
                let amp = [1.0f64, -0.25, 300.0][src.below(3)];
                for j in 0..tm.bh8 {
                    for i in 0..tm.bw8 {
                        vals[(by0 + j) * cw8 + bx0 + i] = (amp * idct::basis(tm.bw8, u0, i) * idct::basis(tm.bh8, v0, j)) as f32;
                    }
                }
                note = "lf:single-llf-coefficient";
            }
            lf_notes.push(note);
            let mut lf: Vec<f32> = (0..lf_origin + ch8 * lf_stride + 2).map(canary).collect();
            for y in 0..ch8 {
                for x in 0..cw8 {
                    lf[lf_origin + y * lf_stride + x] = vals[y * cw8 + x];
                    hash.add(vals[y * cw8 + x].to_bits() as u64);
                }
            }
            ChanSpec { cw8, ch8, place, coeff, lf_stride, lf_origin, lf }
        });
        let g = GridSpec { w8, h8, bi, bi_stride, bi_origin, shifts, chans };

        // ---- evidence ---------------------------------------------------------------
        o.classes.push(format!("type:{}", tm.name));
        let mut seen = std::collections::BTreeSet::new();
        for b in &blocks {
            if seen.insert((b.t, b.kind as usize)) {
                o.classes.push(format!("block:{}", b.kind.name()));
                if b.t != t_main {
                    o.classes.push(format!("filler-type:{}", TYPES[b.t].name));
                }
            }
        }
        for c in 0..3 {
            o.classes.push(g.chans[c].place.class(g.chans[c].cw8 * 8).to_string());
            o.classes.push(lf_notes[c].to_string());
        }
        if shifted {
            for c in 0..3 {
                o.classes.push(format!("channel-subsampling:{}{}", if sh[c].0 == 1 { "h" } else { "-" }, if sh[c].1 == 1 { "v" } else { "-" }));
            }
        }
        o.nontrivial = blocks.iter().any(|b| {
            let nz: Vec<usize> = b.coeff.iter().enumerate().filter(|(_, &v)| v != 0.0).map(|(i, _)| i).collect();
            nz.len() >= 2 || (nz.len() == 1 && nz[0] != 0)
        });
        o.case_hash = hash.0 | 1;
        if describe {
            o.describe = Some(json!({
                "grid_8x8_blocks": [w8, h8],
                "jpeg_upsampling": ju,
                "varblocks": cells.iter().map(|&(bx, by, t)| json!({"at": [bx, by], "type": TYPES[t].name})).collect::<Vec<_>>(),
                "channels": (0..3).map(|c| json!({
                    "shift": [sh[c].0, sh[c].1],
                    "placement": format!("{:?}", g.chans[c].place),
                    "placement_class": g.chans[c].place.class(g.chans[c].cw8 * 8),
                    "lf": lf_notes[c],
                    "blocks": blocks.iter().filter(|b| b.chan == c).map(|b| {
                        let nz: Vec<(usize, f32)> = b.coeff.iter().copied().enumerate().filter(|x| x.1 != 0.0).take(6).collect();
                        json!({"type": TYPES[b.t].name, "at": [b.sbx, b.sby], "kind": b.kind.name(), "first_nonzero": format!("{nz:?}")})
                    }).collect::<Vec<_>>(),
                })).collect::<Vec<_>>(),
            }));
        }

        // ---- run and judge ------------------------------------------------------------
        let outs = run_paths(&g);
        verify_untouched(o, &g, &outs, &blocks);
        for b in &blocks {
            if let Some(r) = verify_block(o, &g, &outs, b) {
                verify_invariants(o, &g, b, &r);
            }
        }
    }
}

// ---------------------------------------------------------------------------
// Impulse sweeps (fixed cases): every position for blocks up to 32x32, a
// deterministic sample above; Gram matrix of the responses against the value
// the definition implies.

fn sweep_positions(t: usize, level: u8) -> Vec<usize> {
    let ti = &TYPES[t];
    let (w, h, n) = (ti.width(), ti.height(), ti.num_samples());
    if n <= 1024 {
        return (0..n).collect();
    }
    let count = match (level, n <= 4096) {
        (0, true) => 192,
        (0, false) => 72,
        (_, true) => 2048,
        (_, false) => 640,
    };
    let mut set = std::collections::BTreeSet::new();
    for &(u, v) in &[(0, 0), (ti.bw8, 0), (0, ti.bh8), (ti.bw8 - 1, ti.bh8 - 1), (1, 1), (w - 1, 0), (0, h - 1), (w - 1, h - 1), (w / 2, h / 2), (w / 2 - 1, 1), (1, h / 2 + 1), (ti.bw8, ti.bh8)] {
        set.insert(v * w + u);
    }
    // the LLF corner: both axes and the diagonal touch every ScaleF entry of either dimension;
    // the thorough tier takes the whole corner
    for v in 0..ti.bh8 {
        for u in 0..ti.bw8 {
            if level > 0 || u == 0 || v == 0 || u * ti.bh8 == v * ti.bw8 {
                set.insert(v * w + u);
            }
        }
    }
    let count = count + set.len();
    let mut rng = Sm(0xC16 + t as u64);
    while set.len() < count.min(n) {
        // half of the draws hug the axes, where the recursion's odd/even split is deepest
        let (u, v) = match rng.below(4) {
            0 => (rng.below(w), rng.below(4)),
            1 => (rng.below(4), rng.below(h)),
            _ => (rng.below(w), rng.below(h)),
        };
        set.insert(v * w + u);
    }
    set.into_iter().collect()
}

fn single_block_grid(t: usize, place: Place, coeffs: [&[f32]; 3], lfs: [&[f32]; 3]) -> (GridSpec, Vec<PlacedBlock>) {
    let ti = &TYPES[t];
    let (gw, gh) = (ti.width(), ti.height());
    let mut bi = vec![BlockInfo::Occupied; ti.bw8 * ti.bh8];
    bi[0] = BlockInfo::Data { dct_select: tt(t), hf_mul: 1 };
    let mut blocks = vec![];
    let chans: [ChanSpec; 3] = std::array::from_fn(|c| {
        let mut coeff: Vec<f32> = (0..place.len(gw, gh)).map(canary).collect();
        for y in 0..gh {
            for x in 0..gw {
                coeff[block_index(&place, 0, 0, x, y)] = coeffs[c][y * gw + x];
            }
        }
        blocks.push(PlacedBlock { t, chan: c, sbx: 0, sby: 0, coeff: coeffs[c].to_vec(), kind: Kind::Impulse });
        ChanSpec { cw8: ti.bw8, ch8: ti.bh8, place, coeff, lf_stride: ti.bw8, lf_origin: 0, lf: lfs[c].to_vec() }
    });
    let shifts = [ChannelShift::from_shift(0); 3];
    (GridSpec { w8: ti.bw8, h8: ti.bh8, bi, bi_stride: ti.bw8, bi_origin: 0, shifts, chans }, blocks)
}

fn run_sweep(t: usize, level: u8, o: &mut Outcome, describe: bool) {
    let ti = &TYPES[t];
    let (w, n) = (ti.width(), ti.num_samples());
    let positions = sweep_positions(t, level);
    let gw = ti.width();
    let places = [
        ("aligned32", Place::aligned(gw)),
        ("misaligned", Place { lead: 1, x0: 0, y0: 1, stride: gw.next_multiple_of(8) + 8 }),
    ];
    o.nontrivial = true;
    o.classes.push(format!("sweep:{}", ti.name));
    o.case_hash = 0xC16_0000 + t as u64 * 4 + level as u64;
    let mut gram_checked = 0u64;
    for (pi, (pname, place)) in places.iter().enumerate() {
        // responses kept for the Gram matrix: arch path on the aligned placement (vector code),
        // generic path on the misaligned one
        let keep_path = if pi == 0 { 1 } else { 0 };
        let mut kept: Vec<(usize, Vec<f64>)> = vec![];
        for trio in positions.chunks(3) {
            let mut coeffs: [Vec<f32>; 3] = std::array::from_fn(|_| vec![0.0f32; n]);
            let mut lfs: [Vec<f32>; 3] = std::array::from_fn(|_| vec![0.0f32; ti.bw8 * ti.bh8]);
            for (c, &a) in trio.iter().enumerate() {
                let (u, v) = (a % w, a / w);
                if u < ti.bw8 && v < ti.bh8 {
                    // inside the LLF corner: the coefficient comes from the LF image; an LF image
                    // that is the (u, v) basis function of the bw8 x bh8 DCT yields exactly that
                    // one LLF coefficient (times 1 / ScaleF)
                    for j in 0..ti.bh8 {
                        for i in 0..ti.bw8 {
                            lfs[c][j * ti.bw8 + i] = (idct::basis(ti.bw8, u, i) * idct::basis(ti.bh8, v, j)) as f32;
                        }
                    }
                } else {
                    coeffs[c][a] = 1.0;
                }
            }
            let (g, blocks) = single_block_grid(t, *place, [&coeffs[0], &coeffs[1], &coeffs[2]], [&lfs[0], &lfs[1], &lfs[2]]);
            let outs = run_paths(&g);
            verify_untouched(o, &g, &outs, &blocks);
            for (c, &a) in trio.iter().enumerate() {
                let Some(r) = verify_block(o, &g, &outs, &blocks[c]) else {
                    if let Verdict::Fail { detail, .. } = &mut o.verdict {
                        detail.push_str(&format!("; unit impulse at coefficient ({}, {}), placement {pname}", a % w, a / w));
                    }
                    return;
                };
                IMPULSE_POSITIONS.fetch_add(1, Ordering::Relaxed);
                let (u, v) = (a % w, a / w);
                if !(u < ti.bw8 && v < ti.bh8) && idct::impulse_gram(t, a, a).is_some() {
                    kept.push((a, if keep_path == 1 { r.arch } else { r.generic }));
                }
            }
            if matches!(o.verdict, Verdict::Fail { .. }) {
                return;
            }
        }
        // Gram matrix
        let norms: Vec<f64> = kept.iter().map(|(a, _)| idct::impulse_gram(t, *a, *a).unwrap().sqrt()).collect();
        for i in 0..kept.len() {
            for j in i..kept.len() {
                let want = idct::impulse_gram(t, kept[i].0, kept[j].0).unwrap();
                let got: f64 = kept[i].1.iter().zip(&kept[j].1).map(|(x, y)| x * y).sum();
                let unit = n as f64 * (norms[i] + norms[j]);
                let d = (got - want).abs();
                note_max(&MAX_GRAM[t], d / unit);
                gram_checked += 1;
                if !(d <= K_GRAM * unit) {
                    let (a, b) = (kept[i].0, kept[j].0);
                    fail(o, format!("{}:impulse-gram:{}", ti.name, if keep_path == 1 { "arch" } else { "generic" }), format!("<response of coefficient ({}, {}), response of ({}, {})> = {got:.9e}, the definition implies {want} (tolerance {:.3e}), placement {pname}", a % w, a / w, b % w, b / w, K_GRAM * unit));
                    return;
                }
            }
        }
    }
    if describe {
        o.describe = Some(json!({"sweep": ti.name, "impulse_positions": positions.len(), "exhaustive": positions.len() == n, "placements": ["aligned32", "misaligned"], "gram_entries_checked": gram_checked}));
    }
}

/// Self-checks of the model that the oracle rests on (cheap, run once per invocation).
fn run_model_selfcheck(o: &mut Outcome) {
    o.classes.push("model-selfcheck".into());
    o.nontrivial = true;
    o.case_hash = 0xC16_FFFF;
    let d = idct::afv_orthonormality_defect();
    if !(d < 1e-12) {
        return fail(o, "model:afv-basis-not-orthonormal".into(), format!("max |<row_i,row_j> - delta| = {d:e}"));
    }
    // separable evaluation = literal quadruple sum
    let mut rng = Sm(16);
    for &(w, h) in &[(8usize, 8usize), (16, 8), (8, 16), (4, 8), (32, 8)] {
        let c: Vec<f64> = (0..w * h).map(|_| rng.unit()).collect();
        let (d, _) = max_diff(&idct::idct2d(&c, w, h), &idct::idct2d_naive(&c, w, h));
        if !(d < 1e-12) {
            return fail(o, "model:separable-vs-naive".into(), format!("{w}x{h}: {d:e}"));
        }
    }
    // LF-only blocks: box averages reproduce LF (derivation of ScaleF), all 27 types
    for t in 0..NUM_TYPES {
        let ti = &TYPES[t];
        if ti.num_samples() > 128 * 128 {
            continue;
        }
        let lf: Vec<f64> = (0..ti.bw8 * ti.bh8).map(|_| if ti.is_plain_dct() { rng.unit() } else { 0.625 }).collect();
        let (px, _) = idct::inverse_with_lf(t, &vec![0.0; ti.num_samples()], &lf);
        for j in 0..ti.bh8 {
            for i in 0..ti.bw8 {
                let mut m = 0.0;
                for y in 0..8 {
                    for x in 0..8 {
                        m += px[(j * 8 + y) * ti.width() + i * 8 + x];
                    }
                }
                if !((m / 64.0 - lf[j * ti.bw8 + i]).abs() < 1e-11) {
                    return fail(o, "model:box-average".into(), format!("{} box ({i},{j}): {} vs {}", ti.name, m / 64.0, lf[j * ti.bw8 + i]));
                }
            }
        }
    }
}

fn family_name(t: usize) -> &'static str {
    match TYPES[t].family {
        Family::Dct => match TYPES[t].num_samples() {
            64 => "dct8x8",
            128..=256 => "dct16",
            257..=1024 => "dct32",
            1025..=4096 => "dct64",
            4097..=16384 => "dct128",
            _ => "dct256",
        },
        Family::Hornuss => "hornuss",
        Family::Dct2x2 => "dct2x2",
        Family::Dct4x4 => "dct4x4",
        Family::Dct4x8 | Family::Dct8x4 => "dct4x8/8x4",
        Family::Afv(_) => "afv",
    }
}

impl Check for C16 {
    fn id(&self) -> &'static str {
        "C16"
    }
    fn plan(&self, tier: Tier) -> Plan {
        TIER.store(if tier == Tier::Quick { 0 } else { 1 }, Ordering::Relaxed);
        Plan { cases: if tier == Tier::Quick { 20_000 } else { 400_000 }, max_len: 2048 }
    }
    fn fixed_cases(&self) -> Vec<(String, Vec<u8>)> {
        let level = TIER.load(Ordering::Relaxed);
        let mut v = vec![("model-selfcheck".to_string(), b"\xffM".to_vec())];
        for t in 0..NUM_TYPES {
            v.push((format!("impulse-sweep-{}", TYPES[t].name), vec![0xff, b'S', t as u8, level]));
        }
        v
    }
    fn rule(&self) -> String {
        format!("choice sequence -> block-info grid holding one main varblock (27 types, weights fall with size; optional 8x8-family filler varblocks; or a full tiling of 8x8-family types under a generated jpeg_upsampling triple) x per channel and varblock a coefficient block {{LF only, unit/scaled impulse at a generated position, sparse, dense, integer-valued with frequency decay, magnitudes to 2^40, all coefficients adding up in one sample}} derived from a splitmix64 seeded from the choices x LF image {{zero, constant, random, 1e9-scale, one basis function of the bw8 x bh8 DCT = a single LLF coefficient}} x buffer placement {{32-byte aligned, 16-byte aligned, origin offset by 1-3 floats, stride not a multiple of 4, window at (x0, y0) of a wider buffer}}; both entry points run on private copies. Fixed cases: per type a unit-impulse sweep (every position up to 32x32, a deterministic sample above; LLF-corner positions driven through an LF image that yields that single LLF coefficient: both axes and the diagonal of the corner in the quick tier, the whole corner in the thorough tier) on an aligned and a misaligned placement with the Gram matrix of the responses. Oracle: |out - ref| <= min(K2 * sqrt(N) * |c|_2, K1 * |c|_1) + {ABS_FLOOR:e} ((family, K2, K1) = {K_TABLE:?}) against jxlref::models::idct (f64, from the definitions; c = coefficients after LLF-from-LF), generic vs arch within half of that; every buffer element outside the processed varblocks bit-identical; invariants without shared tables: LF-only block -> 8x8 box averages equal the LF samples (constant LF -> constant block), Parseval for plain DCTs, impulse responses orthogonal with the norms the definitions imply (|gram - expected| <= {K_GRAM:e} * N * (|r_a| + |r_b|)). Non-trivial: some varblock with >= 2 non-zero coefficients or a non-zero coefficient away from (0,0); distinct by FNV of layout, placements, contents and LF values.")
    }
    fn assumptions(&self) -> Vec<String> {
        vec![
            "coefficient layout at this entry point: a W x H array in the orientation of the sample block (horizontal frequency along x); the codestream's transposed storage of blocks with rows >= columns is undone by coefficient decoding (jxl-vardct hf_coeff.rs, need_transpose) before this point and is not exercised here".into(),
            "the pseudo-code of the 8x8-family transforms (DCT2x2 pyramid sign pattern, which interleaved coefficient feeds which 4x4/4x8 sub-block, the transposed 4x4 sub-blocks, Hornuss' swapped (0,0)/(1,1) residual, the AFV DC mixing) is written from the format definition as I know it; it coincides with libjxl's behaviour".into(),
            "the AFV basis is a table fixed by the format; it is transcribed (as f64) and checked for orthonormality; a digit wrong in both transcriptions would be seen only by the orthonormality/Gram invariants".into(),
            "chroma subsampling is exercised only for grids tiled entirely by 8x8-family varblocks: a subsampled channel transforms block (bx >> h, by >> v) with the type stored at (bx, by) for bx, by multiples of the subsampling factor; larger varblocks under subsampling are not generated because their layout cannot be established from the definition".into(),
            "inputs are finite with magnitudes in [1e-3 .. 2^40]; NaN/infinite/sub-normal coefficients are outside the claim".into(),
            "only the x86_64 arch path (SSE2/SSE4.1, selected at run time) is reachable on this machine; the aarch64 and wasm32 files are not compiled".into(),
        ]
    }
    fn run(&self, choice: &[u8], describe: bool) -> Outcome {
        let mut o = Outcome::pass();
        if choice.len() >= 2 && choice[0] == 0xff && choice[1] == b'M' {
            run_model_selfcheck(&mut o);
            return o;
        }
        if choice.len() >= 4 && choice[0] == 0xff && choice[1] == b'S' && (choice[2] as usize) < NUM_TYPES {
            run_sweep(choice[2] as usize, choice[3].min(1), &mut o, describe);
            return o;
        }
        let mut src = Src::new(choice);
        self.run_generated(&mut src, &mut o, describe);
        o.classes.sort();
        o.classes.dedup();
        o
    }
    fn extra_coverage(&self) -> Vec<(String, Value)> {
        // observed maxima of max|diff| / (sqrt(N)|c|_2) ("l2") and max|diff| / |c|_1 ("l1")
        let names = ["generic_vs_definition", "arch_vs_definition", "generic_vs_arch"];
        let mut per_type = serde_json::Map::new();
        let mut fam: std::collections::BTreeMap<&str, [f64; 7]> = Default::default();
        for t in 0..NUM_TYPES {
            let r2: Vec<f64> = (0..3).map(|k| f64::from_bits(MAX_RATIO[t][k].load(Ordering::Relaxed))).collect();
            let r1: Vec<f64> = (0..3).map(|k| f64::from_bits(MAX_RATIO1[t][k].load(Ordering::Relaxed))).collect();
            let gr = f64::from_bits(MAX_GRAM[t].load(Ordering::Relaxed));
            let mut m = serde_json::Map::new();
            for k in 0..3 {
                m.insert(format!("{}_l2", names[k]), json!(r2[k]));
                m.insert(format!("{}_l1", names[k]), json!(r1[k]));
            }
            m.insert("gram".into(), json!(gr));
            per_type.insert(TYPES[t].name.into(), Value::Object(m));
            let e = fam.entry(family_name(t)).or_insert([0.0; 7]);
            for k in 0..3 {
                e[k] = e[k].max(r2[k]);
                e[3 + k] = e[3 + k].max(r1[k]);
            }
            e[6] = e[6].max(gr);
        }
        let mut fam_json = serde_json::Map::new();
        for (f, v) in fam {
            let (k2, k1) = K_TABLE.iter().find(|e| e.0 == f).map(|e| (e.1, e.2)).unwrap();
            // margin = frozen tolerance / worst observed; for the path comparison the tolerance is halved
            let margin = |k: f64, obs: f64| if obs > 0.0 { json!(((k / obs) * 10.0).round() / 10.0) } else { json!("inf") };
            fam_json.insert(
                f.to_string(),
                json!({
                    "K2": k2, "K1": k1,
                    "observed_l2": {"generic_vs_definition": v[0], "arch_vs_definition": v[1], "generic_vs_arch": v[2]},
                    "observed_l1": {"generic_vs_definition": v[3], "arch_vs_definition": v[4], "generic_vs_arch": v[5]},
                    "margin_l2": {"vs_definition": margin(k2, v[0].max(v[1])), "generic_vs_arch": margin(k2 / 2.0, v[2])},
                    "margin_l1": {"vs_definition": margin(k1, v[3].max(v[4])), "generic_vs_arch": margin(k1 / 2.0, v[5])},
                    "observed_gram": v[6], "margin_gram": margin(K_GRAM, v[6]),
                }),
            );
        }
        vec![
            ("varblocks_checked".into(), json!(BLOCKS.load(Ordering::Relaxed))),
            ("sweep_impulse_positions".into(), json!(IMPULSE_POSITIONS.load(Ordering::Relaxed))),
            ("frozen_tolerances".into(), json!({"rule": "|diff| <= min(K2 * sqrt(N) * |c|_2, K1 * |c|_1) + ABS_FLOOR; generic vs arch: half of it", "K_GRAM": K_GRAM, "ABS_FLOOR": ABS_FLOOR})),
            ("tolerances_and_observed_maxima_per_family".into(), Value::Object(fam_json)),
            ("observed_max_ratio_per_type".into(), Value::Object(per_type)),
        ]
    }
}
