//! C10 — container framing: codestream and boxes are recovered for every layout.

use crate::engine::{Check, Outcome, Plan, Tier};
use jxl_bitstream::{ContainerParser, ParseEvent};
use jxlref::chunk::{chunks, gen_cuts};
use jxlref::container::*;
use jxlref::src::Src;
use serde_json::json;

pub struct C10;

#[derive(Clone, Debug, PartialEq, Eq)]
pub struct AuxExpect {
    pub ty: [u8; 4],
    pub brotli: bool,
    pub wire_payload: Vec<u8>,
    pub ended: bool,
    pub last_box: bool,
}

pub struct Layout {
    pub file: Vec<u8>,
    pub codestream: Vec<u8>,
    pub aux: Vec<AuxExpect>,
    pub illformed: Option<&'static str>,
    pub marks: Vec<usize>,
    pub desc: Vec<String>,
    pub has64: bool,
    pub n_boxes: usize,
    /// true when the physically last box of the file is an aux box (a streaming
    /// parser cannot emit its End event before it sees what follows).
    pub last_is_aux: bool,
}

fn gen_payload(src: &mut Src, max: usize) -> Vec<u8> {
    let n = match src.weighted(&[3, 4, 2, 1]) {
        0 => 0,
        1 => src.range(1, 24) as usize,
        2 => src.range(1, 300.min(max as u64)) as usize,
        _ => src.range(1, max as u64) as usize,
    };
    let mode = src.below(3);
    (0..n)
        .map(|i| match mode {
            0 => src.byte(),
            1 => (i as u8).wrapping_mul(31).wrapping_add(7),
            // payloads that look like box headers / signatures
            _ => [0u8, 0, 0, 1, b'j', b'x', b'l', b'c', 0, 0, 0, 8, 0xff, 0x0a][i % 14],
        })
        .collect()
}

const AUX_TYPES: [&[u8; 4]; 8] = [b"Exif", b"xml ", b"jumb", b"jxli", b"jhgm", b"abcd", b"\0\0\0\0", b"\xff\xfe\x01\x02"];

fn gen_form(src: &mut Src, last: bool) -> SizeForm {
    if last && src.chance(80) {
        return SizeForm::ToEof;
    }
    if src.chance(64) {
        SizeForm::S64
    } else {
        SizeForm::S32
    }
}

pub fn gen_layout(src: &mut Src) -> Layout {
    let mut file = SIGNATURE_BOX.to_vec();
    let mut marks = vec![file.len()];
    let mut desc = vec![];
    let mut codestream = vec![];
    let mut aux = vec![];
    let mut has64 = false;

    // ill-formed variant?
    let ill: Option<&'static str> = if src.chance(64) {
        Some(src.pick(&[
            "dup_jxlc",
            "jxlc_after_jxlp",
            "jxlp_after_jxlc",
            "jxlp_bad_index",
            "jxlp_after_final",
            "undersized32",
            "undersized64",
            "jxlp_lt4",
            "brob_lt4",
            "brob_reserved",
        ]))
    } else {
        None
    };

    // sequence of logical boxes
    #[derive(Clone)]
    enum L {
        Aux,
        Brob,
        Jxlc,
        Jxlp,
    }
    let mut seq: Vec<L> = vec![];
    let cs_mode = src.weighted(&[3, 4, 1]); // jxlc / jxlp / none
    let n_jxlp = if cs_mode == 1 { src.range(1, 5) as usize } else { 0 };
    let n_aux = src.range(0, 5) as usize;
    for _ in 0..n_aux {
        seq.push(if src.chance(80) { L::Brob } else { L::Aux });
    }
    // insert codestream boxes at generated positions (order among them kept)
    let ncs = if cs_mode == 0 { 1 } else { n_jxlp };
    let mut positions: Vec<usize> = (0..ncs).map(|_| src.range(0, seq.len() as u64) as usize).collect();
    positions.sort();
    for (k, p) in positions.iter().enumerate() {
        seq.insert(p + k, if cs_mode == 0 { L::Jxlc } else { L::Jxlp });
    }

    // ftyp (+ optional jxll) first
    let mut boxes: Vec<(RawBox, Option<AuxExpect>, Option<Vec<u8>>, String)> = vec![];
    let push_aux = |boxes: &mut Vec<(RawBox, Option<AuxExpect>, Option<Vec<u8>>, String)>, ty: &[u8; 4], payload: Vec<u8>| {
        let d = format!("{}[{}]", String::from_utf8_lossy(ty).escape_default(), payload.len());
        boxes.push((
            RawBox::new(ty, payload.clone()),
            Some(AuxExpect { ty: *ty, brotli: false, wire_payload: payload, ended: true, last_box: false }),
            None,
            d,
        ));
    };
    push_aux(&mut boxes, b"ftyp", FTYP_PAYLOAD.to_vec());
    if src.chance(64) {
        push_aux(&mut boxes, b"jxll", vec![src.pick(&[5u8, 10])]);
    }

    let mut jxlp_idx = 0u32;
    for l in &seq {
        match l {
            L::Aux => {
                let ty = *src.pick(&AUX_TYPES);
                let payload = gen_payload(src, 5000);
                push_aux(&mut boxes, &ty, payload);
            }
            L::Brob => {
                let inner = *src.pick(&[AUX_TYPES[0], AUX_TYPES[1], AUX_TYPES[2], AUX_TYPES[4], AUX_TYPES[5]]);
                let data = gen_payload(src, 70000);
                let comp = brotli_stored(&data, src);
                let mut payload = inner.to_vec();
                payload.extend_from_slice(&comp);
                let d = format!("brob<{}>[{}->{}]", String::from_utf8_lossy(&inner), data.len(), comp.len());
                boxes.push((
                    RawBox::new(b"brob", payload),
                    Some(AuxExpect { ty: inner, brotli: true, wire_payload: comp, ended: true, last_box: false }),
                    None,
                    d,
                ));
            }
            L::Jxlc => {
                let payload = gen_payload(src, 5000);
                let d = format!("jxlc[{}]", payload.len());
                boxes.push((RawBox::new(b"jxlc", payload.clone()), None, Some(payload), d));
            }
            L::Jxlp => {
                let part = gen_payload(src, 3000);
                let last = jxlp_idx as usize + 1 == n_jxlp;
                let field = jxlp_idx | if last { 0x8000_0000 } else { 0 };
                let mut payload = field.to_be_bytes().to_vec();
                payload.extend_from_slice(&part);
                let d = format!("jxlp#{}{}[{}]", jxlp_idx, if last { "L" } else { "" }, part.len());
                boxes.push((RawBox::new(b"jxlp", payload), None, Some(part), d));
                jxlp_idx += 1;
            }
        }
    }

    // size forms
    let nb = boxes.len();
    for (i, b) in boxes.iter_mut().enumerate() {
        b.0.form = gen_form(src, i + 1 == nb && ill.is_none());
        if b.0.form == SizeForm::S64 {
            has64 = true;
        }
        if b.0.form == SizeForm::ToEof {
            if let Some(a) = b.1.as_mut() {
                a.ended = false;
                a.last_box = true;
            }
        }
    }

    // apply an ill-formed mutation: append/insert an offending box
    let mut extra_tail: Vec<u8> = vec![];
    let mut applied = None;
    if let Some(kind) = ill {
        let has_jxlc = boxes.iter().any(|b| &b.0.ty == b"jxlc");
        let has_jxlp = boxes.iter().any(|b| &b.0.ty == b"jxlp");
        match kind {
            "dup_jxlc" if has_jxlc => {
                RawBox::new(b"jxlc", gen_payload(src, 100)).write(&mut extra_tail);
                applied = Some(kind);
            }
            "jxlc_after_jxlp" if has_jxlp => {
                RawBox::new(b"jxlc", gen_payload(src, 100)).write(&mut extra_tail);
                applied = Some(kind);
            }
            "jxlp_after_jxlc" if has_jxlc => {
                let mut p = 0x8000_0000u32.to_be_bytes().to_vec();
                p.extend(gen_payload(src, 100));
                RawBox::new(b"jxlp", p).write(&mut extra_tail);
                applied = Some(kind);
            }
            "jxlp_after_final" if has_jxlp => {
                let idx = n_jxlp as u32 | if src.bool() { 0x8000_0000 } else { 0 };
                let mut p = idx.to_be_bytes().to_vec();
                p.extend(gen_payload(src, 100));
                RawBox::new(b"jxlp", p).write(&mut extra_tail);
                applied = Some(kind);
            }
            "jxlp_bad_index" if has_jxlp => {
                // corrupt the index of one jxlp box
                let cands: Vec<usize> = boxes.iter().enumerate().filter(|(_, b)| &b.0.ty == b"jxlp").map(|(i, _)| i).collect();
                let which = cands[src.below(cands.len())];
                let cur = u32::from_be_bytes(boxes[which].0.payload[..4].try_into().unwrap());
                let delta = src.range(1, 5) as u32;
                // too large (a gap) or too small (a repeated / earlier index)
                let base = cur & 0x7fff_ffff;
                let moved = if src.bool() && base > 0 { base - delta.min(base) } else { base.wrapping_add(delta) };
                let newidx = (moved & 0x7fff_ffff) | (cur & 0x8000_0000);
                boxes[which].0.payload[..4].copy_from_slice(&newidx.to_be_bytes());
                applied = Some(kind);
            }
            "undersized32" => {
                let sz = src.range(2, 7) as u32;
                extra_tail = raw_header_32(sz, src.pick(&[b"Exif", b"jxlc", b"jxlp", b"brob", b"abcd"]));
                extra_tail.extend(gen_payload(src, 40));
                applied = Some(kind);
            }
            "undersized64" => {
                let sz = src.range(0, 15);
                extra_tail = raw_header_64(sz, src.pick(&[b"Exif", b"jxlc", b"jxlp", b"brob", b"abcd"]));
                extra_tail.extend(gen_payload(src, 40));
                applied = Some(kind);
            }
            "jxlp_lt4" if !has_jxlc && !has_jxlp => {
                let n = src.range(0, 3) as usize;
                if src.bool() {
                    extra_tail = raw_header_32(8 + n as u32, b"jxlp");
                } else {
                    extra_tail = raw_header_64(16 + n as u64, b"jxlp");
                }
                extra_tail.extend(std::iter::repeat(0u8).take(n));
                // something after, so that the offending box is complete
                RawBox::new(b"abcd", gen_payload(src, 20)).write(&mut extra_tail);
                applied = Some(kind);
            }
            "brob_lt4" => {
                let n = src.range(0, 3) as usize;
                if src.bool() {
                    extra_tail = raw_header_32(8 + n as u32, b"brob");
                } else {
                    extra_tail = raw_header_64(16 + n as u64, b"brob");
                }
                extra_tail.extend(std::iter::repeat(b'E').take(n));
                RawBox::new(b"abcd", gen_payload(src, 20)).write(&mut extra_tail);
                applied = Some(kind);
            }
            "brob_reserved" => {
                let inner: [u8; 4] = *src.pick(&[b"brob", b"jbrd", b"jxlc", b"jxlp", b"jxll", b"jxli", b"jxl "]);
                let mut p = inner.to_vec();
                p.extend(brotli_stored(&gen_payload(src, 50), src));
                RawBox::new(b"brob", p).write(&mut extra_tail);
                applied = Some(kind);
            }
            _ => {}
        }
    }

    for (b, a, cs, d) in &boxes {
        marks.push(file.len());
        let h = b.header();
        marks.push(file.len() + h.len());
        b.write(&mut file);
        if let Some(a) = a {
            aux.push(a.clone());
        }
        if let Some(cs) = cs {
            codestream.extend_from_slice(cs);
        }
        desc.push(format!("{d}{}", match b.form { SizeForm::S32 => "", SizeForm::S64 => "/64", SizeForm::ToEof => "/eof" }));
    }
    if applied.is_some() {
        marks.push(file.len());
        file.extend_from_slice(&extra_tail);
        desc.push(format!("ILL:{}", applied.unwrap()));
    }
    let last_is_aux = applied.is_none() && boxes.last().map(|b| b.1.is_some()).unwrap_or(false);
    Layout { file, codestream, aux, illformed: applied, marks, desc, has64, n_boxes: boxes.len(), last_is_aux }
}

pub struct Parsed {
    pub codestream: Vec<u8>,
    pub aux: Vec<AuxExpect>,
    pub leftover: usize,
    pub no_more_aux_events: usize,
    pub kind_events: usize,
}

/// Drive the parser following the documented contract: unconsumed bytes are
/// re-offered, followed by the new bytes.
pub fn drive(pieces: &[&[u8]]) -> Result<Parsed, String> {
    let mut parser = ContainerParser::new();
    let mut pending: Vec<u8> = vec![];
    let mut out = Parsed { codestream: vec![], aux: vec![], leftover: 0, no_more_aux_events: 0, kind_events: 0 };
    let mut open: Option<usize> = None;
    for piece in pieces {
        pending.extend_from_slice(piece);
        for ev in parser.feed_bytes(&pending) {
            match ev.map_err(|e| format!("{e}"))? {
                ParseEvent::BitstreamKind(_) => out.kind_events += 1,
                ParseEvent::Codestream(b) => out.codestream.extend_from_slice(b),
                ParseEvent::NoMoreAuxBox => out.no_more_aux_events += 1,
                ParseEvent::AuxBoxStart { ty, brotli_compressed, last_box } => {
                    if open.is_some() {
                        return Err("MODEL: AuxBoxStart while another box is open".into());
                    }
                    out.aux.push(AuxExpect { ty: ty.0, brotli: brotli_compressed, wire_payload: vec![], ended: false, last_box });
                    open = Some(out.aux.len() - 1);
                }
                ParseEvent::AuxBoxData(ty, b) => {
                    let Some(i) = open else { return Err("MODEL: AuxBoxData with no open box".into()) };
                    if out.aux[i].ty != ty.0 {
                        return Err("MODEL: AuxBoxData type differs from the open box".into());
                    }
                    out.aux[i].wire_payload.extend_from_slice(b);
                }
                ParseEvent::AuxBoxEnd(ty) => {
                    let Some(i) = open else { return Err("MODEL: AuxBoxEnd with no open box".into()) };
                    if out.aux[i].ty != ty.0 {
                        return Err("MODEL: AuxBoxEnd type differs from the open box".into());
                    }
                    out.aux[i].ended = true;
                    open = None;
                }
            }
        }
        let c = parser.previous_consumed_bytes();
        if c > pending.len() {
            return Err(format!("MODEL: consumed {c} > offered {}", pending.len()));
        }
        pending.drain(..c);
    }
    out.leftover = pending.len();
    Ok(out)
}

pub fn compare(l: &Layout, p: &Parsed, how: &str) -> Option<(String, String)> {
    if p.codestream != l.codestream {
        return Some((
            format!("codestream-bytes-differ/{how}"),
            format!("codestream delivered {} bytes, expected {}", p.codestream.len(), l.codestream.len()),
        ));
    }
    if p.aux.len() != l.aux.len() {
        return Some((format!("aux-count/{how}"), format!("{} aux boxes delivered, expected {}", p.aux.len(), l.aux.len())));
    }
    for (i, (a, b)) in p.aux.iter().zip(&l.aux).enumerate() {
        if a.ty != b.ty || a.brotli != b.brotli {
            return Some((format!("aux-type/{how}"), format!("box {i}: got {:?}/{} expected {:?}/{}", a.ty, a.brotli, b.ty, b.brotli)));
        }
        if a.wire_payload != b.wire_payload {
            return Some((format!("aux-payload/{how}"), format!("box {i} payload differs ({} vs {} bytes)", a.wire_payload.len(), b.wire_payload.len())));
        }
        let is_final = l.last_is_aux && i + 1 == l.aux.len();
        if a.ended != b.ended && !(is_final && !a.ended) {
            // the End event of the file's final box is only emitted once more input is offered
            return Some((format!("aux-end/{how}"), format!("box {i} ended={} expected {}", a.ended, b.ended)));
        }
        if a.last_box != b.last_box {
            return Some((format!("aux-lastflag/{how}"), format!("box {i} last_box={} expected {}", a.last_box, b.last_box)));
        }
    }
    if p.leftover != 0 {
        return Some((format!("leftover/{how}"), format!("{} bytes never consumed", p.leftover)));
    }
    None
}

/// Hand-written regressions (independent of the generator's evolution).
fn fixed_layout(k: u8) -> (Layout, Vec<usize>) {
    // k = 0: 64-bit-size aux box header arriving one byte at a time (fixed defect, see known_findings.json)
    // k = 1: 64-bit-size jxlc arriving in 12+rest
    let mut file = SIGNATURE_BOX.to_vec();
    let mut aux = vec![];
    let mut codestream = vec![];
    RawBox::new(b"ftyp", FTYP_PAYLOAD.to_vec()).write(&mut file);
    aux.push(AuxExpect { ty: *b"ftyp", brotli: false, wire_payload: FTYP_PAYLOAD.to_vec(), ended: true, last_box: false });
    let hdr_at = file.len();
    let cuts: Vec<usize>;
    if k == 0 {
        let mut b = RawBox::new(b"Exif", vec![0, 0, 0, 0, b'I', b'I']);
        b.form = SizeForm::S64;
        b.write(&mut file);
        aux.push(AuxExpect { ty: *b"Exif", brotli: false, wire_payload: b.payload.clone(), ended: true, last_box: false });
        RawBox::new(b"jxlc", vec![0xff, 0x0a, 1, 2, 3]).write(&mut file);
        codestream = vec![0xff, 0x0a, 1, 2, 3];
        cuts = (1..file.len()).collect();
    } else {
        let mut b = RawBox::new(b"jxlc", vec![0xff, 0x0a, 9, 8, 7, 6]);
        b.form = SizeForm::S64;
        b.write(&mut file);
        codestream = b.payload.clone();
        RawBox::new(b"xml ", b"<x/>".to_vec()).write(&mut file);
        aux.push(AuxExpect { ty: *b"xml ", brotli: false, wire_payload: b"<x/>".to_vec(), ended: true, last_box: false });
        cuts = vec![hdr_at + 12];
    }
    let last_is_aux = k != 0;
    (
        Layout { file, codestream, aux, illformed: None, marks: vec![hdr_at], desc: vec![format!("fixed regression {k}")], has64: true, n_boxes: 3, last_is_aux },
        cuts,
    )
}

impl Check for C10 {
    fn fixed_cases(&self) -> Vec<(String, Vec<u8>)> {
        vec![
            ("raw-64bit-header-split".into(), b"\xffRAW\x00".to_vec()),
            ("raw-64bit-jxlc-split".into(), b"\xffRAW\x01".to_vec()),
        ]
    }
    fn id(&self) -> &'static str {
        "C10"
    }
    fn plan(&self, tier: Tier) -> Plan {
        Plan { cases: if tier == Tier::Quick { 1_000_000 } else { 15_000_000 }, max_len: 2048 }
    }
    fn rule(&self) -> String {
        "choice sequence -> box layout (signature, ftyp, optional jxll, jxlc | jxlp*n at generated positions, raw and brob aux boxes, 32/64-bit/to-EOF sizes, generated payloads incl. header look-alikes; 25% ill-formed by one of 10 constructions) x generated chunking (whole, 1-byte, fixed-n, random cuts, cuts at box-header boundaries -3..+17). Oracle: model event list vs ContainerParser events under the documented re-offer contract; ill-formed => Err for whole-buffer and chunked feeds. Non-trivial: >=2 boxes after the signature and >=2 chunks; distinct by FNV of (file bytes, cuts).".into()
    }
    fn assumptions(&self) -> Vec<String> {
        vec![
            "brob payloads are produced by a stored-block Brotli writer (no Brotli encoder crate is available offline); decompression correctness of compressed meta-blocks is the brotli-decompressor crate's concern".into(),
            "a jxlp sequence that never sets the last flag cannot be rejected by a streaming parser and is not generated as ill-formed".into(),
        ]
    }
    fn run(&self, choice: &[u8], describe: bool) -> Outcome {
        let mut src = Src::new(choice);
        let (l, cuts) = if choice.starts_with(b"\xffRAW") {
            fixed_layout(choice.get(4).copied().unwrap_or(0))
        } else {
            let l = gen_layout(&mut src);
            let cuts = gen_cuts(l.file.len(), &l.marks, &mut src);
            (l, cuts)
        };
        let pieces = chunks(&l.file, &cuts);
        let mut o = Outcome::pass();
        o.nontrivial = l.n_boxes >= 2 && pieces.len() >= 2;
        let mut h = crate::engine::fnv(&l.file);
        for c in &cuts {
            h = h.rotate_left(7) ^ (*c as u64).wrapping_mul(0x9E3779B97F4A7C15);
        }
        o.case_hash = h | 1;
        o.classes.push(match l.illformed {
            Some(k) => format!("ill:{k}"),
            None => "wellformed".into(),
        });
        if l.has64 {
            o.classes.push("has-64bit-size".into());
        }
        if l.aux.iter().any(|a| a.brotli) {
            o.classes.push("has-brob".into());
        }
        if l.aux.iter().any(|a| !a.ended) || l.desc.last().map(|d| d.ends_with("/eof")).unwrap_or(false) {
            o.classes.push("to-eof-last".into());
        }
        o.classes.push(format!("chunks:{}", match pieces.len() { 1 => "1", 2..=4 => "2-4", 5..=32 => "5-32", _ => ">32" }));
        if describe {
            o.describe = Some(json!({"boxes": l.desc, "file_len": l.file.len(), "cuts": if cuts.len() > 24 { json!(format!("{} cuts", cuts.len())) } else { json!(cuts) }}));
        }
        let whole = drive(&[&l.file]);
        let chunked = drive(&pieces);
        match l.illformed {
            Some(kind) => {
                for (how, r) in [("whole", &whole), ("chunked", &chunked)] {
                    match r {
                        Ok(_) => {
                            o.verdict = crate::engine::Verdict::Fail {
                                sig: format!("illformed-accepted:{kind}/{how}"),
                                detail: format!("ill-formed layout ({kind}) was accepted without error; boxes={:?}", l.desc),
                            };
                            return o;
                        }
                        Err(e) if e.starts_with("MODEL:") => {
                            o.verdict = crate::engine::Verdict::Fail { sig: format!("event-protocol/{how}"), detail: e.clone() };
                            return o;
                        }
                        Err(_) => {}
                    }
                }
            }
            None => {
                for (how, r) in [("whole", &whole), ("chunked", &chunked)] {
                    match r {
                        Err(e) => {
                            let sig = if e.starts_with("MODEL:") { format!("event-protocol/{how}") } else { format!("wellformed-rejected/{how}: {e}") };
                            o.verdict = crate::engine::Verdict::Fail { sig, detail: format!("{e}; boxes={:?} cuts={:?}", l.desc, cuts) };
                            return o;
                        }
                        Ok(p) => {
                            if let Some((sig, detail)) = compare(&l, p, how) {
                                o.verdict = crate::engine::Verdict::Fail { sig, detail: format!("{detail}; boxes={:?} cuts={:?}", l.desc, cuts) };
                                return o;
                            }
                            if p.kind_events != 1 {
                                o.verdict = crate::engine::Verdict::Fail { sig: format!("kind-events/{how}"), detail: format!("{} BitstreamKind events", p.kind_events) };
                                return o;
                            }
                        }
                    }
                }
            }
        }
        o
    }
}
