//! Baseline / extended sequential Huffman JPEG *writer* (ITU-T T.81 | ISO/IEC
//! 10918-1) working from quantised coefficient arrays, and a writer for the
//! `jbrd` box payload of ISO/IEC 18181-2 (JPEG bitstream reconstruction data).
//!
//! The JPEG side is written from the JPEG standard alone: marker segments
//! (B.2), MCU / data-unit ordering for interleaved and non-interleaved scans
//! (A.2), Huffman table construction (Annex C), sequential entropy coding
//! (F.1.2), restart intervals (F.1.4, E.1.4) and byte stuffing (F.1.2.3).  Its
//! output is the oracle of property C17.
//!
//! The `jbrd` side serialises a plain field-by-field description of the box
//! (`JbrdSpec`), so that hostile variants can be produced by editing fields.

use std::collections::BTreeMap;

use crate::bits::{BitWriter, D};
use crate::src::Src;

// ---------------------------------------------------------------------------
// Tables fixed by the JPEG standard

/// Zig-zag index -> (row, column) of the 8x8 block (Figure A.6); row = vertical frequency.
pub fn zigzag_rc() -> [(usize, usize); 64] {
    let mut out = [(0usize, 0usize); 64];
    let mut k = 0;
    for s in 0..15usize {
        if s % 2 == 0 {
            // moving up-right: start at the lowest row of the anti-diagonal
            let mut row = s.min(7);
            let mut col = s - row;
            loop {
                out[k] = (row, col);
                k += 1;
                if row == 0 || col == 7 {
                    break;
                }
                row -= 1;
                col += 1;
            }
        } else {
            let mut col = s.min(7);
            let mut row = s - col;
            loop {
                out[k] = (row, col);
                k += 1;
                if col == 0 || row == 7 {
                    break;
                }
                col -= 1;
                row += 1;
            }
        }
    }
    debug_assert_eq!(k, 64);
    out
}

/// Annex K.3.3 typical Huffman tables: (counts per length 1..=16, symbols).
pub fn std_dc_luma() -> ([u8; 16], Vec<u8>) {
    ([0, 1, 5, 1, 1, 1, 1, 1, 1, 0, 0, 0, 0, 0, 0, 0], (0..12).collect())
}

pub fn std_dc_chroma() -> ([u8; 16], Vec<u8>) {
    ([0, 3, 1, 1, 1, 1, 1, 1, 1, 1, 1, 0, 0, 0, 0, 0], (0..12).collect())
}

pub fn std_ac_luma() -> ([u8; 16], Vec<u8>) {
    let v: Vec<u8> = vec![
        0x01, 0x02, 0x03, 0x00, 0x04, 0x11, 0x05, 0x12, 0x21, 0x31, 0x41, 0x06, 0x13, 0x51, 0x61, 0x07, 0x22, 0x71, 0x14, 0x32, 0x81, 0x91, 0xa1, 0x08, 0x23, 0x42, 0xb1, 0xc1, 0x15, 0x52, 0xd1, 0xf0, 0x24, 0x33, 0x62, 0x72, 0x82, 0x09, 0x0a, 0x16, 0x17,
        0x18, 0x19, 0x1a, 0x25, 0x26, 0x27, 0x28, 0x29, 0x2a, 0x34, 0x35, 0x36, 0x37, 0x38, 0x39, 0x3a, 0x43, 0x44, 0x45, 0x46, 0x47, 0x48, 0x49, 0x4a, 0x53, 0x54, 0x55, 0x56, 0x57, 0x58, 0x59, 0x5a, 0x63, 0x64, 0x65, 0x66, 0x67, 0x68, 0x69, 0x6a, 0x73,
        0x74, 0x75, 0x76, 0x77, 0x78, 0x79, 0x7a, 0x83, 0x84, 0x85, 0x86, 0x87, 0x88, 0x89, 0x8a, 0x92, 0x93, 0x94, 0x95, 0x96, 0x97, 0x98, 0x99, 0x9a, 0xa2, 0xa3, 0xa4, 0xa5, 0xa6, 0xa7, 0xa8, 0xa9, 0xaa, 0xb2, 0xb3, 0xb4, 0xb5, 0xb6, 0xb7, 0xb8, 0xb9,
        0xba, 0xc2, 0xc3, 0xc4, 0xc5, 0xc6, 0xc7, 0xc8, 0xc9, 0xca, 0xd2, 0xd3, 0xd4, 0xd5, 0xd6, 0xd7, 0xd8, 0xd9, 0xda, 0xe1, 0xe2, 0xe3, 0xe4, 0xe5, 0xe6, 0xe7, 0xe8, 0xe9, 0xea, 0xf1, 0xf2, 0xf3, 0xf4, 0xf5, 0xf6, 0xf7, 0xf8, 0xf9, 0xfa,
    ];
    ([0, 2, 1, 3, 3, 2, 4, 3, 5, 5, 4, 4, 0, 0, 1, 0x7d], v)
}

pub fn std_ac_chroma() -> ([u8; 16], Vec<u8>) {
    let v: Vec<u8> = vec![
        0x00, 0x01, 0x02, 0x03, 0x11, 0x04, 0x05, 0x21, 0x31, 0x06, 0x12, 0x41, 0x51, 0x07, 0x61, 0x71, 0x13, 0x22, 0x32, 0x81, 0x08, 0x14, 0x42, 0x91, 0xa1, 0xb1, 0xc1, 0x09, 0x23, 0x33, 0x52, 0xf0, 0x15, 0x62, 0x72, 0xd1, 0x0a, 0x16, 0x24, 0x34, 0xe1,
        0x25, 0xf1, 0x17, 0x18, 0x19, 0x1a, 0x26, 0x27, 0x28, 0x29, 0x2a, 0x35, 0x36, 0x37, 0x38, 0x39, 0x3a, 0x43, 0x44, 0x45, 0x46, 0x47, 0x48, 0x49, 0x4a, 0x53, 0x54, 0x55, 0x56, 0x57, 0x58, 0x59, 0x5a, 0x63, 0x64, 0x65, 0x66, 0x67, 0x68, 0x69, 0x6a,
        0x73, 0x74, 0x75, 0x76, 0x77, 0x78, 0x79, 0x7a, 0x82, 0x83, 0x84, 0x85, 0x86, 0x87, 0x88, 0x89, 0x8a, 0x92, 0x93, 0x94, 0x95, 0x96, 0x97, 0x98, 0x99, 0x9a, 0xa2, 0xa3, 0xa4, 0xa5, 0xa6, 0xa7, 0xa8, 0xa9, 0xaa, 0xb2, 0xb3, 0xb4, 0xb5, 0xb6, 0xb7,
        0xb8, 0xb9, 0xba, 0xc2, 0xc3, 0xc4, 0xc5, 0xc6, 0xc7, 0xc8, 0xc9, 0xca, 0xd2, 0xd3, 0xd4, 0xd5, 0xd6, 0xd7, 0xd8, 0xd9, 0xda, 0xe2, 0xe3, 0xe4, 0xe5, 0xe6, 0xe7, 0xe8, 0xe9, 0xea, 0xf2, 0xf3, 0xf4, 0xf5, 0xf6, 0xf7, 0xf8, 0xf9, 0xfa,
    ];
    ([0, 2, 1, 2, 4, 4, 3, 4, 7, 5, 4, 4, 0, 1, 2, 0x77], v)
}

// ---------------------------------------------------------------------------
// JPEG description

#[derive(Clone, Debug, PartialEq)]
pub struct QuantTableSpec {
    /// destination identifier Tq, 0..=3
    pub id: u8,
    /// Pq = 1: 16-bit elements
    pub precision16: bool,
    /// elements in zig-zag order
    pub values: [u16; 64],
}

#[derive(Clone, Debug, PartialEq)]
pub struct HuffTableSpec {
    /// table class Tc: false = DC, true = AC
    pub ac: bool,
    /// destination identifier Th, 0..=3
    pub id: u8,
    /// number of codes of each length 1..=16 (BITS)
    pub counts: [u8; 16],
    /// symbols in order of increasing code length (HUFFVAL)
    pub symbols: Vec<u8>,
}

impl HuffTableSpec {
    /// Annex C: code (right-aligned) and length per symbol; length 0 = symbol has no code.
    pub fn codes(&self) -> Result<Vec<(u32, u8)>, String> {
        let total: usize = self.counts.iter().map(|&c| c as usize).sum();
        if total != self.symbols.len() {
            return Err(format!("DHT: BITS sums to {total} but {} symbols given", self.symbols.len()));
        }
        let mut out = vec![(0u32, 0u8); 256];
        let mut code = 0u32;
        let mut k = 0;
        for len in 1..=16u32 {
            for _ in 0..self.counts[len as usize - 1] {
                // the all-ones code word of every length is reserved as a prefix of longer codes
                if code >= (1u32 << len) - 1 {
                    return Err(format!("DHT: code space exhausted at length {len} (all-ones code words are reserved)"));
                }
                let s = self.symbols[k] as usize;
                if out[s].1 != 0 {
                    return Err(format!("DHT: symbol {s:#x} listed twice"));
                }
                out[s] = (code, len as u8);
                code += 1;
                k += 1;
            }
            code <<= 1;
        }
        Ok(out)
    }
}

#[derive(Clone, Debug)]
pub struct ComponentSpec {
    /// component identifier Ci
    pub id: u8,
    /// sampling factors
    pub h: u8,
    pub v: u8,
    /// quantisation table destination selector Tqi
    pub tq: u8,
    /// stored blocks: `mcus_x * h` by `mcus_y * v`, raster order; each block in zig-zag order, [0] = DC
    pub bw: usize,
    pub bh: usize,
    pub blocks: Vec<[i16; 64]>,
}

#[derive(Clone, Debug, PartialEq)]
pub struct ScanCompSpec {
    /// index into `JpegSpec::components`
    pub comp: usize,
    /// DC / AC entropy table destination selectors
    pub td: u8,
    pub ta: u8,
}

#[derive(Clone, Debug)]
pub struct ScanSpec {
    pub comps: Vec<ScanCompSpec>,
    /// block index within the scan (coding order) -> number of ZRL symbols written after the
    /// last non-zero coefficient, before the end-of-block symbol (a construct some encoders
    /// emit and decoders accept; the reconstruction format has a field for it)
    pub extra_zrl: BTreeMap<u32, u32>,
    /// spectral selection and successive approximation (progressive frames; a sequential scan
    /// has Ss = 0, Se = 63, Ah = Al = 0)
    pub ss: u8,
    pub se: u8,
    pub ah: u8,
    pub al: u8,
    /// progressive AC scans: block indices (coding order) before which a pending end-of-band run
    /// is written out although it could have been continued
    pub eob_splits: std::collections::BTreeSet<u32>,
}

impl Default for ScanSpec {
    fn default() -> Self {
        ScanSpec { comps: vec![], extra_zrl: BTreeMap::new(), ss: 0, se: 63, ah: 0, al: 0, eob_splits: Default::default() }
    }
}

#[derive(Clone, Copy, Debug, PartialEq, Eq)]
pub enum AppKind {
    /// kept verbatim in the reconstruction data
    Raw,
    /// APP2 "ICC_PROFILE\0" chunk whose data lives in the codestream's ICC profile
    Icc,
    /// APP1 "Exif\0\0" whose data lives in the Exif box
    Exif,
    /// APP1 XMP whose data lives in the xml box
    Xmp,
}

#[derive(Clone, Debug)]
pub enum Segment {
    /// APPn: `marker` is 0xE0..=0xEF, `payload` everything after the length field
    App { marker: u8, payload: Vec<u8>, kind: AppKind },
    Com(Vec<u8>),
    /// indices into `JpegSpec::quant_tables`
    Dqt(Vec<usize>),
    /// indices into `JpegSpec::huff_tables`
    Dht(Vec<usize>),
    Sof,
    /// DRI carrying `JpegSpec::restart_interval`
    Dri,
    /// index into `JpegSpec::scans`
    Sos(usize),
    /// bytes between marker segments that are not themselves a marker segment (fill bytes etc.)
    Unknown(Vec<u8>),
}

#[derive(Clone, Debug)]
pub struct JpegSpec {
    pub width: u32,
    pub height: u32,
    /// 0xC0 (baseline) or 0xC1 (extended sequential, Huffman)
    pub sof_marker: u8,
    pub components: Vec<ComponentSpec>,
    pub quant_tables: Vec<QuantTableSpec>,
    pub huff_tables: Vec<HuffTableSpec>,
    pub scans: Vec<ScanSpec>,
    pub restart_interval: u16,
    /// everything between SOI and EOI, in file order
    pub segments: Vec<Segment>,
    /// None: pad entropy-coded segments with 1-bits (F.1.2.3); Some: the padding bits to use, in
    /// the order they appear in the file
    pub pad_bits: Option<Vec<u8>>,
    /// bytes after EOI
    pub tail: Vec<u8>,
}

pub const ICC_SIG: &[u8] = b"ICC_PROFILE\0";
pub const EXIF_SIG: &[u8] = b"Exif\0\0";
pub const XMP_SIG: &[u8] = b"http://ns.adobe.com/xap/1.0/\0";

impl JpegSpec {
    pub fn hmax(&self) -> usize {
        self.components.iter().map(|c| c.h as usize).max().unwrap_or(1)
    }
    pub fn vmax(&self) -> usize {
        self.components.iter().map(|c| c.v as usize).max().unwrap_or(1)
    }
    /// MCU columns / rows of an interleaved scan (A.2.4): the image is completed to whole MCUs.
    pub fn mcus_x(&self) -> usize {
        (self.width as usize).div_ceil(8 * self.hmax())
    }
    pub fn mcus_y(&self) -> usize {
        (self.height as usize).div_ceil(8 * self.vmax())
    }
    /// Data units per line / column of component `c` in a non-interleaved scan (A.2.3, A.1.1):
    /// the component's own dimensions x_i = ceil(X * H_i / Hmax), completed to whole blocks.
    pub fn comp_blocks_noninterleaved(&self, c: usize) -> (usize, usize) {
        let comp = &self.components[c];
        let xi = (self.width as usize * comp.h as usize).div_ceil(self.hmax());
        let yi = (self.height as usize * comp.v as usize).div_ceil(self.vmax());
        (xi.div_ceil(8), yi.div_ceil(8))
    }

    /// Blocks of scan `s` in coding order: (scan component position, component index, block x, block y),
    /// grouped per MCU.  Returns (blocks, blocks per MCU).
    pub fn scan_block_order(&self, s: usize) -> (Vec<(usize, usize, usize, usize)>, usize) {
        let scan = &self.scans[s];
        let mut out = vec![];
        if scan.comps.len() == 1 {
            let c = scan.comps[0].comp;
            let (w, h) = self.comp_blocks_noninterleaved(c);
            for y in 0..h {
                for x in 0..w {
                    out.push((0, c, x, y));
                }
            }
            (out, 1)
        } else {
            let per_mcu: usize = scan.comps.iter().map(|sc| self.components[sc.comp].h as usize * self.components[sc.comp].v as usize).sum();
            for my in 0..self.mcus_y() {
                for mx in 0..self.mcus_x() {
                    for (pos, sc) in scan.comps.iter().enumerate() {
                        let comp = &self.components[sc.comp];
                        for v in 0..comp.v as usize {
                            for h in 0..comp.h as usize {
                                out.push((pos, sc.comp, mx * comp.h as usize + h, my * comp.v as usize + v));
                            }
                        }
                    }
                }
            }
            (out, per_mcu)
        }
    }

    /// Restart interval in effect for each scan: the value of the last DRI segment before its SOS.
    pub fn restart_interval_of_scans(&self) -> Vec<u16> {
        let mut cur = 0u16;
        let mut out = vec![0; self.scans.len()];
        for seg in &self.segments {
            match seg {
                Segment::Dri => cur = self.restart_interval,
                Segment::Sos(s) => out[*s] = cur,
                _ => {}
            }
        }
        out
    }
}

// ---------------------------------------------------------------------------
// Entropy coding (F.1.2)

#[derive(Clone, Copy, Debug, PartialEq)]
pub enum Tok {
    /// Huffman-coded symbol from table (class, destination)
    Sym { ac: bool, tbl: u8, sym: u8 },
    /// additional bits, most significant first
    Bits { val: u16, len: u8 },
    /// end of a restart interval: pad to a byte boundary, RSTm
    Restart,
}

fn magnitude_category(v: i32) -> u8 {
    (32 - v.unsigned_abs().leading_zeros()) as u8
}

/// Additional bits of a value of category `ssss` (F.1.2.1.1 / Table F.1): the low `ssss` bits of
/// `v` for positive values, of `v - 1` for negative values.
fn additional_bits(v: i32, ssss: u8) -> u16 {
    if ssss == 0 {
        return 0;
    }
    let x = if v >= 0 { v } else { v - 1 };
    (x & ((1i32 << ssss) - 1)) as u16
}

/// Token stream of one scan.  Also returns the number of blocks with at least one non-zero AC coefficient.
pub fn scan_tokens(spec: &JpegSpec, s: usize, restart_interval: u16) -> Result<Vec<Tok>, String> {
    let scan = &spec.scans[s];
    if scan.comps.is_empty() || scan.comps.len() > 4 {
        return Err("scan needs 1..=4 components".into());
    }
    if spec.sof_marker == 0xc2 {
        return progressive_scan_tokens(spec, s, restart_interval).map(|r| r.0);
    }
    if (scan.ss, scan.se, scan.ah, scan.al) != (0, 63, 0, 0) {
        return Err("sequential scan with progressive parameters".into());
    }
    let (order, per_mcu) = spec.scan_block_order(s);
    let mut pred = vec![0i32; scan.comps.len()];
    let mut toks = Vec::with_capacity(order.len() * 4);
    let n_mcus = order.len() / per_mcu;
    for m in 0..n_mcus {
        if restart_interval != 0 && m != 0 && m % restart_interval as usize == 0 {
            toks.push(Tok::Restart);
            pred.iter_mut().for_each(|p| *p = 0);
        }
        for b in 0..per_mcu {
            let block_idx = m * per_mcu + b;
            let (pos, c, bx, by) = order[block_idx];
            let comp = &spec.components[c];
            if bx >= comp.bw || by >= comp.bh {
                return Err(format!("component {c} has no block ({bx}, {by})"));
            }
            let blk = &comp.blocks[by * comp.bw + bx];
            let sc = &scan.comps[pos];
            // DC (F.1.2.1)
            let diff = blk[0] as i32 - pred[pos];
            pred[pos] = blk[0] as i32;
            let ssss = magnitude_category(diff);
            if ssss > 11 {
                return Err(format!("DC difference {diff} needs category {ssss} > 11"));
            }
            toks.push(Tok::Sym { ac: false, tbl: sc.td, sym: ssss });
            if ssss > 0 {
                toks.push(Tok::Bits { val: additional_bits(diff, ssss), len: ssss });
            }
            // AC (F.1.2.2)
            let mut run = 0u32;
            let mut last_nz = 0usize;
            for k in 1..64 {
                let v = blk[k] as i32;
                if v == 0 {
                    run += 1;
                    continue;
                }
                while run >= 16 {
                    toks.push(Tok::Sym { ac: true, tbl: sc.ta, sym: 0xf0 });
                    run -= 16;
                }
                let ssss = magnitude_category(v);
                if ssss > 10 {
                    return Err(format!("AC coefficient {v} needs category {ssss} > 10"));
                }
                toks.push(Tok::Sym { ac: true, tbl: sc.ta, sym: ((run as u8) << 4) | ssss });
                toks.push(Tok::Bits { val: additional_bits(v, ssss), len: ssss });
                run = 0;
                last_nz = k;
            }
            let trailing = 63 - last_nz as u32;
            let extra = scan.extra_zrl.get(&(block_idx as u32)).copied().unwrap_or(0);
            if extra * 16 > trailing {
                return Err(format!("block {block_idx}: {extra} extra ZRL symbols do not fit {trailing} trailing zeros"));
            }
            for _ in 0..extra {
                toks.push(Tok::Sym { ac: true, tbl: sc.ta, sym: 0xf0 });
            }
            if trailing - extra * 16 > 0 {
                toks.push(Tok::Sym { ac: true, tbl: sc.ta, sym: 0x00 });
            }
        }
    }
    Ok(toks)
}

// ---------------------------------------------------------------------------
// Progressive entropy coding (Annex G)

/// What a progressive scan exercised (for the class histogram of the generators).
#[derive(Clone, Debug, Default)]
pub struct ScanStats {
    /// longest end-of-band run written
    pub eobrun_max: u32,
    /// EOBn symbols written (n = symbol >> 4)
    pub eob_symbols: std::collections::BTreeSet<u8>,
    /// ZRL symbols in a refinement scan, and those that carried correction bits
    pub zrl_refine: usize,
    pub zrl_refine_with_bits: usize,
    pub zrl_first: usize,
    /// newly non-zero coefficients of a refinement scan, by sign
    pub newly_pos: usize,
    pub newly_neg: usize,
    pub correction_bits: usize,
    /// longest stretch of already-non-zero coefficients passed by one run / ZRL symbol
    pub max_bits_per_symbol: usize,
    /// negative coefficients whose point transform differs between rounding towards zero and
    /// an arithmetic shift (first AC scans with Al > 0)
    pub neg_inexact_shift: usize,
    /// end-of-band runs cut by `eob_splits`, extra ZRL symbols written
    pub splits_effective: usize,
    pub extra_zrl: usize,
}

/// Point transform of AC coefficients: division by 2^Al, rounding towards zero (G.1.2.2).
fn ac_point_transform(c: i32, al: u8) -> i32 {
    if c >= 0 {
        c >> al
    } else {
        -((-c) >> al)
    }
}

struct EobRun {
    run: u32,
    /// correction bits of the blocks in the run (refinement scans)
    bits: Vec<u8>,
}

impl EobRun {
    fn flush(&mut self, toks: &mut Vec<Tok>, ta: u8, st: &mut ScanStats) {
        if self.run == 0 {
            debug_assert!(self.bits.is_empty());
            return;
        }
        let n = 31 - self.run.leading_zeros();
        toks.push(Tok::Sym { ac: true, tbl: ta, sym: (n as u8) << 4 });
        if n > 0 {
            toks.push(Tok::Bits { val: (self.run - (1 << n)) as u16, len: n as u8 });
        }
        for b in self.bits.drain(..) {
            toks.push(Tok::Bits { val: b as u16, len: 1 });
        }
        st.eobrun_max = st.eobrun_max.max(self.run);
        st.eob_symbols.insert(n as u8);
        self.run = 0;
    }
}

/// Token stream of one scan of a progressive frame (SOF2): DC first / DC refinement scans
/// (G.1.2.1), AC first scans with end-of-band runs (G.1.2.2), AC refinement scans (G.1.2.3).
pub fn progressive_scan_tokens(spec: &JpegSpec, s: usize, restart_interval: u16) -> Result<(Vec<Tok>, ScanStats), String> {
    let scan = &spec.scans[s];
    let (ss, se, ah, al) = (scan.ss as usize, scan.se as usize, scan.ah, scan.al);
    if ss > se || se > 63 || al > 13 || ah > 13 {
        return Err(format!("scan {s}: invalid Ss/Se/Ah/Al {ss}/{se}/{ah}/{al}"));
    }
    if ss == 0 && se != 0 {
        return Err(format!("scan {s}: a progressive scan with DC coefficients has Se = 0"));
    }
    if ss > 0 && scan.comps.len() != 1 {
        return Err(format!("scan {s}: progressive AC scans have one component"));
    }
    if ah != 0 && ah != al + 1 {
        return Err(format!("scan {s}: a refinement scan has Ah = Al + 1"));
    }
    let (order, per_mcu) = spec.scan_block_order(s);
    let mut st = ScanStats::default();
    let mut toks = Vec::with_capacity(order.len() * 4);
    let mut pred = vec![0i32; scan.comps.len()];
    let ta = scan.comps[0].ta;
    let mut eob = EobRun { run: 0, bits: vec![] };
    let n_mcus = order.len() / per_mcu;
    for m in 0..n_mcus {
        if restart_interval != 0 && m != 0 && m % restart_interval as usize == 0 {
            eob.flush(&mut toks, ta, &mut st);
            toks.push(Tok::Restart);
            pred.iter_mut().for_each(|p| *p = 0);
        }
        for b in 0..per_mcu {
            let block_idx = m * per_mcu + b;
            let (pos, c, bx, by) = order[block_idx];
            let comp = &spec.components[c];
            if bx >= comp.bw || by >= comp.bh {
                return Err(format!("component {c} has no block ({bx}, {by})"));
            }
            let blk = &comp.blocks[by * comp.bw + bx];
            let sc = &scan.comps[pos];
            if ss == 0 {
                // point transform of DC: arithmetic shift
                let v = (blk[0] as i32) >> al;
                if ah == 0 {
                    let diff = v - pred[pos];
                    pred[pos] = v;
                    let ssss = magnitude_category(diff);
                    if ssss > 11 {
                        return Err(format!("DC difference {diff} needs category {ssss} > 11"));
                    }
                    toks.push(Tok::Sym { ac: false, tbl: sc.td, sym: ssss });
                    if ssss > 0 {
                        toks.push(Tok::Bits { val: additional_bits(diff, ssss), len: ssss });
                    }
                } else {
                    toks.push(Tok::Bits { val: (v & 1) as u16, len: 1 });
                }
                continue;
            }
            if scan.eob_splits.contains(&(block_idx as u32)) && eob.run > 0 {
                eob.flush(&mut toks, ta, &mut st);
                st.splits_effective += 1;
            }
            let extra = scan.extra_zrl.get(&(block_idx as u32)).copied().unwrap_or(0);
            if ah == 0 {
                // first scan of this band
                let mut r = 0u32;
                for k in ss..=se {
                    let c0 = blk[k] as i32;
                    let v = ac_point_transform(c0, al);
                    if c0 < 0 && (c0 >> al) != v {
                        st.neg_inexact_shift += 1;
                    }
                    if v == 0 {
                        r += 1;
                        continue;
                    }
                    eob.flush(&mut toks, ta, &mut st);
                    while r > 15 {
                        toks.push(Tok::Sym { ac: true, tbl: ta, sym: 0xf0 });
                        st.zrl_first += 1;
                        r -= 16;
                    }
                    let ssss = magnitude_category(v);
                    if ssss > 10 {
                        return Err(format!("AC coefficient {v} needs category {ssss} > 10"));
                    }
                    toks.push(Tok::Sym { ac: true, tbl: ta, sym: ((r as u8) << 4) | ssss });
                    toks.push(Tok::Bits { val: additional_bits(v, ssss), len: ssss });
                    r = 0;
                }
                if r > 0 {
                    if extra > 0 {
                        if extra * 16 > r {
                            return Err(format!("block {block_idx}: {extra} extra ZRL symbols do not fit {r} trailing zeros"));
                        }
                        eob.flush(&mut toks, ta, &mut st);
                        for _ in 0..extra {
                            toks.push(Tok::Sym { ac: true, tbl: ta, sym: 0xf0 });
                        }
                        st.extra_zrl += extra as usize;
                        r -= 16 * extra;
                    }
                    if r > 0 {
                        eob.run += 1;
                        if eob.run == 0x7fff {
                            eob.flush(&mut toks, ta, &mut st);
                        }
                    }
                } else if extra > 0 {
                    return Err(format!("block {block_idx}: extra ZRL symbols without trailing zeros"));
                }
            } else {
                // refinement scan: one more bit of every coefficient of the band
                let a: Vec<i32> = (ss..=se).map(|k| (blk[k] as i32).abs() >> al).collect();
                let last_new = a.iter().rposition(|&x| x == 1);
                let mut r = 0u32;
                let mut br: Vec<u8> = vec![];
                let mut k = 0;
                if let Some(last) = last_new {
                    while k <= last {
                        if a[k] == 0 {
                            r += 1;
                            k += 1;
                            continue;
                        }
                        while r > 15 {
                            eob.flush(&mut toks, ta, &mut st);
                            toks.push(Tok::Sym { ac: true, tbl: ta, sym: 0xf0 });
                            st.zrl_refine += 1;
                            if !br.is_empty() {
                                st.zrl_refine_with_bits += 1;
                            }
                            st.max_bits_per_symbol = st.max_bits_per_symbol.max(br.len());
                            r -= 16;
                            for bit in br.drain(..) {
                                toks.push(Tok::Bits { val: bit as u16, len: 1 });
                            }
                        }
                        if a[k] > 1 {
                            br.push((a[k] & 1) as u8);
                            st.correction_bits += 1;
                            k += 1;
                            continue;
                        }
                        eob.flush(&mut toks, ta, &mut st);
                        toks.push(Tok::Sym { ac: true, tbl: ta, sym: ((r as u8) << 4) | 1 });
                        let positive = blk[ss + k] > 0;
                        if positive {
                            st.newly_pos += 1;
                        } else {
                            st.newly_neg += 1;
                        }
                        toks.push(Tok::Bits { val: positive as u16, len: 1 });
                        st.max_bits_per_symbol = st.max_bits_per_symbol.max(br.len());
                        for bit in br.drain(..) {
                            toks.push(Tok::Bits { val: bit as u16, len: 1 });
                        }
                        r = 0;
                        k += 1;
                    }
                }
                // what follows the last newly non-zero coefficient is covered by the end-of-band code,
                // except for `extra` ZRL symbols written first
                let mut zr = 0u32;
                let mut extra_left = extra;
                while k < a.len() {
                    if a[k] == 0 {
                        zr += 1;
                        if extra_left > 0 && zr == 16 {
                            eob.flush(&mut toks, ta, &mut st);
                            toks.push(Tok::Sym { ac: true, tbl: ta, sym: 0xf0 });
                            st.zrl_refine += 1;
                            st.extra_zrl += 1;
                            if !br.is_empty() {
                                st.zrl_refine_with_bits += 1;
                            }
                            for bit in br.drain(..) {
                                toks.push(Tok::Bits { val: bit as u16, len: 1 });
                            }
                            zr = 0;
                            extra_left -= 1;
                        }
                    } else {
                        br.push((a[k] & 1) as u8);
                        st.correction_bits += 1;
                    }
                    k += 1;
                }
                if extra_left > 0 {
                    return Err(format!("block {block_idx}: extra ZRL symbols do not fit the zeros after the last new coefficient"));
                }
                if zr > 0 || !br.is_empty() {
                    eob.run += 1;
                    eob.bits.append(&mut br);
                    if eob.run == 0x7fff {
                        eob.flush(&mut toks, ta, &mut st);
                    }
                }
            }
        }
    }
    eob.flush(&mut toks, ta, &mut st);
    Ok((toks, st))
}

/// The coefficients a decoder holds after all scans of a progressive frame: per block and coefficient
/// the bits the scans that covered it transmitted (first scan: the value at reduced precision, DC by
/// arithmetic shift, AC towards zero; each refinement scan: one more bit), zero where no scan covered
/// it.  For a sequential frame: the blocks unchanged.
pub fn effective_coefficients(spec: &JpegSpec) -> Vec<Vec<[i16; 64]>> {
    if spec.sof_marker != 0xc2 {
        return spec.components.iter().map(|c| c.blocks.clone()).collect();
    }
    let mut out: Vec<Vec<[i16; 64]>> = spec.components.iter().map(|c| vec![[0i16; 64]; c.blocks.len()]).collect();
    for s in 0..spec.scans.len() {
        let scan = &spec.scans[s];
        let (order, _) = spec.scan_block_order(s);
        for (_, c, bx, by) in order {
            let comp = &spec.components[c];
            let i = by * comp.bw + bx;
            for k in scan.ss as usize..=scan.se as usize {
                let v = comp.blocks[i][k] as i32;
                let bit = 1i32 << scan.al;
                let cur = out[c][i][k] as i32;
                out[c][i][k] = if scan.ah == 0 {
                    // first scan: the value at reduced precision
                    if k == 0 {
                        (v >> scan.al) << scan.al
                    } else {
                        ac_point_transform(v, scan.al) << scan.al
                    }
                } else if k == 0 {
                    // refinement adds one bit to what earlier scans left (a block of the MCU padding
                    // may have missed a non-interleaved scan)
                    (cur & !bit) | (v & bit)
                } else if (v.abs() >> scan.al) & 1 == 0 {
                    cur
                } else if cur == 0 {
                    if v < 0 {
                        -bit
                    } else {
                        bit
                    }
                } else if cur < 0 {
                    -(cur.abs() | bit)
                } else {
                    cur | bit
                } as i16;
            }
        }
    }
    out
}

/// MSB-first bit sink with byte stuffing (F.1.2.3).
struct EcsWriter {
    out: Vec<u8>,
    acc: u32,
    nbits: u32,
}

impl EcsWriter {
    fn put(&mut self, val: u32, len: u32) {
        for i in (0..len).rev() {
            self.acc = (self.acc << 1) | ((val >> i) & 1);
            self.nbits += 1;
            if self.nbits == 8 {
                let b = self.acc as u8;
                self.out.push(b);
                if b == 0xff {
                    self.out.push(0);
                }
                self.acc = 0;
                self.nbits = 0;
            }
        }
    }
    /// Completes the current byte; returns how many padding bits were needed.
    fn align(&mut self, pad: &mut PadSource) -> Result<u8, String> {
        let need = (8 - self.nbits) % 8;
        for _ in 0..need {
            let b = pad.next()?;
            self.put(b as u32, 1);
        }
        Ok(need as u8)
    }
}

struct PadSource<'a> {
    bits: Option<&'a [u8]>,
    pos: usize,
}

impl PadSource<'_> {
    fn next(&mut self) -> Result<u8, String> {
        match self.bits {
            None => Ok(1),
            Some(b) => {
                let v = *b.get(self.pos).ok_or("padding bit list too short")?;
                self.pos += 1;
                Ok(v & 1)
            }
        }
    }
}

#[derive(Clone, Debug, Default)]
pub struct EncodedJpeg {
    pub bytes: Vec<u8>,
    /// number of padding bits at each byte alignment of entropy-coded data, in file order
    pub pad_lens: Vec<u8>,
    /// byte offsets of the segment starts (and EOI), for boundary-aware tests
    pub segment_offsets: Vec<usize>,
    /// number of RSTn markers written
    pub restarts: usize,
}

fn push_segment(out: &mut Vec<u8>, marker: u8, payload: &[u8]) -> Result<(), String> {
    if payload.len() + 2 > 65535 {
        return Err(format!("segment {marker:#x} too long ({} bytes)", payload.len()));
    }
    out.push(0xff);
    out.push(marker);
    out.extend_from_slice(&((payload.len() + 2) as u16).to_be_bytes());
    out.extend_from_slice(payload);
    Ok(())
}

/// Writes the JPEG file described by `spec`.
pub fn encode_jpeg(spec: &JpegSpec) -> Result<EncodedJpeg, String> {
    let mut out = vec![0xff, 0xd8];
    let mut enc = EncodedJpeg::default();
    let mut pad = PadSource { bits: spec.pad_bits.as_deref(), pos: 0 };
    // entropy tables currently installed, per class and destination
    let mut installed: [[Option<Vec<(u32, u8)>>; 4]; 2] = Default::default();
    let mut restart_interval = 0u16;
    for seg in &spec.segments {
        enc.segment_offsets.push(out.len());
        match seg {
            Segment::App { marker, payload, .. } => {
                if !(0xe0..=0xef).contains(marker) {
                    return Err("APPn marker out of range".into());
                }
                push_segment(&mut out, *marker, payload)?;
            }
            Segment::Com(payload) => push_segment(&mut out, 0xfe, payload)?,
            Segment::Dqt(list) => {
                let mut p = vec![];
                for &qi in list {
                    let q = &spec.quant_tables[qi];
                    p.push(((q.precision16 as u8) << 4) | q.id);
                    for &v in &q.values {
                        if q.precision16 {
                            p.extend_from_slice(&v.to_be_bytes());
                        } else {
                            if v > 255 {
                                return Err("8-bit quantisation table with an element > 255".into());
                            }
                            p.push(v as u8);
                        }
                    }
                }
                push_segment(&mut out, 0xdb, &p)?;
            }
            Segment::Dht(list) => {
                let mut p = vec![];
                for &hi in list {
                    let h = &spec.huff_tables[hi];
                    p.push(((h.ac as u8) << 4) | h.id);
                    p.extend_from_slice(&h.counts);
                    p.extend_from_slice(&h.symbols);
                    installed[h.ac as usize][h.id as usize] = Some(h.codes()?);
                }
                push_segment(&mut out, 0xc4, &p)?;
            }
            Segment::Sof => {
                let mut p = vec![8];
                p.extend_from_slice(&(spec.height as u16).to_be_bytes());
                p.extend_from_slice(&(spec.width as u16).to_be_bytes());
                p.push(spec.components.len() as u8);
                for c in &spec.components {
                    p.push(c.id);
                    p.push((c.h << 4) | c.v);
                    p.push(c.tq);
                }
                push_segment(&mut out, spec.sof_marker, &p)?;
            }
            Segment::Dri => {
                restart_interval = spec.restart_interval;
                push_segment(&mut out, 0xdd, &spec.restart_interval.to_be_bytes())?;
            }
            Segment::Unknown(data) => out.extend_from_slice(data),
            Segment::Sos(s) => {
                let scan = &spec.scans[*s];
                let mut p = vec![scan.comps.len() as u8];
                for sc in &scan.comps {
                    p.push(spec.components[sc.comp].id);
                    p.push((sc.td << 4) | sc.ta);
                }
                p.extend_from_slice(&[scan.ss, scan.se, (scan.ah << 4) | scan.al]);
                push_segment(&mut out, 0xda, &p)?;
                let toks = scan_tokens(spec, *s, restart_interval)?;
                let mut w = EcsWriter { out: vec![], acc: 0, nbits: 0 };
                let mut rst = 0u8;
                for t in toks {
                    match t {
                        Tok::Sym { ac, tbl, sym } => {
                            let table = installed[ac as usize][tbl as usize].as_ref().ok_or_else(|| format!("scan {s} uses {} table {tbl} before it is defined", if ac { "AC" } else { "DC" }))?;
                            let (code, len) = table[sym as usize];
                            if len == 0 {
                                return Err(format!("scan {s}: symbol {sym:#x} has no code in {} table {tbl}", if ac { "AC" } else { "DC" }));
                            }
                            w.put(code, len as u32);
                        }
                        Tok::Bits { val, len } => w.put(val as u32, len as u32),
                        Tok::Restart => {
                            enc.pad_lens.push(w.align(&mut pad)?);
                            w.out.push(0xff);
                            w.out.push(0xd0 + rst);
                            rst = (rst + 1) % 8;
                            enc.restarts += 1;
                        }
                    }
                }
                enc.pad_lens.push(w.align(&mut pad)?);
                out.extend_from_slice(&w.out);
            }
        }
    }
    enc.segment_offsets.push(out.len());
    out.extend_from_slice(&[0xff, 0xd9]);
    out.extend_from_slice(&spec.tail);
    enc.bytes = out;
    Ok(enc)
}

// ---------------------------------------------------------------------------
// jbrd box payload

#[derive(Clone, Debug, PartialEq)]
pub struct JbrdApp {
    /// 0 = verbatim (bytes in the data stream), 1 = ICC chunk, 2 = Exif, 3 = XMP
    pub ty: u32,
    /// coded as `length - 1` in 16 bits: segment length field + 1
    pub length: u32,
}

#[derive(Clone, Debug, PartialEq)]
pub struct JbrdQuant {
    pub precision: u8,
    pub index: u8,
    pub is_last: bool,
}

#[derive(Clone, Debug, PartialEq)]
pub struct JbrdHuff {
    pub is_ac: bool,
    pub id: u8,
    pub is_last: bool,
    /// counts for lengths 0..=16; the count of the longest used length includes the sentinel
    pub counts: [u32; 17],
    /// symbols followed by the sentinel 256
    pub values: Vec<u32>,
}

#[derive(Clone, Debug, PartialEq)]
pub struct JbrdScanComp {
    pub comp_idx: u8,
    pub ac_tbl: u8,
    pub dc_tbl: u8,
}

#[derive(Clone, Debug, PartialEq, Default)]
pub struct JbrdScan {
    pub ss: u8,
    pub se: u8,
    pub al: u8,
    pub ah: u8,
    pub comps: Vec<JbrdScanComp>,
    pub last_needed_pass: u32,
    /// ascending block indices
    pub reset_points: Vec<u32>,
    /// (block index, number of runs), ascending block indices
    pub extra_zero_runs: Vec<(u32, u32)>,
}

#[derive(Clone, Debug, PartialEq, Default)]
pub struct JbrdSpec {
    pub is_gray: bool,
    /// marker codes 0xC0..=0xFF in file order, the last one being EOI (0xD9)
    pub markers: Vec<u8>,
    pub apps: Vec<JbrdApp>,
    /// coded as `length - 1` in 16 bits
    pub com_lengths: Vec<u32>,
    pub quant: Vec<JbrdQuant>,
    /// 0 = one component with id 1, 1 = ids 1,2,3, 2 = ids 'R','G','B', 3 = explicit ids
    pub comp_type: u32,
    pub comp_ids: Vec<u8>,
    pub comp_q_idx: Vec<u8>,
    pub huff: Vec<JbrdHuff>,
    pub scans: Vec<JbrdScan>,
    /// present iff the marker list contains DRI
    pub restart_interval: u32,
    pub intermarker_lengths: Vec<u32>,
    pub tail_length: u32,
    pub padding: Option<Vec<u8>>,
    /// the four parts of the Brotli-compressed data stream
    pub app_data: Vec<u8>,
    pub com_data: Vec<u8>,
    pub intermarker_data: Vec<u8>,
    pub tail_data: Vec<u8>,
}

const RESET_COUNT_D: [D; 4] = [D::C(0), D::B(1, 2), D::B(4, 4), D::B(20, 16)];
const BLOCK_DELTA_D: [D; 4] = [D::C(0), D::B(1, 3), D::B(9, 5), D::B(41, 28)];

impl JbrdSpec {
    /// The reconstruction data of a JPEG written by `encode_jpeg(spec)` (`enc` is its result).
    pub fn from_jpeg(spec: &JpegSpec, enc: &EncodedJpeg) -> Result<JbrdSpec, String> {
        let mut j = JbrdSpec { is_gray: spec.components.len() == 1, ..Default::default() };
        let ids: Vec<u8> = spec.components.iter().map(|c| c.id).collect();
        j.comp_type = match ids.as_slice() {
            [1] => 0,
            [1, 2, 3] => 1,
            [b'R', b'G', b'B'] => 2,
            _ => 3,
        };
        j.comp_ids = ids;
        j.comp_q_idx = spec.components.iter().map(|c| c.tq).collect();
        let mut has_dri = false;
        for seg in &spec.segments {
            match seg {
                Segment::App { marker, payload, kind } => {
                    j.markers.push(*marker);
                    let ty = match kind {
                        AppKind::Raw => 0,
                        AppKind::Icc => 1,
                        AppKind::Exif => 2,
                        AppKind::Xmp => 3,
                    };
                    j.apps.push(JbrdApp { ty, length: payload.len() as u32 + 3 });
                    if ty == 0 {
                        j.app_data.push(*marker);
                        j.app_data.extend_from_slice(&((payload.len() + 2) as u16).to_be_bytes());
                        j.app_data.extend_from_slice(payload);
                    }
                }
                Segment::Com(payload) => {
                    j.markers.push(0xfe);
                    j.com_lengths.push(payload.len() as u32 + 3);
                    j.com_data.push(0xfe);
                    j.com_data.extend_from_slice(&((payload.len() + 2) as u16).to_be_bytes());
                    j.com_data.extend_from_slice(payload);
                }
                Segment::Dqt(list) => {
                    j.markers.push(0xdb);
                    for (k, &qi) in list.iter().enumerate() {
                        let q = &spec.quant_tables[qi];
                        j.quant.push(JbrdQuant { precision: q.precision16 as u8, index: q.id, is_last: k + 1 == list.len() });
                    }
                }
                Segment::Dht(list) => {
                    j.markers.push(0xc4);
                    for (k, &hi) in list.iter().enumerate() {
                        let h = &spec.huff_tables[hi];
                        let mut counts = [0u32; 17];
                        for l in 1..=16 {
                            counts[l] = h.counts[l - 1] as u32;
                        }
                        let longest = (1..=16).rev().find(|&l| counts[l] != 0).ok_or("empty Huffman table")?;
                        counts[longest] += 1;
                        let mut values: Vec<u32> = h.symbols.iter().map(|&s| s as u32).collect();
                        values.push(256);
                        j.huff.push(JbrdHuff { is_ac: h.ac, id: h.id, is_last: k + 1 == list.len(), counts, values });
                    }
                }
                Segment::Sof => j.markers.push(spec.sof_marker),
                Segment::Dri => {
                    j.markers.push(0xdd);
                    has_dri = true;
                }
                Segment::Sos(s) => {
                    j.markers.push(0xda);
                    let scan = &spec.scans[*s];
                    j.scans.push(JbrdScan {
                        ss: scan.ss,
                        se: scan.se,
                        al: scan.al,
                        ah: scan.ah,
                        comps: scan.comps.iter().map(|sc| JbrdScanComp { comp_idx: sc.comp as u8, ac_tbl: sc.ta, dc_tbl: sc.td }).collect(),
                        last_needed_pass: 0,
                        reset_points: scan.eob_splits.iter().copied().collect(),
                        extra_zero_runs: scan.extra_zrl.iter().map(|(&b, &n)| (b, n)).collect(),
                    });
                }
                Segment::Unknown(data) => {
                    j.markers.push(0xff);
                    j.intermarker_lengths.push(data.len() as u32);
                    j.intermarker_data.extend_from_slice(data);
                }
            }
        }
        j.markers.push(0xd9);
        if has_dri {
            j.restart_interval = spec.restart_interval as u32;
        }
        j.tail_length = spec.tail.len() as u32;
        j.tail_data = spec.tail.clone();
        if let Some(bits) = &spec.pad_bits {
            let used: usize = enc.pad_lens.iter().map(|&n| n as usize).sum();
            if bits.len() < used {
                return Err("padding bit list shorter than what the file used".into());
            }
            j.padding = Some(bits.clone());
        }
        Ok(j)
    }

    /// Decompressed content of the data stream.
    pub fn data_stream(&self) -> Vec<u8> {
        let mut d = self.app_data.clone();
        d.extend_from_slice(&self.com_data);
        d.extend_from_slice(&self.intermarker_data);
        d.extend_from_slice(&self.tail_data);
        d
    }

    /// The bit-packed header (not byte padded).  `src` picks among equivalent field encodings.
    pub fn write_header(&self, w: &mut BitWriter, src: &mut Src) {
        w.bit(self.is_gray);
        for &m in &self.markers {
            w.bits((m.wrapping_sub(0xc0) & 0x3f) as u64, 6);
        }
        for a in &self.apps {
            w.u32_any([D::C(0), D::C(1), D::B(2, 1), D::B(4, 2)], a.ty, src);
            w.bits((a.length.wrapping_sub(1) & 0xffff) as u64, 16);
        }
        for &l in &self.com_lengths {
            w.bits((l.wrapping_sub(1) & 0xffff) as u64, 16);
        }
        w.bits((self.quant.len() as u64).wrapping_sub(1) & 3, 2);
        for q in &self.quant {
            w.bits(q.precision as u64 & 1, 1);
            w.bits(q.index as u64 & 3, 2);
            w.bit(q.is_last);
        }
        w.bits(self.comp_type as u64 & 3, 2);
        if self.comp_type == 3 {
            w.bits((self.comp_ids.len() as u64).wrapping_sub(1) & 3, 2);
            for &id in &self.comp_ids {
                w.bits(id as u64, 8);
            }
        }
        for &q in &self.comp_q_idx {
            w.bits(q as u64 & 3, 2);
        }
        w.u32_any([D::C(4), D::B(2, 3), D::B(10, 4), D::B(26, 6)], self.huff.len() as u32, src);
        for h in &self.huff {
            w.bit(h.is_ac);
            w.bits(h.id as u64 & 3, 2);
            w.bit(h.is_last);
            for &c in &h.counts {
                w.u32_any([D::C(0), D::C(1), D::B(2, 3), D::B(0, 8)], c, src);
            }
            for &v in &h.values {
                w.u32_any([D::B(0, 2), D::B(4, 2), D::B(8, 4), D::B(1, 8)], v, src);
            }
        }
        for s in &self.scans {
            w.bits((s.comps.len() as u64).wrapping_sub(1) & 3, 2);
            w.bits(s.ss as u64 & 63, 6);
            w.bits(s.se as u64 & 63, 6);
            w.bits(s.al as u64 & 15, 4);
            w.bits(s.ah as u64 & 15, 4);
            for c in &s.comps {
                w.bits(c.comp_idx as u64 & 3, 2);
                w.bits(c.ac_tbl as u64 & 3, 2);
                w.bits(c.dc_tbl as u64 & 3, 2);
            }
            w.u32_any([D::C(0), D::C(1), D::C(2), D::B(3, 3)], s.last_needed_pass, src);
        }
        if self.markers.contains(&0xdd) {
            w.bits(self.restart_interval as u64 & 0xffff, 16);
        }
        for s in &self.scans {
            w.u32_any(RESET_COUNT_D, s.reset_points.len() as u32, src);
            let mut last: Option<u32> = None;
            for &b in &s.reset_points {
                let d = match last {
                    None => b,
                    Some(l) => b - l - 1,
                };
                w.u32_any(BLOCK_DELTA_D, d, src);
                last = Some(b);
            }
            w.u32_any(RESET_COUNT_D, s.extra_zero_runs.len() as u32, src);
            let mut last: Option<u32> = None;
            for &(b, n) in &s.extra_zero_runs {
                w.u32_any([D::C(1), D::B(2, 2), D::B(5, 4), D::B(20, 8)], n, src);
                let d = match last {
                    None => b,
                    Some(l) => b - l - 1,
                };
                w.u32_any(BLOCK_DELTA_D, d, src);
                last = Some(b);
            }
        }
        for &l in &self.intermarker_lengths {
            w.bits(l as u64 & 0xffff, 16);
        }
        w.u32_any([D::C(0), D::B(1, 8), D::B(257, 16), D::B(65793, 22)], self.tail_length, src);
        w.bit(self.padding.is_some());
        if let Some(bits) = &self.padding {
            w.bits(bits.len() as u64 & 0xff_ffff, 24);
            for &b in bits {
                w.bit(b & 1 != 0);
            }
        }
    }

    /// Whole box payload: header, zero padding to a byte boundary, Brotli stream of the data.
    /// Returns (payload, byte length of the header part).
    pub fn payload(&self, src: &mut Src) -> (Vec<u8>, usize) {
        let mut w = BitWriter::new();
        self.write_header(&mut w, src);
        let mut out = w.finish();
        let hdr = out.len();
        out.extend_from_slice(&crate::container::brotli_stored(&self.data_stream(), src));
        (out, hdr)
    }
}

// ---------------------------------------------------------------------------
// A plain sequential Huffman JPEG *reader* (F.2.2), used to validate the writer above by a
// round trip (and to adjudicate disagreements): marker segments -> tables -> coefficient blocks.

#[derive(Clone, Debug, Default)]
pub struct DecodedJpeg {
    pub width: u32,
    pub height: u32,
    /// (id, h, v, tq)
    pub components: Vec<(u8, u8, u8, u8)>,
    /// per component: blocks wide, blocks high, blocks (zig-zag order); sized as for interleaved scans
    pub blocks: Vec<(usize, usize, Vec<[i16; 64]>)>,
    /// quantisation tables by destination, zig-zag order
    pub quant: [Option<[u16; 64]>; 4],
    pub restart_markers: usize,
    pub tail: Vec<u8>,
    /// SOF2
    pub progressive: bool,
}

struct EcsReader<'a> {
    d: &'a [u8],
    pos: usize,
    acc: u32,
    n: u32,
}

impl EcsReader<'_> {
    fn bit(&mut self) -> Result<u32, String> {
        if self.n == 0 {
            let b = *self.d.get(self.pos).ok_or("entropy-coded data ends early")?;
            if b == 0xff {
                let b2 = *self.d.get(self.pos + 1).ok_or("entropy-coded data ends early")?;
                if b2 != 0 {
                    return Err(format!("marker {b2:#x} inside entropy-coded data at {}", self.pos));
                }
                self.pos += 2;
            } else {
                self.pos += 1;
            }
            self.acc = b as u32;
            self.n = 8;
        }
        self.n -= 1;
        Ok((self.acc >> self.n) & 1)
    }
    fn bits(&mut self, k: u32) -> Result<u32, String> {
        let mut v = 0;
        for _ in 0..k {
            v = (v << 1) | self.bit()?;
        }
        Ok(v)
    }
    fn symbol(&mut self, t: &HuffTableSpec) -> Result<u8, String> {
        // DECODE (F.2.2.3) with MINCODE / MAXCODE / VALPTR
        let mut code = 0u32;
        let mut first = 0u32;
        let mut idx = 0usize;
        for len in 1..=16 {
            code = (code << 1) | self.bit()?;
            let cnt = t.counts[len - 1] as u32;
            if code < first + cnt {
                return Ok(t.symbols[idx + (code - first) as usize]);
            }
            idx += cnt as usize;
            first = (first + cnt) << 1;
        }
        Err("invalid Huffman code".into())
    }
}

fn extend(v: u32, t: u32) -> i32 {
    // EXTEND (F.2.2.1)
    if t == 0 {
        0
    } else if v < (1 << (t - 1)) {
        v as i32 - (1 << t) + 1
    } else {
        v as i32
    }
}

pub fn decode_jpeg(data: &[u8]) -> Result<DecodedJpeg, String> {
    if data.len() < 4 || data[0] != 0xff || data[1] != 0xd8 {
        return Err("no SOI".into());
    }
    let mut out = DecodedJpeg::default();
    let mut huff: [[Option<HuffTableSpec>; 4]; 2] = Default::default();
    let mut ri = 0usize;
    let mut pos = 2;
    loop {
        // anything up to the next marker (fill bytes, stray bytes) is skipped
        while pos + 1 < data.len() && !(data[pos] == 0xff && (0xc0..=0xfe).contains(&data[pos + 1])) {
            pos += 1;
        }
        if pos + 1 >= data.len() {
            return Err("no EOI".into());
        }
        let m = data[pos + 1];
        pos += 2;
        if m == 0xd9 {
            out.tail = data[pos..].to_vec();
            return Ok(out);
        }
        let len = u16::from_be_bytes([*data.get(pos).ok_or("eof")?, *data.get(pos + 1).ok_or("eof")?]) as usize;
        let seg = data.get(pos + 2..pos + len).ok_or("segment runs past the end")?;
        pos += len;
        match m {
            0xdb => {
                let mut p = 0;
                while p < seg.len() {
                    let (pq, tq) = (seg[p] >> 4, (seg[p] & 15) as usize);
                    p += 1;
                    let mut t = [0u16; 64];
                    for v in t.iter_mut() {
                        if pq == 0 {
                            *v = seg[p] as u16;
                            p += 1;
                        } else {
                            *v = u16::from_be_bytes([seg[p], seg[p + 1]]);
                            p += 2;
                        }
                    }
                    out.quant[tq & 3] = Some(t);
                }
            }
            0xc4 => {
                let mut p = 0;
                while p < seg.len() {
                    let (tc, th) = (seg[p] >> 4, seg[p] & 15);
                    let mut counts = [0u8; 16];
                    counts.copy_from_slice(&seg[p + 1..p + 17]);
                    let n: usize = counts.iter().map(|&c| c as usize).sum();
                    let symbols = seg[p + 17..p + 17 + n].to_vec();
                    p += 17 + n;
                    huff[(tc & 1) as usize][(th & 3) as usize] = Some(HuffTableSpec { ac: tc == 1, id: th, counts, symbols });
                }
            }
            0xc0 | 0xc1 | 0xc2 => {
                out.progressive = m == 0xc2;
                out.height = u16::from_be_bytes([seg[1], seg[2]]) as u32;
                out.width = u16::from_be_bytes([seg[3], seg[4]]) as u32;
                for c in 0..seg[5] as usize {
                    out.components.push((seg[6 + 3 * c], seg[7 + 3 * c] >> 4, seg[7 + 3 * c] & 15, seg[8 + 3 * c]));
                }
                let hmax = out.components.iter().map(|c| c.1 as usize).max().unwrap();
                let vmax = out.components.iter().map(|c| c.2 as usize).max().unwrap();
                let (mx, my) = ((out.width as usize).div_ceil(8 * hmax), (out.height as usize).div_ceil(8 * vmax));
                for c in &out.components {
                    let (bw, bh) = (mx * c.1 as usize, my * c.2 as usize);
                    out.blocks.push((bw, bh, vec![[0i16; 64]; bw * bh]));
                }
            }
            0xdd => ri = u16::from_be_bytes([seg[0], seg[1]]) as usize,
            0xda => {
                let ns = seg[0] as usize;
                let comps: Vec<(usize, usize, usize)> = (0..ns)
                    .map(|i| {
                        let cs = seg[1 + 2 * i];
                        let ci = out.components.iter().position(|c| c.0 == cs).ok_or("scan names an unknown component")?;
                        Ok((ci, (seg[2 + 2 * i] >> 4) as usize, (seg[2 + 2 * i] & 15) as usize))
                    })
                    .collect::<Result<_, String>>()?;
                let hmax = out.components.iter().map(|c| c.1 as usize).max().unwrap();
                let vmax = out.components.iter().map(|c| c.2 as usize).max().unwrap();
                // data units of the scan, MCU by MCU
                let mut order: Vec<(usize, usize, usize, usize)> = vec![];
                let per_mcu;
                if ns == 1 {
                    let c = out.components[comps[0].0];
                    let w = ((out.width as usize * c.1 as usize).div_ceil(hmax)).div_ceil(8);
                    let h = ((out.height as usize * c.2 as usize).div_ceil(vmax)).div_ceil(8);
                    for y in 0..h {
                        for x in 0..w {
                            order.push((0, comps[0].0, x, y));
                        }
                    }
                    per_mcu = 1;
                } else {
                    let (mx, my) = ((out.width as usize).div_ceil(8 * hmax), (out.height as usize).div_ceil(8 * vmax));
                    for y in 0..my {
                        for x in 0..mx {
                            for (k, &(ci, _, _)) in comps.iter().enumerate() {
                                let c = out.components[ci];
                                for v in 0..c.2 as usize {
                                    for h in 0..c.1 as usize {
                                        order.push((k, ci, x * c.1 as usize + h, y * c.2 as usize + v));
                                    }
                                }
                            }
                        }
                    }
                    per_mcu = comps.iter().map(|&(ci, _, _)| out.components[ci].1 as usize * out.components[ci].2 as usize).sum();
                }
                let (ss, se) = (seg[1 + 2 * ns] as usize, (seg[2 + 2 * ns] as usize).min(63));
                let (ah, al) = (seg[3 + 2 * ns] >> 4, seg[3 + 2 * ns] & 15);
                let mut eobrun = 0u32;
                let mut r = EcsReader { d: data, pos, acc: 0, n: 0 };
                let mut pred = vec![0i32; ns];
                let mut expect_rst = 0u8;
                for (i, &(k, ci, bx, by)) in order.iter().enumerate() {
                    if ri != 0 && i != 0 && i % (ri * per_mcu) == 0 {
                        // byte align, RSTm
                        r.n = 0;
                        if r.d.get(r.pos) != Some(&0xff) || r.d.get(r.pos + 1) != Some(&(0xd0 + expect_rst)) {
                            return Err(format!("expected RST{expect_rst} at {}", r.pos));
                        }
                        r.pos += 2;
                        expect_rst = (expect_rst + 1) % 8;
                        out.restart_markers += 1;
                        pred.iter_mut().for_each(|p| *p = 0);
                        eobrun = 0;
                    }
                    if out.progressive {
                        let (bw, _, blocks) = &mut out.blocks[ci];
                        let blk = &mut blocks[by * *bw + bx];
                        if ss == 0 {
                            if ah == 0 {
                                // G.1.2.1: the difference is coded at the reduced precision
                                let dc_t = huff[0][comps[k].1 & 3].as_ref().ok_or("DC table missing")?;
                                let t = r.symbol(dc_t)? as u32;
                                pred[k] += extend(r.bits(t)?, t);
                                blk[0] = (pred[k] << al) as i16;
                            } else if r.bit()? == 1 {
                                blk[0] |= 1 << al;
                            }
                            continue;
                        }
                        let ac_t = huff[1][comps[k].2 & 3].as_ref().ok_or("AC table missing")?;
                        if ah == 0 {
                            // G.2.2: first scan of a band, with end-of-band runs
                            if eobrun > 0 {
                                eobrun -= 1;
                                continue;
                            }
                            let mut kk = ss;
                            while kk <= se {
                                let rs = r.symbol(ac_t)?;
                                let (run, size) = ((rs >> 4) as usize, (rs & 15) as u32);
                                if size == 0 {
                                    if run == 15 {
                                        kk += 16;
                                        continue;
                                    }
                                    eobrun = (1 << run) + r.bits(run as u32)? - 1;
                                    break;
                                }
                                kk += run;
                                if kk > se {
                                    return Err("AC coefficient index past the end of the band".into());
                                }
                                blk[kk] = (extend(r.bits(size)?, size) << al) as i16;
                                kk += 1;
                            }
                        } else {
                            // G.2.3 / Figure G.7 read in the decoding direction: refinement of a band
                            let p1 = 1i16 << al;
                            let refine = |r: &mut EcsReader, c: &mut i16| -> Result<(), String> {
                                if r.bit()? == 1 && (*c & p1) == 0 {
                                    if *c >= 0 {
                                        *c += p1;
                                    } else {
                                        *c -= p1;
                                    }
                                }
                                Ok(())
                            };
                            let mut kk = ss;
                            if eobrun == 0 {
                                while kk <= se {
                                    let rs = r.symbol(ac_t)?;
                                    let (mut run, size) = ((rs >> 4) as i32, (rs & 15) as u32);
                                    let mut val = 0i16;
                                    if size == 0 {
                                        if run < 15 {
                                            eobrun = (1 << run) + r.bits(run as u32)?;
                                            break;
                                        }
                                    } else if size == 1 {
                                        val = if r.bit()? == 1 { p1 } else { -p1 };
                                    } else {
                                        return Err("refinement scan with a coefficient size other than 1".into());
                                    }
                                    // pass `run` coefficients with zero history; the next one is the target
                                    while kk <= se {
                                        if blk[kk] != 0 {
                                            refine(&mut r, &mut blk[kk])?;
                                        } else {
                                            if run == 0 {
                                                break;
                                            }
                                            run -= 1;
                                        }
                                        kk += 1;
                                    }
                                    if val != 0 {
                                        if kk > se {
                                            return Err("new coefficient past the end of the band".into());
                                        }
                                        blk[kk] = val;
                                    }
                                    kk += 1;
                                }
                            }
                            if eobrun > 0 {
                                // the rest of the band: correction bits only
                                while kk <= se {
                                    if blk[kk] != 0 {
                                        refine(&mut r, &mut blk[kk])?;
                                    }
                                    kk += 1;
                                }
                                eobrun -= 1;
                            }
                        }
                        continue;
                    }
                    let dc_t = huff[0][comps[k].1 & 3].as_ref().ok_or("DC table missing")?;
                    let ac_t = huff[1][comps[k].2 & 3].as_ref().ok_or("AC table missing")?;
                    let t = r.symbol(dc_t)? as u32;
                    let diff = extend(r.bits(t)?, t);
                    pred[k] += diff;
                    let (bw, _, blocks) = &mut out.blocks[ci];
                    let blk = &mut blocks[by * *bw + bx];
                    blk[0] = pred[k] as i16;
                    let mut kk = 1;
                    while kk < 64 {
                        let rs = r.symbol(ac_t)?;
                        let (run, size) = ((rs >> 4) as usize, (rs & 15) as u32);
                        if size == 0 {
                            if run == 15 {
                                kk += 16;
                                continue;
                            }
                            break;
                        }
                        kk += run;
                        if kk > 63 {
                            return Err("AC coefficient index past 63".into());
                        }
                        blk[kk] = extend(r.bits(size)?, size) as i16;
                        kk += 1;
                    }
                }
                r.n = 0;
                pos = r.pos;
            }
            _ => {}
        }
    }
}

/// Reads `bytes` back with `decode_jpeg` and compares everything the file carries with `spec`.
pub fn roundtrip_check(spec: &JpegSpec, bytes: &[u8]) -> Result<(), String> {
    let d = decode_jpeg(bytes)?;
    if (d.width, d.height) != (spec.width, spec.height) {
        return Err("size differs".into());
    }
    if d.components.len() != spec.components.len() {
        return Err("component count differs".into());
    }
    for (c, comp) in spec.components.iter().enumerate() {
        if d.components[c] != (comp.id, comp.h, comp.v, comp.tq) {
            return Err(format!("component {c} parameters differ"));
        }
        let q = spec.quant_tables.iter().rev().find(|q| q.id == comp.tq).ok_or("missing table")?;
        if d.quant[comp.tq as usize & 3] != Some(q.values) {
            return Err(format!("quantisation table of component {c} differs"));
        }
    }
    if spec.sof_marker == 0xc2 {
        // every stored block: what no scan covers stays zero
        for (c, comp) in spec.components.iter().enumerate() {
            if let Some(i) = (0..comp.blocks.len()).find(|&i| d.blocks[c].2[i] != comp.blocks[i]) {
                let k = (0..64).find(|&k| d.blocks[c].2[i][k] != comp.blocks[i][k]).unwrap();
                return Err(format!("progressive: block {i} of component {c} reads back differently (coefficient {k}: {} instead of {})", d.blocks[c].2[i][k], comp.blocks[i][k]));
            }
        }
    }
    for s in 0..spec.scans.len() {
        if spec.sof_marker == 0xc2 {
            break;
        }
        let (order, _) = spec.scan_block_order(s);
        for (_, c, bx, by) in order {
            let comp = &spec.components[c];
            let (bw, _, blocks) = &d.blocks[c];
            if blocks[by * *bw + bx] != comp.blocks[by * comp.bw + bx] {
                return Err(format!("scan {s}: block ({bx}, {by}) of component {c} reads back differently"));
            }
        }
    }
    if d.tail != spec.tail {
        return Err("tail differs".into());
    }
    Ok(())
}

#[cfg(test)]
mod tests {
    use super::*;

    #[test]
    fn zigzag_matches_figure_a6() {
        let z = zigzag_rc();
        let nat: Vec<usize> = z.iter().map(|&(r, c)| r * 8 + c).collect();
        assert_eq!(&nat[..16], &[0, 1, 8, 16, 9, 2, 3, 10, 17, 24, 32, 25, 18, 11, 4, 5]);
        assert_eq!(&nat[56..], &[58, 59, 52, 45, 38, 31, 39, 46, 53, 60, 61, 54, 47, 55, 62, 63][8..]);
        let mut seen = [false; 64];
        for n in nat {
            assert!(!seen[n]);
            seen[n] = true;
        }
    }

    #[test]
    fn standard_tables_are_consistent() {
        for (ac, (counts, symbols)) in [(false, std_dc_luma()), (false, std_dc_chroma()), (true, std_ac_luma()), (true, std_ac_chroma())] {
            let t = HuffTableSpec { ac, id: 0, counts, symbols };
            let codes = t.codes().unwrap();
            assert_eq!(codes.iter().filter(|c| c.1 != 0).count(), t.symbols.len());
        }
        // Table K.3: category 0 -> "00", category 2 -> "011"
        let t = HuffTableSpec { ac: false, id: 0, counts: std_dc_luma().0, symbols: std_dc_luma().1 };
        let c = t.codes().unwrap();
        assert_eq!(c[0], (0b00, 2));
        assert_eq!(c[2], (0b011, 3));
        assert_eq!(c[11], (0b111111110, 9));
        // Table K.5: EOB -> "1010", 0/1 -> "00", ZRL -> "11111111001"
        let t = HuffTableSpec { ac: true, id: 0, counts: std_ac_luma().0, symbols: std_ac_luma().1 };
        let c = t.codes().unwrap();
        assert_eq!(c[0x00], (0b1010, 4));
        assert_eq!(c[0x01], (0b00, 2));
        assert_eq!(c[0xf0], (0b11111111001, 11));
    }

    #[test]
    fn end_of_band_run_codes() {
        // Table G.1: EOBn covers runs 2^n .. 2^(n+1)-1, followed by n bits holding run - 2^n
        for (run, sym, extra) in [(1u32, 0x00u8, None), (2, 0x10, Some((0u16, 1u8))), (5, 0x20, Some((1, 2))), (16384, 0xe0, Some((0, 14))), (32767, 0xe0, Some((16383, 14)))] {
            let mut toks = vec![];
            let mut st = ScanStats::default();
            EobRun { run, bits: vec![1, 0] }.flush(&mut toks, 2, &mut st);
            assert_eq!(toks[0], Tok::Sym { ac: true, tbl: 2, sym });
            let mut k = 1;
            if let Some((val, len)) = extra {
                assert_eq!(toks[k], Tok::Bits { val, len });
                k += 1;
            }
            // the correction bits of the blocks in the run follow
            assert_eq!(&toks[k..], &[Tok::Bits { val: 1, len: 1 }, Tok::Bits { val: 0, len: 1 }]);
        }
        // point transform of AC coefficients rounds towards zero, that of DC is an arithmetic shift
        assert_eq!(ac_point_transform(-3, 1), -1);
        assert_eq!(ac_point_transform(-1, 1), 0);
        assert_eq!(ac_point_transform(5, 2), 1);
        assert_eq!(-3i32 >> 1, -2);
    }

    #[test]
    fn additional_bits_table_f1() {
        assert_eq!(additional_bits(1, 1), 1);
        assert_eq!(additional_bits(-1, 1), 0);
        assert_eq!(additional_bits(-3, 2), 0);
        assert_eq!(additional_bits(-2, 2), 1);
        assert_eq!(additional_bits(2, 2), 2);
        assert_eq!(additional_bits(-2047, 11), 0);
        assert_eq!(magnitude_category(-2047), 11);
        assert_eq!(magnitude_category(1023), 10);
        assert_eq!(magnitude_category(0), 0);
    }
}
