//! Generated chunkings of a byte string: how the bytes "arrive".

use crate::src::Src;

/// Returns strictly increasing cut positions in `1..len` (possibly empty).
/// `marks` are structure boundaries the generator should bias towards
/// (cuts at mark-1, mark, mark+1).
pub fn gen_cuts(len: usize, marks: &[usize], src: &mut Src) -> Vec<usize> {
    if len <= 1 {
        return vec![];
    }
    let mut cuts: Vec<usize> = vec![];
    match src.weighted(&[2, 2, 2, 3, 3]) {
        0 => {} // one buffer
        1 => {
            // one byte at a time
            cuts = (1..len).collect();
        }
        2 => {
            // fixed n
            let n = src.range(2, 64) as usize;
            cuts = (1..len).filter(|p| p % n == 0).collect();
        }
        3 => {
            // random cut set
            let k = src.range(1, 12) as usize;
            for _ in 0..k {
                cuts.push(src.range(1, len as u64 - 1) as usize);
            }
        }
        _ => {
            // cuts around structure marks
            if marks.is_empty() {
                let k = src.range(1, 6) as usize;
                for _ in 0..k {
                    cuts.push(src.range(1, len as u64 - 1) as usize);
                }
            } else {
                let k = src.range(1, 10) as usize;
                for _ in 0..k {
                    let m = marks[src.below(marks.len())] as i64;
                    let d = src.range_i(-3, 17);
                    let p = (m + d).clamp(1, len as i64 - 1) as usize;
                    cuts.push(p);
                }
            }
        }
    }
    cuts.sort();
    cuts.dedup();
    cuts.retain(|&c| c >= 1 && c < len);
    cuts
}

/// Turn cut positions into chunk slices.
pub fn chunks<'a>(data: &'a [u8], cuts: &[usize]) -> Vec<&'a [u8]> {
    let mut out = vec![];
    let mut prev = 0;
    for &c in cuts {
        out.push(&data[prev..c]);
        prev = c;
    }
    out.push(&data[prev..]);
    out
}
