//! ICC profile stream *encoder* (ISO/IEC 18181-1, ICC profile compression),
//! written from the format definition.  Three layers:
//!
//! 1. the "encoded ICC" byte stream: `Varint(output_size) Varint(commands_size)`,
//!    the command stream, the data stream (header residuals, tag signatures,
//!    payload bytes in command order);
//! 2. the command vocabulary: header prediction, tag-list commands (generic,
//!    17 single shortcuts, the rTRC/gTRC/bTRC and rXYZ/gXYZ/bXYZ expansions,
//!    explicit start / size flags), main-content commands (raw insert,
//!    shuffle2, shuffle4, predicted runs of order 0/1/2 x width 1/2/4 x stride,
//!    `XYZ `, the 8 common type signatures);
//! 3. the outer entropy-coded layer: `U64(enc_size)`, a code description over
//!    41 contexts, one symbol stream whose context depends on the byte index
//!    and the two previous bytes.
//!
//! The encoder takes the *target profile* and draws a segmentation (which
//! command encodes which bytes) from a `Src`; every segmentation encodes
//! exactly the given profile.  A small reference interpreter (`ref_decode`)
//! exists to validate the encoder itself and to classify negative cases.
//! Profile generators (structured and noise) are at the end.

use crate::bits::BitWriter;
use crate::entropy::{lz77_distance_values, CodeOpts, EntropyCode, Lz77Params, Op};
use crate::src::Src;
use std::collections::BTreeSet;

// ---------------------------------------------------------------------------
// Constants fixed by the format.

/// Tag signatures of the single-tag shortcut codes 4..=20.
pub const TAG_SHORTCUTS: [&[u8; 4]; 17] = [
    b"cprt", b"wtpt", b"bkpt", b"rXYZ", b"gXYZ", b"bXYZ", b"kXYZ", b"rTRC", b"gTRC", b"bTRC", b"kTRC", b"chad", b"desc", b"chrm", b"dmnd", b"dmdd", b"lumi",
];
pub const TAGCODE_GENERIC: u8 = 1;
pub const TAGCODE_TRC3: u8 = 2;
pub const TAGCODE_XYZ3: u8 = 3;
pub const TAGCODE_FIRST_SHORTCUT: u8 = 4;
pub const TAG_FLAG_START: u8 = 64;
pub const TAG_FLAG_SIZE: u8 = 128;

/// Type signatures of main-content commands 16..=23 (each followed by four zero bytes).
pub const TYPE_SIGS: [&[u8; 4]; 8] = [b"XYZ ", b"desc", b"text", b"mluc", b"para", b"curv", b"sf32", b"gbd "];

pub const CMD_INSERT: u8 = 1;
pub const CMD_SHUFFLE2: u8 = 2;
pub const CMD_SHUFFLE4: u8 = 3;
pub const CMD_PREDICT: u8 = 4;
pub const CMD_XYZ: u8 = 10;
pub const CMD_TYPE_FIRST: u8 = 16;

/// Tags whose size defaults to 20 when no explicit size is coded.
fn implicit_size_20(sig: &[u8]) -> bool {
    matches!(sig, b"rXYZ" | b"gXYZ" | b"bXYZ" | b"kXYZ" | b"wtpt" | b"bkpt" | b"lumi")
}

// ---------------------------------------------------------------------------
// Varint

pub fn put_varint(out: &mut Vec<u8>, mut v: u64) {
    loop {
        let b = (v & 0x7f) as u8;
        v >>= 7;
        if v != 0 {
            out.push(b | 0x80);
        } else {
            out.push(b);
            break;
        }
    }
}

/// Varint with `extra` superfluous all-zero continuation groups (still the same value).
pub fn put_varint_padded(out: &mut Vec<u8>, v: u64, extra: usize) {
    let at = out.len();
    put_varint(out, v);
    if extra > 0 {
        let last = out.len() - 1;
        out[last] |= 0x80;
        for _ in 1..extra {
            out.push(0x80);
        }
        out.push(0);
    }
    debug_assert!(out.len() - at <= 9);
}

fn get_varint(buf: &[u8], at: &mut usize) -> Result<u64, &'static str> {
    let mut value = 0u64;
    let mut shift = 0u32;
    loop {
        let b = *buf.get(*at).ok_or("varint runs past the end")?;
        *at += 1;
        value |= ((b & 0x7f) as u64) << shift;
        if b & 0x80 == 0 {
            return Ok(value);
        }
        shift += 7;
        if shift >= 63 {
            return Ok(value);
        }
    }
}

// ---------------------------------------------------------------------------
// Header prediction

/// Predicted value of header byte `i` given the profile size and the header
/// bytes before `i`.
pub fn predict_header_byte(i: usize, size: u64, h: &[u8]) -> u8 {
    match i {
        0..=3 => ((size as u32) >> (8 * (3 - i))) as u8,
        8 => 4,
        12..=23 => b"mntrRGB XYZ "[i - 12],
        36..=39 => b"acsp"[i - 36],
        41..=43 => {
            let word: Option<&[u8; 4]> = match h[40] {
                b'A' => Some(b"APPL"),
                b'M' => Some(b"MSFT"),
                b'S' if i >= 42 && h[41] == b'G' => Some(b"SGI "),
                b'S' if i >= 42 && h[41] == b'U' => Some(b"SUNW"),
                _ => None,
            };
            word.map(|w| w[i - 40]).unwrap_or(0)
        }
        70 => 246,
        71 => 214,
        73 => 1,
        78 => 211,
        79 => 45,
        80..=83 => h[4 + i - 80],
        _ => 0,
    }
}

// ---------------------------------------------------------------------------
// Shuffles

/// How the rows of the shuffle matrix are laid out in the stored bytes when
/// the byte count is not a multiple of the width.
#[derive(Clone, Copy, Debug, PartialEq, Eq)]
pub enum ShuffleReading {
    /// Stored bytes fill a matrix with `ceil(n / width)` columns in raster
    /// order (only the last row can be short); output is the transpose.  This
    /// is what libjxl's `Shuffle` computes.
    Raster,
    /// `width` rows, the first `n % width` rows one element longer than the
    /// rest (missing cells at the end of the last column).
    Balanced,
}

/// Start offset and length of every row of the stored matrix.
fn shuffle_rows(n: usize, width: usize, reading: ShuffleReading) -> Vec<(usize, usize)> {
    let mut rows = vec![];
    match reading {
        ShuffleReading::Raster => {
            let cols = n.div_ceil(width);
            let mut at = 0;
            for _ in 0..width {
                let len = cols.min(n - at);
                rows.push((at, len));
                at += len;
            }
        }
        ShuffleReading::Balanced => {
            let q = n / width;
            let r = n % width;
            let mut at = 0;
            for k in 0..width {
                let len = q + (k < r) as usize;
                rows.push((at, len));
                at += len;
            }
        }
    }
    rows
}

/// Decoder direction: stored (planar) bytes -> interleaved bytes.
pub fn shuffle(stored: &[u8], width: usize, reading: ShuffleReading) -> Vec<u8> {
    let n = stored.len();
    let rows = shuffle_rows(n, width, reading);
    let cols = rows.iter().map(|r| r.1).max().unwrap_or(0);
    let mut out = Vec::with_capacity(n);
    for c in 0..cols {
        for &(start, len) in &rows {
            if c < len {
                out.push(stored[start + c]);
            }
        }
    }
    out
}

/// Encoder direction: interleaved bytes -> stored (planar) bytes.
pub fn unshuffle(plain: &[u8], width: usize, reading: ShuffleReading) -> Vec<u8> {
    let n = plain.len();
    let rows = shuffle_rows(n, width, reading);
    let cols = rows.iter().map(|r| r.1).max().unwrap_or(0);
    let mut stored = vec![0u8; n];
    let mut k = 0;
    for c in 0..cols {
        for &(start, len) in &rows {
            if c < len {
                stored[start + c] = plain[k];
                k += 1;
            }
        }
    }
    stored
}

/// True when the two readings of a `width`-way shuffle of `n` bytes differ.
pub fn shuffle_is_ambiguous(n: usize, width: usize) -> bool {
    shuffle_rows(n, width, ShuffleReading::Raster) != shuffle_rows(n, width, ShuffleReading::Balanced)
}

// ---------------------------------------------------------------------------
// Linear prediction

/// Predicted value of the `width`-byte big-endian element that starts at
/// output position `at`, from the elements 1, 2, 3 strides before it.
pub fn predict_element(out: &[u8], at: usize, stride: usize, width: usize, order: u32) -> u32 {
    let elem = |k: usize| -> u32 {
        let o = at - stride * k;
        let mut v = 0u32;
        for j in 0..width {
            v = (v << 8) | out[o + j] as u32;
        }
        v
    };
    match order {
        0 => elem(1),
        1 => elem(1).wrapping_mul(2).wrapping_sub(elem(2)),
        _ => elem(1).wrapping_mul(3).wrapping_sub(elem(2).wrapping_mul(3)).wrapping_add(elem(3)),
    }
}

/// Byte `j` (0 = most significant) of a predicted element.
fn element_byte(v: u32, width: usize, j: usize) -> u8 {
    (v >> (8 * (width - 1 - j))) as u8
}

// ---------------------------------------------------------------------------
// Entropy-layer context

pub fn icc_context(index: usize, b1: u8, b2: u8) -> u32 {
    if index <= 128 {
        return 0;
    }
    let letter = |b: u8| b.is_ascii_alphabetic();
    let digitish = |b: u8| b.is_ascii_digit() || b == b'.' || b == b',';
    let p1 = if letter(b1) {
        0
    } else if digitish(b1) {
        1
    } else if b1 <= 1 {
        2 + b1 as u32
    } else if b1 < 16 {
        4
    } else if b1 > 240 && b1 < 255 {
        5
    } else if b1 == 255 {
        6
    } else {
        7
    };
    let p2 = if letter(b2) {
        0
    } else if digitish(b2) {
        1
    } else if b2 < 16 {
        2
    } else if b2 > 240 {
        3
    } else {
        4
    };
    1 + p1 + 8 * p2
}

// ---------------------------------------------------------------------------
// The encoded-ICC byte stream

#[derive(Clone, Debug, Default)]
pub struct EncOpts {
    /// Allow width-4 shuffles whose byte count makes the two `ShuffleReading`s differ.
    pub allow_ambiguous_shuffle: bool,
    /// The reading used for all shuffles.
    pub reading: Option<ShuffleReading>,
    /// Keep using tag-list commands for entries with `start + size > profile size`.
    pub allow_out_of_range_tags: bool,
}

#[derive(Clone, Debug)]
pub struct EncodedIcc {
    pub output_size: u64,
    pub commands: Vec<u8>,
    pub data: Vec<u8>,
    /// Offsets in `commands` where a command starts, and whether it is a tag-list command.
    pub cmd_starts: Vec<(usize, bool)>,
    /// Offset in `commands` where the tag list ends (position of the terminating 0, or
    /// `commands.len()` when the command stream ends inside the tag list); None without a tag list.
    pub taglist_end: Option<usize>,
    /// The command stream ends while the tag list is still open (no terminator written).
    pub taglist_open: bool,
    pub classes: BTreeSet<String>,
    /// Short rendering of the commands (for case descriptions).
    pub log: Vec<String>,
    pub n_predict: usize,
    pub n_shortcut: usize,
    pub n_commands: usize,
    /// A width-4 shuffle with a byte count on which the readings differ was used.
    pub ambiguous_shuffle_used: bool,
    pub out_of_range_tag_used: bool,
    /// extra superfluous continuation groups on the two preamble varints
    pub pad_preamble: (usize, usize),
}

impl EncodedIcc {
    pub fn assemble(&self) -> Vec<u8> {
        assemble(self.output_size, self.commands.len() as u64, &self.commands, &self.data, self.pad_preamble)
    }
}

pub fn assemble(output_size: u64, commands_size: u64, commands: &[u8], data: &[u8], pad: (usize, usize)) -> Vec<u8> {
    let mut out = Vec::with_capacity(commands.len() + data.len() + 12);
    put_varint_padded(&mut out, output_size, pad.0);
    put_varint_padded(&mut out, commands_size, pad.1);
    out.extend_from_slice(commands);
    out.extend_from_slice(data);
    out
}

fn be32(p: &[u8], at: usize) -> u64 {
    u32::from_be_bytes([p[at], p[at + 1], p[at + 2], p[at + 3]]) as u64
}

struct Enc<'a, 'b, 'c> {
    p: &'a [u8],
    src: &'b mut Src<'c>,
    opts: &'a EncOpts,
    reading: ShuffleReading,
    e: EncodedIcc,
}

impl Enc<'_, '_, '_> {
    fn vi(&mut self, v: u64) {
        let extra = if self.src.chance(5) {
            self.e.classes.insert("varint:padded".into());
            1 + self.src.below(2)
        } else {
            0
        };
        put_varint_padded(&mut self.e.commands, v, extra);
    }

    fn start_cmd(&mut self, in_taglist: bool) {
        self.e.cmd_starts.push((self.e.commands.len(), in_taglist));
        self.e.n_commands += 1;
    }

    fn note(&mut self, s: String) {
        if self.e.log.len() < 24 {
            self.e.log.push(s);
        }
    }

    fn header(&mut self) {
        let n = self.p.len();
        for i in 0..n.min(128) {
            let pred = predict_header_byte(i, n as u64, self.p);
            self.e.data.push(self.p[i].wrapping_sub(pred));
        }
    }

    /// Tag list; returns the profile position reached.
    fn tag_list(&mut self) -> usize {
        let p = self.p;
        let n = p.len();
        let num_tags = if n >= 132 { be32(p, 128) } else { u64::MAX };
        let fits = n >= 132 && num_tags <= ((n - 132) / 12) as u64;
        if n >= 132 && !fits {
            self.e.classes.insert("excl:tag-table-does-not-fit".into());
        }
        if !fits || self.src.chance(36) {
            self.e.classes.insert("taglist:none".into());
            self.note("notags".into());
            self.vi(0);
            return 128;
        }
        let num_tags = num_tags as usize;
        self.vi(num_tags as u64 + 1);
        self.note(format!("tags({num_tags})"));
        let mut pos = 132;
        let mut prev_start = 128 + 12 * num_tags as u64;
        let mut prev_size = 0u64;
        let mut i = 0;
        let mut ended_by = "taglist:full";
        while i < num_tags {
            if self.src.chance(5) {
                ended_by = "taglist:cut-early";
                break;
            }
            let at = 132 + 12 * i;
            let sig: [u8; 4] = [p[at], p[at + 1], p[at + 2], p[at + 3]];
            let start = be32(p, at + 4);
            let size = be32(p, at + 8);
            if start + size > n as u64 {
                if self.opts.allow_out_of_range_tags {
                    self.e.out_of_range_tag_used = true;
                } else {
                    self.e.classes.insert("excl:tag-entry-out-of-range".into());
                    ended_by = "taglist:cut-out-of-range";
                    break;
                }
            }
            // which codes can express this entry (and possibly the next two)
            let entry = |k: usize| -> Option<([u8; 4], u64, u64)> {
                if k < num_tags {
                    let a = 132 + 12 * k;
                    Some(([p[a], p[a + 1], p[a + 2], p[a + 3]], be32(p, a + 4), be32(p, a + 8)))
                } else {
                    None
                }
            };
            let trc3 = &sig == b"rTRC" && entry(i + 1) == Some((*b"gTRC", start, size)) && entry(i + 2) == Some((*b"bTRC", start, size));
            let xyz3 = &sig == b"rXYZ"
                && start + 2 * size <= u32::MAX as u64
                && entry(i + 1) == Some((*b"gXYZ", start + size, size))
                && entry(i + 2) == Some((*b"bXYZ", start + 2 * size, size));
            let single = TAG_SHORTCUTS.iter().position(|s| **s == sig);
            let mut options: Vec<u8> = vec![];
            if trc3 {
                options.push(TAGCODE_TRC3);
                options.push(TAGCODE_TRC3);
            }
            if xyz3 {
                options.push(TAGCODE_XYZ3);
                options.push(TAGCODE_XYZ3);
            }
            if let Some(k) = single {
                options.push(TAGCODE_FIRST_SHORTCUT + k as u8);
                options.push(TAGCODE_FIRST_SHORTCUT + k as u8);
            }
            // the generic form is always available; it is the only one for unknown
            // signatures and a rare alternative for known ones
            if options.is_empty() || self.src.chance(40) {
                options.push(TAGCODE_GENERIC);
            }
            let code = options[self.src.below(options.len())];
            let implicit_start = start == prev_start + prev_size;
            let default_size = if implicit_size_20(&sig) { 20 } else { prev_size };
            let implicit_size = size == default_size;
            let explicit_start = !implicit_start || self.src.chance(24);
            let explicit_size = !implicit_size || self.src.chance(24);
            let command = code | if explicit_start { TAG_FLAG_START } else { 0 } | if explicit_size { TAG_FLAG_SIZE } else { 0 };
            self.start_cmd(true);
            self.e.commands.push(command);
            if code == TAGCODE_GENERIC {
                self.e.data.extend_from_slice(&sig);
                self.e.classes.insert(if single.is_some() { "tag:generic(known-signature)".into() } else { "tag:generic".into() });
            } else {
                self.e.n_shortcut += 1;
                self.e.classes.insert(match code {
                    TAGCODE_TRC3 => "tag:trc3".to_string(),
                    TAGCODE_XYZ3 => "tag:xyz3".to_string(),
                    _ => "tag:shortcut".to_string(),
                });
                if code >= TAGCODE_FIRST_SHORTCUT {
                    self.e.classes.insert(format!("tagcode:{}", String::from_utf8_lossy(&sig)));
                }
            }
            if explicit_start {
                self.vi(start);
                self.e.classes.insert(if implicit_start { "tag:explicit-start(redundant)".into() } else { "tag:explicit-start".to_string() });
            } else {
                self.e.classes.insert("tag:implicit-start".into());
            }
            if explicit_size {
                self.vi(size);
                self.e.classes.insert(if implicit_size { "tag:explicit-size(redundant)".into() } else { "tag:explicit-size".to_string() });
            } else if implicit_size_20(&sig) {
                self.e.classes.insert("tag:implicit-size-20".into());
            } else {
                self.e.classes.insert("tag:implicit-size-prev".into());
            }
            self.note(format!("tag{}{}{}", code, if explicit_start { "+start" } else { "" }, if explicit_size { "+size" } else { "" }));
            // the expansions leave "previous" at the first of the three entries
            prev_start = start;
            prev_size = size;
            let consumed = if code == TAGCODE_TRC3 || code == TAGCODE_XYZ3 { 3 } else { 1 };
            i += consumed;
            pos += 12 * consumed;
        }
        self.e.classes.insert(ended_by.into());
        self.e.taglist_end = Some(self.e.commands.len());
        if pos == n && i == num_tags && self.src.bool() {
            // the profile ends with its tag table: the command stream may simply end here
            self.e.taglist_open = true;
            self.e.classes.insert("taglist:unterminated-at-end".into());
        } else {
            self.start_cmd(true);
            self.e.commands.push(0);
        }
        pos
    }

    /// Positions at or after `from` where a segment boundary is interesting
    /// (payload boundaries named by a plausible tag table, and the places where
    /// a `XYZ ` / type-signature command applies).
    fn interesting_positions(&self, from: usize) -> Vec<usize> {
        let p = self.p;
        let n = p.len();
        let mut v = BTreeSet::new();
        if n >= 132 {
            let num_tags = be32(p, 128) as usize;
            if num_tags <= (n - 132) / 12 {
                for k in 0..num_tags.min(200) {
                    let a = 132 + 12 * k;
                    let s = be32(p, a + 4) as usize;
                    let e = s.saturating_add(be32(p, a + 8) as usize);
                    for x in [s, s.saturating_add(8), e] {
                        if x > from && x < n {
                            v.insert(x);
                        }
                    }
                }
            }
        }
        // scan for type signatures followed by four zero bytes (bounded work)
        let mut i = from;
        let mut found = 0;
        while i + 8 <= n && found < 400 {
            if p[i + 4..i + 8] == [0, 0, 0, 0] && TYPE_SIGS.iter().any(|s| s[..] == p[i..i + 4]) {
                v.insert(i);
                found += 1;
                i += 8;
            } else {
                i += 1;
            }
        }
        v.into_iter().collect()
    }

    fn push_insert(&mut self, pos: usize, len: usize) {
        self.start_cmd(false);
        self.e.commands.push(CMD_INSERT);
        self.vi(len as u64);
        self.e.data.extend_from_slice(&self.p[pos..pos + len]);
        self.e.classes.insert("cmd:insert".into());
        self.note(format!("ins({len})"));
    }

    /// A length for a width-4 shuffle near `len` on which the readings agree (or `len`
    /// itself when ambiguity is allowed).
    fn settle_len4(&mut self, len: usize) -> usize {
        if !shuffle_is_ambiguous(len, 4) {
            return len;
        }
        if self.opts.allow_ambiguous_shuffle {
            self.e.ambiguous_shuffle_used = true;
            self.e.classes.insert("shuffle4:ragged-ambiguous".into());
            return len;
        }
        self.e.classes.insert("excl:shuffle4-ragged-ambiguous".into());
        // len % 4 is 1 or 2 here and len >= 5: shorten to a multiple of 4 or to 3 mod 4
        let down = if self.src.bool() { len - len % 4 } else { len - len % 4 - 1 };
        down.max(1)
    }

    fn main_content(&mut self, mut pos: usize) {
        let n = self.p.len();
        let marks = self.interesting_positions(pos);
        while pos < n {
            let overhead = (self.e.commands.len() + self.e.data.len()).saturating_sub(pos);
            if self.src.exhausted() || overhead > 48_000 {
                if overhead > 48_000 {
                    self.e.classes.insert("excl:encoded-much-larger-than-profile".into());
                }
                self.push_insert(pos, n - pos);
                break;
            }
            let rest = n - pos;
            let p = self.p;
            // commands that apply only at matching content
            if rest >= 20 && &p[pos..pos + 4] == b"XYZ " && p[pos + 4..pos + 8] == [0, 0, 0, 0] && self.src.chance(150) {
                self.start_cmd(false);
                self.e.commands.push(CMD_XYZ);
                self.e.data.extend_from_slice(&p[pos + 8..pos + 20]);
                self.e.classes.insert("cmd:xyz".into());
                self.note("xyz".into());
                pos += 20;
                continue;
            }
            if rest >= 8 && p[pos + 4..pos + 8] == [0, 0, 0, 0] {
                if let Some(k) = TYPE_SIGS.iter().position(|s| s[..] == p[pos..pos + 4]) {
                    if self.src.chance(190) {
                        self.start_cmd(false);
                        self.e.commands.push(CMD_TYPE_FIRST + k as u8);
                        self.e.classes.insert(format!("cmd:type:{}", String::from_utf8_lossy(TYPE_SIGS[k]).trim()));
                        self.note(format!("type{k}"));
                        pos += 8;
                        continue;
                    }
                }
            }
            // segment length
            let next_mark = marks.iter().copied().find(|&m| m > pos).unwrap_or(n);
            let mut len = match self.src.weighted(&[4, 2, 3, 2, 1, 1]) {
                0 => next_mark - pos,
                1 => self.src.range(1, 8) as usize,
                2 => self.src.range(1, 64) as usize,
                3 => self.src.range(1, 1024) as usize,
                4 => self.src.range(1, rest as u64) as usize,
                _ => rest,
            }
            .min(rest);
            if self.src.chance(4) {
                len = 0;
                self.e.classes.insert("len:zero".into());
            }
            match self.src.weighted(&[5, 2, 1, 1]) {
                1 => self.push_insert(pos, len),
                2 | 3 => {
                    let width = if self.src.bool() { 4 } else { 2 };
                    if width == 4 {
                        len = self.settle_len4(len);
                    }
                    self.start_cmd(false);
                    self.e.commands.push(if width == 2 { CMD_SHUFFLE2 } else { CMD_SHUFFLE4 });
                    self.vi(len as u64);
                    let stored = unshuffle(&p[pos..pos + len], width, self.reading);
                    self.e.data.extend_from_slice(&stored);
                    self.e.classes.insert(format!("cmd:shuffle{width}/{}", if len % width == 0 { "whole" } else { "ragged" }));
                    self.note(format!("shuf{width}({len})"));
                }
                _ => {
                    let mut width = [1usize, 2, 4][self.src.below(3)];
                    let order = self.src.below(3) as u32;
                    let max_stride = (pos - 1) / 4;
                    if max_stride < width {
                        width = 1;
                    }
                    let (stride, explicit, class) = match self.src.weighted(&[4, 1, 3, 2, 1, 1]) {
                        0 => (width, false, "implicit"),
                        1 => (width, true, "explicit=width"),
                        2 => ((width * self.src.range(2, 8) as usize).min(max_stride), true, "multiple"),
                        3 => (self.src.pick(&[3usize, 5, 6, 9, 12, 20, 36]).clamp(width, max_stride), true, "odd"),
                        4 => (self.src.range(width as u64, max_stride as u64) as usize, true, "any"),
                        _ => (max_stride, true, "max"),
                    };
                    if width == 4 {
                        len = self.settle_len4(len);
                    }
                    self.start_cmd(false);
                    self.e.commands.push(CMD_PREDICT);
                    self.e.commands.push((width as u8 - 1) | ((order as u8) << 2) | if explicit { 16 } else { 0 });
                    if explicit {
                        self.vi(stride as u64);
                    }
                    self.vi(len as u64);
                    let mut residual = Vec::with_capacity(len);
                    let mut i = 0;
                    while i < len {
                        let v = predict_element(p, pos + i, stride, width, order);
                        for j in 0..width.min(len - i) {
                            residual.push(p[pos + i + j].wrapping_sub(element_byte(v, width, j)));
                        }
                        i += width;
                    }
                    let stored = if width > 1 { unshuffle(&residual, width, self.reading) } else { residual };
                    self.e.data.extend_from_slice(&stored);
                    self.e.n_predict += 1;
                    self.e.classes.insert(format!("cmd:predict/w{width}/o{order}/stride:{class}"));
                    if len % width != 0 {
                        self.e.classes.insert(format!("predict:partial-last-element/w{width}"));
                    }
                    self.note(format!("pred(w{width},o{order},s{stride},{len})"));
                }
            }
            pos += len;
        }
    }
}

/// Encodes `profile` with a segmentation drawn from `src`.
pub fn encode_icc(profile: &[u8], src: &mut Src, opts: &EncOpts) -> EncodedIcc {
    let e = EncodedIcc {
        output_size: profile.len() as u64,
        commands: vec![],
        data: vec![],
        cmd_starts: vec![],
        taglist_end: None,
        taglist_open: false,
        classes: BTreeSet::new(),
        log: vec![],
        n_predict: 0,
        n_shortcut: 0,
        n_commands: 0,
        ambiguous_shuffle_used: false,
        out_of_range_tag_used: false,
        pad_preamble: (0, 0),
    };
    let reading = opts.reading.unwrap_or(ShuffleReading::Raster);
    let mut enc = Enc { p: profile, src, opts, reading, e };
    if enc.src.chance(6) {
        enc.e.pad_preamble = (enc.src.below(3), enc.src.below(3));
        enc.e.classes.insert("varint:padded".into());
    }
    enc.header();
    if profile.len() > 128 {
        let pos = enc.tag_list();
        enc.main_content(pos);
    }
    enc.e
}

// ---------------------------------------------------------------------------
// Reference interpreter (validates the encoder; classifies negative cases)

pub fn ref_decode(enc: &[u8], reading: ShuffleReading) -> Result<Vec<u8>, &'static str> {
    let mut at = 0;
    let output_size = get_varint(enc, &mut at)?;
    let commands_size = get_varint(enc, &mut at)?;
    if commands_size > (enc.len() - at) as u64 {
        return Err("commands_size exceeds the stream");
    }
    if output_size > 1 << 28 {
        return Err("output_size too large");
    }
    let n = output_size as usize;
    let cmds = &enc[at..at + commands_size as usize];
    let data = &enc[at + commands_size as usize..];
    let mut c = 0usize;
    let mut d = 0usize;
    fn take<'a>(data: &'a [u8], d: &mut usize, k: u64) -> Result<&'a [u8], &'static str> {
        if k > (data.len() - *d) as u64 {
            return Err("data stream overrun");
        }
        let s = &data[*d..*d + k as usize];
        *d += k as usize;
        Ok(s)
    }
    let mut out: Vec<u8> = Vec::with_capacity(n);
    let hs = n.min(128);
    let hres = take(data, &mut d, hs as u64)?;
    for i in 0..hs {
        let pred = predict_header_byte(i, output_size, &out);
        out.push(pred.wrapping_add(hres[i]));
    }
    if n <= 128 {
        return Ok(out);
    }
    let fits32 = |v: u64| -> Result<u64, &'static str> {
        if v > u32::MAX as u64 {
            Err("value does not fit 32 bits")
        } else {
            Ok(v)
        }
    };
    let v = get_varint(cmds, &mut c)?;
    if v != 0 {
        let num_tags = fits32(v - 1)?;
        out.extend_from_slice(&(num_tags as u32).to_be_bytes());
        let mut prev_start = 128 + 12 * num_tags;
        let mut prev_size = 0u64;
        while c < cmds.len() {
            if out.len() > n {
                return Err("output longer than output_size");
            }
            let command = cmds[c];
            c += 1;
            let code = command & 63;
            let sig: [u8; 4] = match code {
                0 => break,
                1 => take(data, &mut d, 4)?.try_into().unwrap(),
                2 => *b"rTRC",
                3 => *b"rXYZ",
                4..=20 => *TAG_SHORTCUTS[code as usize - 4],
                _ => return Err("unknown tag code"),
            };
            let start = if command & TAG_FLAG_START != 0 { fits32(get_varint(cmds, &mut c)?)? } else { fits32(prev_start + prev_size)? };
            let size = if command & TAG_FLAG_SIZE != 0 {
                fits32(get_varint(cmds, &mut c)?)?
            } else if implicit_size_20(&sig) {
                20
            } else {
                prev_size
            };
            prev_start = start;
            prev_size = size;
            let mut put = |s: &[u8; 4], a: u64, b: u64| -> Result<(), &'static str> {
                out.extend_from_slice(s);
                out.extend_from_slice(&(fits32(a)? as u32).to_be_bytes());
                out.extend_from_slice(&(b as u32).to_be_bytes());
                Ok(())
            };
            put(&sig, start, size)?;
            if code == 2 {
                put(b"gTRC", start, size)?;
                put(b"bTRC", start, size)?;
            } else if code == 3 {
                put(b"gXYZ", start + size, size)?;
                put(b"bXYZ", start + 2 * size, size)?;
            }
        }
    }
    while c < cmds.len() {
        if out.len() > n {
            return Err("output longer than output_size");
        }
        let command = cmds[c];
        c += 1;
        match command {
            1 => {
                let num = get_varint(cmds, &mut c)?;
                out.extend_from_slice(take(data, &mut d, num)?);
            }
            2 | 3 => {
                let num = get_varint(cmds, &mut c)?;
                let s = take(data, &mut d, num)?;
                out.extend_from_slice(&shuffle(s, if command == 2 { 2 } else { 4 }, reading));
            }
            4 => {
                let flags = *cmds.get(c).ok_or("command stream ends inside a command")?;
                c += 1;
                let width = (flags & 3) as usize + 1;
                let order = ((flags >> 2) & 3) as u32;
                if width == 3 {
                    return Err("width 3");
                }
                if order == 3 {
                    return Err("order 3");
                }
                let stride = if flags & 16 != 0 {
                    let s = get_varint(cmds, &mut c)?;
                    if s < width as u64 {
                        return Err("stride < width");
                    }
                    s
                } else {
                    width as u64
                };
                if stride.saturating_mul(4) >= out.len() as u64 {
                    return Err("stride * 4 >= bytes output so far");
                }
                let stride = stride as usize;
                let num = get_varint(cmds, &mut c)?;
                let s = take(data, &mut d, num)?;
                let res = if width > 1 { shuffle(s, width, reading) } else { s.to_vec() };
                let mut i = 0;
                while i < res.len() {
                    let v = predict_element(&out, out.len(), stride, width, order);
                    for j in 0..width.min(res.len() - i) {
                        out.push(res[i + j].wrapping_add(element_byte(v, width, j)));
                    }
                    i += width;
                }
            }
            10 => {
                let s = take(data, &mut d, 12)?;
                out.extend_from_slice(b"XYZ \0\0\0\0");
                out.extend_from_slice(s);
            }
            16..=23 => {
                out.extend_from_slice(TYPE_SIGS[command as usize - 16]);
                out.extend_from_slice(&[0, 0, 0, 0]);
            }
            _ => return Err("unknown command"),
        }
    }
    if out.len() != n {
        return Err("commands do not produce output_size bytes");
    }
    Ok(out)
}

// ---------------------------------------------------------------------------
// Outer layer: entropy coding of the encoded-ICC bytes

#[derive(Clone, Debug, Default)]
pub struct IccStreamInfo {
    pub notes: Vec<String>,
    pub n_copies: usize,
}

/// Ops for the encoded bytes: one literal per byte with the format's context
/// function, and (when `min_length` is given) LZ77 copies where the bytes repeat.
pub fn icc_ops(enc: &[u8], src: &mut Src, min_length: Option<u32>) -> (Vec<Op>, usize) {
    let mut ops = Vec::with_capacity(enc.len());
    let mut n_copies = 0;
    let ctx_at = |i: usize| -> u32 {
        let b1 = if i >= 1 { enc[i - 1] } else { 0 };
        let b2 = if i >= 2 { enc[i - 2] } else { 0 };
        icc_context(i, b1, b2)
    };
    let mut i = 0;
    let mut last_d = 1usize;
    let mut no_try_before = 0usize;
    while i < enc.len() {
        if let (Some(ml), true) = (min_length, i >= 1 && i >= no_try_before && !src.exhausted()) {
            // best candidate among a few distances
            let mut best = (0usize, 0usize);
            for d in [1usize, 2, 4, 12, last_d] {
                if d > i || d > (1 << 20) {
                    continue;
                }
                let mut l = 0;
                while i + l < enc.len() && enc[i + l] == enc[i + l - d] && l < 5000 {
                    l += 1;
                }
                if l > best.0 {
                    best = (l, d);
                }
            }
            if best.0 >= ml as usize && src.chance(200) {
                let (mut l, d) = best;
                if src.chance(64) {
                    l = src.range(ml as u64, l as u64) as usize;
                }
                let cands = lz77_distance_values(d as u32, 0, i as u32, src);
                let dv = cands[src.below(cands.len())];
                ops.push(Op::Copy { ctx: ctx_at(i), len: l as u32, dist_value: dv });
                n_copies += 1;
                last_d = d;
                i += l;
                continue;
            }
            // declined or too short: do not rescan the same repetition byte by byte
            no_try_before = i + best.0.max(1);
        }
        ops.push(Op::Lit { ctx: ctx_at(i), value: enc[i] as u32 });
        i += 1;
    }
    (ops, n_copies)
}

/// Writes `U64(enc_size)`, the code description over 41 contexts and the symbol stream.
pub fn write_icc_stream(w: &mut BitWriter, enc: &[u8], src: &mut Src) -> IccStreamInfo {
    write_icc_stream_with_size(w, enc, enc.len() as u64, src)
}

/// As `write_icc_stream`, with a freely chosen declared `enc_size` (negative cases).
pub fn write_icc_stream_with_size(w: &mut BitWriter, enc: &[u8], declared: u64, src: &mut Src) -> IccStreamInfo {
    let min_length = if src.chance(70) { Some(Lz77Params::gen_min_length(src)) } else { None };
    let (ops, n_copies) = icc_ops(enc, src, min_length);
    let opts = CodeOpts { lz77_min_length: min_length, use_prefix: None, ..Default::default() };
    // `EntropyCode::generate` sizes each hybrid-integer config by the largest value of a
    // context, but with lsb-in-token configs a smaller value can get a larger token.  The
    // all-ones value below the next power of two has the largest token of all values up to
    // it, so a statistics-only stream carrying it per context makes the configs safe.
    let mut top = [None::<u32>; 41];
    for o in &ops {
        if let Op::Lit { ctx, value } = *o {
            let t = &mut top[ctx as usize];
            *t = Some(t.unwrap_or(0).max(value));
        }
    }
    let phantom: Vec<Op> = (0..41u32).filter_map(|ctx| top[ctx as usize].map(|m| Op::Lit { ctx, value: (1u32 << (32 - m.leading_zeros())).wrapping_sub(1).max(m) })).collect();
    let code = EntropyCode::generate(src, 41, &[&ops, &phantom], &opts);
    w.u64_any(declared, src);
    code.write_header(w, src);
    code.write_stream(w, &ops, true);
    IccStreamInfo { notes: code.notes.clone(), n_copies }
}

// ---------------------------------------------------------------------------
// Profile generators

/// Bulk content comes from a small PRNG seeded from the choice sequence, so a
/// 300 KiB profile does not need 300 KiB of choices.
pub struct Rng(u64);

impl Rng {
    pub fn new(seed: u64) -> Self {
        Rng(seed ^ 0x9E37_79B9_7F4A_7C15)
    }
    pub fn next(&mut self) -> u64 {
        // splitmix64
        self.0 = self.0.wrapping_add(0x9E37_79B9_7F4A_7C15);
        let mut z = self.0;
        z = (z ^ (z >> 30)).wrapping_mul(0xBF58_476D_1CE4_E5B9);
        z = (z ^ (z >> 27)).wrapping_mul(0x94D0_49BB_1331_11EB);
        z ^ (z >> 31)
    }
    pub fn byte(&mut self) -> u8 {
        (self.next() >> 24) as u8
    }
    pub fn below(&mut self, n: u64) -> u64 {
        if n == 0 {
            0
        } else {
            (self.next() >> 11) % n
        }
    }
}

#[derive(Clone, Debug)]
pub struct GenProfile {
    pub bytes: Vec<u8>,
    pub kind: &'static str,
}

fn gen_size(src: &mut Src) -> usize {
    match src.weighted(&[2, 4, 4, 3, 1, 1]) {
        0 => src.range(0, 8) as usize,
        1 => src.range(0, 200) as usize,
        2 => src.range(0, 1500) as usize,
        3 => src.range(0, 20_000) as usize,
        4 => src.range(0, 80_000) as usize,
        _ => src.range(0, 307_200) as usize,
    }
}

const BOUNDARY_SIZES: [usize; 20] = [0, 1, 3, 4, 5, 40, 41, 42, 44, 80, 84, 127, 128, 129, 131, 132, 133, 143, 144, 156];

fn fill_noise(out: &mut Vec<u8>, n: usize, style: usize, rng: &mut Rng) {
    match style {
        0 => out.extend((0..n).map(|_| rng.byte())),
        1 => {
            // few distinct values, runs
            let pal: Vec<u8> = (0..1 + rng.below(5)).map(|_| [0u8, 1, 255, 0x20, b'a', 0xf5, 7][rng.below(7) as usize]).collect();
            let target = out.len() + n;
            while out.len() < target {
                let v = pal[rng.below(pal.len() as u64) as usize];
                let run = 1 + rng.below(40) as usize;
                for _ in 0..run.min(target - out.len()) {
                    out.push(v);
                }
            }
        }
        2 => {
            // big-endian arithmetic / quadratic sequences of 1, 2 or 4 byte elements, in pieces
            let target = out.len() + n;
            while out.len() < target {
                let width = [1usize, 2, 4][rng.below(3) as usize];
                let count = 1 + rng.below(400) as usize;
                let mut v = rng.next() as u32;
                let mut step = (rng.next() as u32) >> (8 + rng.below(24) as u32);
                let accel = if rng.below(2) == 0 { 0 } else { rng.below(9) as u32 };
                for _ in 0..count {
                    let b = v.to_be_bytes();
                    for j in 4 - width..4 {
                        if out.len() < target {
                            out.push(b[j]);
                        }
                    }
                    v = v.wrapping_add(step);
                    step = step.wrapping_add(accel);
                }
            }
        }
        _ => {
            // text-like
            const A: &[u8] = b"abcdefghijklmnopqrstuvwxyz ABCDEFGHIJKLMNOPQRSTUVWXYZ0123456789.,-()";
            out.extend((0..n).map(|_| A[rng.below(A.len() as u64) as usize]));
        }
    }
}

fn gen_header(src: &mut Src, rng: &mut Rng, size_field: u32) -> [u8; 128] {
    let mut h = [0u8; 128];
    h[0..4].copy_from_slice(&size_field.to_be_bytes());
    let cmm: [u8; 4] = match src.below(5) {
        0 => *b"lcms",
        1 => *b"APPL",
        2 => *b"ADBE",
        3 => [0; 4],
        _ => [rng.byte(), rng.byte(), rng.byte(), rng.byte()],
    };
    h[4..8].copy_from_slice(&cmm);
    let ver: [u8; 4] = match src.below(4) {
        0 => [4, 0x30, 0, 0],
        1 => [2, 0x10, 0, 0],
        2 => [4, 0x20, 0, 0],
        _ => [rng.byte() & 7, rng.byte(), 0, 0],
    };
    h[8..12].copy_from_slice(&ver);
    h[12..16].copy_from_slice(src.pick(&[b"mntr", b"scnr", b"prtr", b"spac", b"link", b"abst"]));
    h[16..20].copy_from_slice(src.pick(&[b"RGB ", b"GRAY", b"CMYK", b"Lab ", b"RGB "]));
    h[20..24].copy_from_slice(src.pick(&[b"XYZ ", b"Lab "]));
    // date and time
    let date = [2000 + rng.below(30) as u16, 1 + rng.below(12) as u16, 1 + rng.below(28) as u16, rng.below(24) as u16, rng.below(60) as u16, rng.below(60) as u16];
    for (k, v) in date.iter().enumerate() {
        h[24 + 2 * k..26 + 2 * k].copy_from_slice(&v.to_be_bytes());
    }
    h[36..40].copy_from_slice(if src.chance(24) { b"acsq" } else { b"acsp" });
    let platform: [u8; 4] = match src.below(12) {
        0 => *b"APPL",
        1 => *b"MSFT",
        2 => *b"SGI ",
        3 => *b"SUNW",
        4 => [0; 4],
        5 => *b"ADBE",  // 'A' but not APPL
        6 => *b"MSXX",  // 'M', partly MSFT
        7 => *b"SGXY",  // 'S','G' but not "I "
        8 => *b"SUN ",  // 'S','U', last differs
        9 => *b"SXYZ",  // 'S' with another second letter
        10 => *b"TGTG",
        _ => [rng.byte(), rng.byte(), rng.byte(), rng.byte()],
    };
    h[40..44].copy_from_slice(&platform);
    h[44..48].copy_from_slice(&(rng.below(4) as u32).to_be_bytes());
    if src.bool() {
        for b in h[48..56].iter_mut() {
            *b = b"ABCDEFGHIJKLMNOPQRSTUVWXYZ "[rng.below(27) as usize];
        }
    }
    h[67] = src.below(4) as u8;
    // PCS illuminant (D50), sometimes slightly off
    h[68..80].copy_from_slice(&[0, 0, 0xf6, 0xd6, 0, 1, 0, 0, 0, 0, 0xd3, 0x2d]);
    if src.chance(40) {
        let k = 68 + rng.below(12) as usize;
        h[k] = h[k].wrapping_add(1 + rng.below(3) as u8);
    }
    // creator: usually a copy of the CMM field
    if src.chance(60) {
        h[80..84].copy_from_slice(&[rng.byte(), rng.byte(), rng.byte(), rng.byte()]);
    } else {
        let c = [h[4], h[5], h[6], h[7]];
        h[80..84].copy_from_slice(&c);
    }
    if src.bool() {
        for b in h[84..100].iter_mut() {
            *b = rng.byte();
        }
    }
    if src.chance(20) {
        let k = 100 + rng.below(28) as usize;
        h[k] = rng.byte();
    }
    h
}

fn s15f16(v: f64) -> [u8; 4] {
    ((v * 65536.0).round() as i32).to_be_bytes()
}

fn payload_xyz(rng: &mut Rng) -> Vec<u8> {
    let mut v = b"XYZ \0\0\0\0".to_vec();
    for _ in 0..3 {
        v.extend_from_slice(&s15f16(rng.below(100_000) as f64 / 100_000.0));
    }
    v
}

fn payload_curv(src: &mut Src, rng: &mut Rng) -> Vec<u8> {
    let count = match src.weighted(&[2, 2, 3, 2, 1]) {
        0 => 0,
        1 => 1,
        2 => src.range(2, 64) as usize,
        3 => src.range(2, 4096) as usize,
        _ => src.range(2, 120_000) as usize,
    };
    let mut v = b"curv\0\0\0\0".to_vec();
    v.extend_from_slice(&(count as u32).to_be_bytes());
    if count == 1 {
        v.extend_from_slice(&[2, 0x33]);
    } else {
        let gamma = 1.0 + rng.below(200) as f64 / 100.0;
        let jitter = rng.below(3);
        for i in 0..count {
            let x = i as f64 / (count - 1).max(1) as f64;
            let y = (x.powf(gamma) * 65535.0).round() as i64 + if jitter == 0 { 0 } else { rng.below(1 + jitter) as i64 };
            v.extend_from_slice(&(y.clamp(0, 65535) as u16).to_be_bytes());
        }
    }
    v
}

fn payload_para(src: &mut Src, rng: &mut Rng) -> Vec<u8> {
    let ft = src.below(5);
    let np = [1, 3, 4, 5, 7][ft];
    let mut v = b"para\0\0\0\0".to_vec();
    v.extend_from_slice(&(ft as u16).to_be_bytes());
    v.extend_from_slice(&[0, 0]);
    for _ in 0..np {
        v.extend_from_slice(&s15f16(rng.below(300_000) as f64 / 100_000.0));
    }
    v
}

fn ascii_text(rng: &mut Rng, n: usize) -> Vec<u8> {
    const A: &[u8] = b"Copyright (c) 2019, 2024 Display P3 sRGB IEC61966-2.1 profile. No rights reserved, ";
    let start = rng.below(A.len() as u64) as usize;
    (0..n).map(|i| A[(start + i) % A.len()]).collect()
}

fn payload_text(src: &mut Src, rng: &mut Rng) -> Vec<u8> {
    let n = src.range(0, 120) as usize;
    let mut v = b"text\0\0\0\0".to_vec();
    v.extend(ascii_text(rng, n));
    v.push(0);
    v
}

fn payload_desc(src: &mut Src, rng: &mut Rng) -> Vec<u8> {
    let n = src.range(1, 60) as usize;
    let mut v = b"desc\0\0\0\0".to_vec();
    v.extend_from_slice(&(n as u32 + 1).to_be_bytes());
    v.extend(ascii_text(rng, n));
    v.push(0);
    v.extend_from_slice(&[0; 12]); // unicode code + count, scriptcode code + count (partial)
    v.extend_from_slice(&[0; 67]);
    v
}

fn payload_mluc(src: &mut Src, rng: &mut Rng) -> Vec<u8> {
    let nrec = src.range(1, 4) as usize;
    let mut v = b"mluc\0\0\0\0".to_vec();
    v.extend_from_slice(&(nrec as u32).to_be_bytes());
    v.extend_from_slice(&12u32.to_be_bytes());
    let mut strings: Vec<Vec<u8>> = vec![];
    for _ in 0..nrec {
        let n = src.range(1, 40) as usize;
        let mut s = vec![];
        for c in ascii_text(rng, n) {
            s.push(0);
            s.push(c);
        }
        strings.push(s);
    }
    let mut off = 16 + 12 * nrec;
    for (k, s) in strings.iter().enumerate() {
        v.extend_from_slice([b"enUS", b"deDE", b"jaJP", b"frFR"][k % 4]);
        v.extend_from_slice(&(s.len() as u32).to_be_bytes());
        v.extend_from_slice(&(off as u32).to_be_bytes());
        off += s.len();
    }
    for s in strings {
        v.extend(s);
    }
    v
}

fn payload_sf32(src: &mut Src, rng: &mut Rng) -> Vec<u8> {
    let n = if src.bool() { 9 } else { src.range(0, 40) as usize };
    let mut v = b"sf32\0\0\0\0".to_vec();
    for _ in 0..n {
        v.extend_from_slice(&s15f16(rng.below(200_000) as f64 / 100_000.0 - 1.0));
    }
    v
}

fn payload_lut(src: &mut Src, rng: &mut Rng) -> Vec<u8> {
    // an 'mft2'-like table: small header, then a smooth 16-bit CLUT with 3 outputs per node
    let grid = match src.weighted(&[3, 2, 1]) {
        0 => src.range(2, 5) as usize,
        1 => src.range(2, 17) as usize,
        _ => src.range(17, 33) as usize,
    };
    let mut v = b"mft2\0\0\0\0".to_vec();
    v.extend_from_slice(&[3, 3, grid as u8, 0]);
    for k in 0..9 {
        v.extend_from_slice(&s15f16(if k % 4 == 0 { 1.0 } else { 0.0 }));
    }
    let (a, b, c) = (rng.below(300) as usize + 1, rng.below(300) as usize + 1, rng.below(300) as usize + 1);
    for x in 0..grid {
        for y in 0..grid {
            for z in 0..grid {
                for ch in 0..3 {
                    let val = (x * a * (ch + 1) + y * b + z * c * (3 - ch)) as u32 + (x * x) as u32;
                    v.extend_from_slice(&(val as u16).to_be_bytes());
                }
            }
        }
    }
    v
}

fn payload_for(sig: &[u8; 4], src: &mut Src, rng: &mut Rng) -> Vec<u8> {
    match sig {
        b"rXYZ" | b"gXYZ" | b"bXYZ" | b"kXYZ" | b"wtpt" | b"bkpt" | b"lumi" => {
            if src.chance(16) {
                payload_sf32(src, rng)
            } else {
                payload_xyz(rng)
            }
        }
        b"rTRC" | b"gTRC" | b"bTRC" | b"kTRC" => {
            if src.bool() {
                payload_curv(src, rng)
            } else {
                payload_para(src, rng)
            }
        }
        b"cprt" => {
            if src.bool() {
                payload_text(src, rng)
            } else {
                payload_mluc(src, rng)
            }
        }
        b"desc" | b"dmnd" | b"dmdd" => {
            if src.bool() {
                payload_desc(src, rng)
            } else {
                payload_mluc(src, rng)
            }
        }
        b"chad" => payload_sf32(src, rng),
        b"A2B0" | b"B2A0" | b"gamt" => payload_lut(src, rng),
        _ => match src.below(6) {
            0 => payload_sf32(src, rng),
            1 => payload_text(src, rng),
            2 => payload_lut(src, rng),
            3 => {
                let mut v = b"gbd \0\0\0\0".to_vec();
                let n = src.range(0, 64) as usize;
                fill_noise(&mut v, n, 2, rng);
                v
            }
            4 => {
                let n = gen_size(src).min(120_000);
                let mut v = vec![];
                fill_noise(&mut v, n, rng.below(4) as usize, rng);
                v
            }
            _ => {
                let mut v = b"chrm\0\0\0\0".to_vec();
                v.extend_from_slice(&[0, 3, 0, 1]);
                for _ in 0..6 {
                    v.extend_from_slice(&s15f16(rng.below(100_000) as f64 / 100_000.0));
                }
                v
            }
        },
    }
}

const OTHER_SIGS: [&[u8; 4]; 10] = [b"A2B0", b"B2A0", b"gamt", b"meas", b"tech", b"vued", b"view", b"clrt", b"cicp", b"targ"];

fn gen_structured(src: &mut Src) -> Vec<u8> {
    let mut rng = Rng::new(src.u64());
    // table plan: (signature, payload index)
    let mut payloads: Vec<Vec<u8>> = vec![];
    let mut table: Vec<([u8; 4], usize)> = vec![];
    let groups = match src.weighted(&[1, 4, 3, 1]) {
        0 => 0,
        1 => src.range(1, 4) as usize,
        2 => src.range(1, 10) as usize,
        _ => src.range(1, 40) as usize,
    };
    for _ in 0..groups {
        match src.weighted(&[3, 3, 6, 2]) {
            0 => {
                // TRC family: shared payload (typical) or separate ones
                let shared = !src.chance(70);
                let sigs: &[&[u8; 4]] = if src.chance(40) { &[b"rTRC", b"gTRC"] } else { &[b"rTRC", b"gTRC", b"bTRC"] };
                let first = payloads.len();
                payloads.push(payload_for(b"rTRC", src, &mut rng));
                for (k, s) in sigs.iter().enumerate() {
                    if !shared && k > 0 {
                        payloads.push(payload_for(s, src, &mut rng));
                    }
                    table.push((**s, if shared { first } else { first + k }));
                }
            }
            1 => {
                let sigs: &[&[u8; 4]] = if src.chance(40) { &[b"rXYZ", b"bXYZ", b"gXYZ"] } else { &[b"rXYZ", b"gXYZ", b"bXYZ"] };
                for s in sigs {
                    table.push((**s, payloads.len()));
                    payloads.push(payload_for(s, src, &mut rng));
                }
            }
            2 => {
                let sig: [u8; 4] = if src.chance(200) {
                    *TAG_SHORTCUTS[src.below(TAG_SHORTCUTS.len())]
                } else if src.bool() {
                    *OTHER_SIGS[src.below(OTHER_SIGS.len())]
                } else {
                    [rng.byte(), rng.byte(), rng.byte(), rng.byte()]
                };
                table.push((sig, payloads.len()));
                payloads.push(payload_for(&sig, src, &mut rng));
            }
            _ => {
                // another name for an existing payload
                if !payloads.is_empty() {
                    let sig = *TAG_SHORTCUTS[src.below(TAG_SHORTCUTS.len())];
                    let k = src.below(payloads.len());
                    table.push((sig, k));
                } else {
                    table.push((*b"wtpt", 0));
                    payloads.push(payload_xyz(&mut rng));
                }
            }
        }
    }
    // layout of the payloads (in index order, or rotated), 4-byte aligned most of the time
    let ntags = table.len();
    let mut body: Vec<u8> = vec![];
    let base = 132 + 12 * ntags;
    let mut place = vec![(0usize, 0usize); payloads.len()];
    let order: Vec<usize> = if !payloads.is_empty() && src.chance(40) {
        let r = src.below(payloads.len());
        (0..payloads.len()).map(|k| (k + r) % payloads.len()).collect()
    } else {
        (0..payloads.len()).collect()
    };
    let align = !src.chance(40);
    for &k in &order {
        if align {
            while (base + body.len()) % 4 != 0 {
                body.push(0);
            }
        } else if src.chance(30) {
            body.extend_from_slice(&[0; 3][..src.below(3)]);
        }
        place[k] = (base + body.len(), payloads[k].len());
        body.extend_from_slice(&payloads[k]);
    }
    if align {
        while (base + body.len()) % 4 != 0 {
            body.push(0);
        }
    }
    let n = base + body.len();
    let size_field = if src.chance(24) { (n as u32).wrapping_add(src.range(1, 1000) as u32) } else { n as u32 };
    let mut out = gen_header(src, &mut rng, size_field).to_vec();
    out.extend_from_slice(&(ntags as u32).to_be_bytes());
    for (sig, k) in &table {
        out.extend_from_slice(sig);
        let (mut s, mut z) = place[*k];
        if src.chance(8) {
            // declared size differs from the payload (stays inside the profile)
            z = src.range(0, (n - s) as u64) as usize;
        }
        if src.chance(4) {
            s = src.range(0, (n - z) as u64) as usize;
        }
        out.extend_from_slice(&(s as u32).to_be_bytes());
        out.extend_from_slice(&(z as u32).to_be_bytes());
    }
    out.extend_from_slice(&body);
    out
}

pub fn gen_profile(src: &mut Src) -> GenProfile {
    match src.weighted(&[1, 8, 3, 2, 2, 1]) {
        0 => {
            let n = src.range(0, 6) as usize;
            GenProfile { bytes: src.bytes(n), kind: "tiny" }
        }
        1 => GenProfile { bytes: gen_structured(src), kind: "structured" },
        2 => {
            let n = gen_size(src);
            let mut rng = Rng::new(src.u64());
            let style = src.below(4);
            let mut v = vec![];
            fill_noise(&mut v, n, style, &mut rng);
            GenProfile { bytes: v, kind: ["noise:random", "noise:low-entropy", "noise:sequences", "noise:text"][style] }
        }
        3 => {
            // structured profile with damage: flipped bytes, truncation or a tail
            let mut v = gen_structured(src);
            let mut rng = Rng::new(src.u64());
            for _ in 0..src.range(1, 6) {
                if v.is_empty() {
                    break;
                }
                let k = if src.bool() { src.below(v.len().min(400)) } else { src.below(v.len()) };
                v[k] = rng.byte();
            }
            match src.below(4) {
                0 => {
                    let keep = src.below(v.len() + 1);
                    v.truncate(keep);
                }
                1 => {
                    let extra = src.range(1, 50) as usize;
                    fill_noise(&mut v, extra, 0, &mut rng);
                }
                _ => {}
            }
            GenProfile { bytes: v, kind: "structured:damaged" }
        }
        4 => {
            // a plausible header followed by noise (tag table is garbage)
            let n = gen_size(src);
            let mut rng = Rng::new(src.u64());
            let mut v = gen_header(src, &mut rng, n as u32).to_vec();
            let style = src.below(4);
            fill_noise(&mut v, n.saturating_sub(128), style, &mut rng);
            v.truncate(n);
            GenProfile { bytes: v, kind: "header+noise" }
        }
        _ => {
            let n = BOUNDARY_SIZES[src.below(BOUNDARY_SIZES.len())];
            let mut rng = Rng::new(src.u64());
            let mut v = gen_header(src, &mut rng, n as u32).to_vec();
            if n > 128 {
                // zero tag count and zeros, or noise
                if src.bool() {
                    v.resize(n, 0);
                } else {
                    fill_noise(&mut v, n - 128, 0, &mut rng);
                }
            }
            v.truncate(n);
            GenProfile { bytes: v, kind: "boundary-size" }
        }
    }
}

pub fn size_bucket(n: usize) -> &'static str {
    match n {
        0 => "size:0",
        1..=128 => "size:1-128",
        129..=1024 => "size:129-1K",
        1025..=16384 => "size:1K-16K",
        16385..=65536 => "size:16K-64K",
        _ => "size:>64K",
    }
}

#[cfg(test)]
mod tests {
    use super::*;

    #[test]
    fn shuffle_roundtrip_and_readings() {
        for n in 0..40usize {
            let plain: Vec<u8> = (0..n as u8).collect();
            for w in [2usize, 4] {
                for r in [ShuffleReading::Raster, ShuffleReading::Balanced] {
                    assert_eq!(shuffle(&unshuffle(&plain, w, r), w, r), plain);
                }
            }
            assert!(!shuffle_is_ambiguous(n, 2));
            assert_eq!(shuffle_is_ambiguous(n, 4), n >= 5 && (n % 4 == 1 || n % 4 == 2), "n={n}");
        }
        // "ABCDabcd" -> "AaBbCcDd"
        assert_eq!(shuffle(b"ABCDabcd", 2, ShuffleReading::Raster), b"AaBbCcDd");
        // raster reading of 6 bytes, width 4: rows [0,1],[2,3],[4,5]
        assert_eq!(shuffle(&[0, 1, 2, 3, 4, 5], 4, ShuffleReading::Raster), [0, 2, 4, 1, 3, 5]);
        assert_eq!(shuffle(&[0, 1, 2, 3, 4, 5], 4, ShuffleReading::Balanced), [0, 2, 4, 5, 1, 3]);
    }

    #[test]
    fn encoder_agrees_with_reference_interpreter() {
        let mut seed = Rng::new(12345);
        let mut predicted = 0;
        let mut shortcuts = 0;
        for case in 0..3000 {
            let len = seed.below(3000) as usize;
            let choice: Vec<u8> = (0..len).map(|_| seed.byte()).collect();
            let mut src = Src::new(&choice);
            let prof = gen_profile(&mut src);
            for reading in [ShuffleReading::Raster, ShuffleReading::Balanced] {
                let mut s = src.clone();
                let opts = EncOpts { allow_ambiguous_shuffle: true, reading: Some(reading), allow_out_of_range_tags: case % 2 == 0 };
                let e = encode_icc(&prof.bytes, &mut s, &opts);
                predicted += e.n_predict;
                shortcuts += e.n_shortcut;
                let enc = e.assemble();
                let back = ref_decode(&enc, reading).unwrap_or_else(|err| panic!("case {case} ({}, {} bytes): {err}; log {:?}", prof.kind, prof.bytes.len(), e.log));
                assert!(back == prof.bytes, "case {case} ({}, {} bytes): mismatch; log {:?}", prof.kind, prof.bytes.len(), e.log);
            }
        }
        assert!(predicted > 1000 && shortcuts > 1000, "{predicted} {shortcuts}");
    }
}
