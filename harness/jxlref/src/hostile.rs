//! Spec-level hostility for robustness checks (C01): while armed, the structural entropy-coded streams
//! (MA trees, TOC permutations, patch dictionaries, spline dictionaries, coefficient orders) get one of
//! their literal values replaced before they are coded, so that the decoder sees a well-formed stream
//! carrying a value its validation has to catch (an index one past the end, a count at a limit, ...).
//! The state is thread-local; the valid-stream checks never arm it.

use crate::entropy::stream::Op;
use std::cell::Cell;

thread_local! {
    static STATE: Cell<u64> = const { Cell::new(0) };
}

pub fn arm(seed: u64) {
    STATE.with(|s| s.set(seed | 1));
}

pub fn disarm() {
    STATE.with(|s| s.set(0));
}

pub fn active() -> bool {
    STATE.with(|s| s.get() != 0)
}

fn next() -> u64 {
    STATE.with(|s| {
        let mut x = s.get();
        x ^= x << 13;
        x ^= x >> 7;
        x ^= x << 17;
        s.set(x | 1);
        x.wrapping_mul(0x2545_f491_4f6c_dd1d)
    })
}

/// With probability 1/2 replaces the value of one literal of `ops` (only while armed).
pub fn perturb(ops: &mut [Op]) {
    if !active() || ops.is_empty() || next() % 2 == 0 {
        return;
    }
    let lits: Vec<usize> = ops.iter().enumerate().filter(|(_, o)| matches!(o, Op::Lit { .. })).map(|(i, _)| i).collect();
    if lits.is_empty() {
        return;
    }
    let i = lits[(next() % lits.len() as u64) as usize];
    if let Op::Lit { value, .. } = &mut ops[i] {
        let v = *value;
        *value = match next() % 8 {
            0 => v.wrapping_add(1),
            1 => v.wrapping_add(2),
            2 => v.saturating_sub(1),
            3 => v.wrapping_mul(2).wrapping_add(1),
            4 => 0,
            5 => 255,
            6 => 65535,
            _ => v ^ (1 << (next() % 12)),
        };
    }
}
