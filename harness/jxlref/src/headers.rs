//! Image header / frame header / TOC writer, written from the format
//! definition (ISO/IEC 18181-1, Annexes A and C).  Semantic content lives in
//! the `*Spec` structs; *how* a value is encoded (which U32 selector, which U64
//! form, div8 / ratio shortcuts, `all_default` shortcuts) is drawn from a `Src`
//! at write time so non-canonical encodings are covered.

use crate::bits::{BitWriter, D};
use crate::src::Src;

// ---------------------------------------------------------------------------
// Size headers

pub fn ratio_width(ratio: u32, h: u32) -> u32 {
    let h = h as u64;
    (match ratio {
        1 => h,
        2 => h * 12 / 10,
        3 => h * 4 / 3,
        4 => h * 3 / 2,
        5 => h * 16 / 9,
        6 => h * 5 / 4,
        7 => h * 2,
        _ => unreachable!(),
    }) as u32
}

const SIZE_D: [D; 4] = [D::B(1, 9), D::B(1, 13), D::B(1, 18), D::B(1, 30)];

/// SizeHeader (A.3?): `div8`, height, `ratio`, width.
pub fn write_size_header(w: &mut BitWriter, width: u32, height: u32, src: &mut Src) {
    assert!(width >= 1 && height >= 1 && width <= (1 << 30) && height <= (1 << 30));
    let ratios: Vec<u32> = (1..=7).filter(|&r| ratio_width(r, height) == width).collect();
    let ratio = if !ratios.is_empty() && src.chance(192) { ratios[src.below(ratios.len())] } else { 0 };
    let h8 = height % 8 == 0 && (1..=32).contains(&(height / 8));
    let w8 = width % 8 == 0 && (1..=32).contains(&(width / 8));
    let can_div8 = h8 && (ratio != 0 || w8);
    let div8 = can_div8 && src.chance(192);
    w.bit(div8);
    if div8 {
        w.bits((height / 8 - 1) as u64, 5);
    } else {
        w.u32_any(SIZE_D, height, src);
    }
    w.bits(ratio as u64, 3);
    if ratio == 0 {
        if div8 {
            w.bits((width / 8 - 1) as u64, 5);
        } else {
            w.u32_any(SIZE_D, width, src);
        }
    }
}

const PREVIEW_DIV8_D: [D; 4] = [D::C(16), D::C(32), D::B(1, 5), D::B(33, 9)];
const PREVIEW_D: [D; 4] = [D::B(1, 6), D::B(65, 8), D::B(321, 10), D::B(1345, 12)];

fn d_contains(d: &[D; 4], v: u32) -> bool {
    d.iter().any(|d| match *d {
        D::C(c) => c == v,
        D::B(off, bits) => v >= off && ((v - off) as u64) < (1u64 << bits),
    })
}

pub fn preview_size_ok(width: u32, height: u32) -> bool {
    // explicit form must be able to hold it (1..=5440)
    d_contains(&PREVIEW_D, width) && d_contains(&PREVIEW_D, height)
}

pub fn write_preview_header(w: &mut BitWriter, width: u32, height: u32, src: &mut Src) {
    let ratios: Vec<u32> = (1..=7).filter(|&r| ratio_width(r, height) == width).collect();
    let ratio = if !ratios.is_empty() && src.chance(192) { ratios[src.below(ratios.len())] } else { 0 };
    let h8 = height % 8 == 0 && d_contains(&PREVIEW_DIV8_D, height / 8);
    let w8 = width % 8 == 0 && d_contains(&PREVIEW_DIV8_D, width / 8);
    let can_div8 = h8 && (ratio != 0 || w8);
    let div8 = can_div8 && src.chance(192);
    w.bit(div8);
    if div8 {
        w.u32_any(PREVIEW_DIV8_D, height / 8, src);
    } else {
        w.u32_any(PREVIEW_D, height, src);
    }
    w.bits(ratio as u64, 3);
    if ratio == 0 {
        if div8 {
            w.u32_any(PREVIEW_DIV8_D, width / 8, src);
        } else {
            w.u32_any(PREVIEW_D, width, src);
        }
    }
}

// ---------------------------------------------------------------------------
// Image metadata

#[derive(Clone, Copy, Debug, PartialEq)]
pub enum BitDepthSpec {
    Int { bits: u32 },
    Float { bits: u32, exp_bits: u32 },
}

impl Default for BitDepthSpec {
    fn default() -> Self {
        BitDepthSpec::Int { bits: 8 }
    }
}

impl BitDepthSpec {
    pub fn bits(&self) -> u32 {
        match *self {
            BitDepthSpec::Int { bits } => bits,
            BitDepthSpec::Float { bits, .. } => bits,
        }
    }
}

pub fn write_bit_depth(w: &mut BitWriter, b: BitDepthSpec, src: &mut Src) {
    match b {
        BitDepthSpec::Int { bits } => {
            w.bit(false);
            w.u32_any([D::C(8), D::C(10), D::C(12), D::B(1, 6)], bits, src);
        }
        BitDepthSpec::Float { bits, exp_bits } => {
            w.bit(true);
            w.u32_any([D::C(32), D::C(16), D::C(24), D::B(1, 6)], bits, src);
            w.bits((exp_bits - 1) as u64, 4);
        }
    }
}

#[derive(Clone, Debug, PartialEq)]
pub enum EcTypeSpec {
    Alpha { associated: bool },
    Depth,
    Spot { rgbs: [u16; 4] },
    SelectionMask,
    Black,
    Cfa { channel: u32 },
    Thermal,
    NonOptional,
    Optional,
}

impl EcTypeSpec {
    pub fn code(&self) -> u32 {
        match self {
            EcTypeSpec::Alpha { .. } => 0,
            EcTypeSpec::Depth => 1,
            EcTypeSpec::Spot { .. } => 2,
            EcTypeSpec::SelectionMask => 3,
            EcTypeSpec::Black => 4,
            EcTypeSpec::Cfa { .. } => 5,
            EcTypeSpec::Thermal => 6,
            EcTypeSpec::NonOptional => 15,
            EcTypeSpec::Optional => 16,
        }
    }
}

#[derive(Clone, Debug, PartialEq)]
pub struct EcInfoSpec {
    pub ty: EcTypeSpec,
    pub bit_depth: BitDepthSpec,
    pub dim_shift: u32,
    pub name: String,
}

impl Default for EcInfoSpec {
    fn default() -> Self {
        EcInfoSpec { ty: EcTypeSpec::Alpha { associated: false }, bit_depth: BitDepthSpec::default(), dim_shift: 0, name: String::new() }
    }
}

pub fn write_name(w: &mut BitWriter, name: &str, src: &mut Src) {
    let b = name.as_bytes();
    w.u32_any([D::C(0), D::B(0, 4), D::B(16, 5), D::B(48, 10)], b.len() as u32, src);
    for &c in b {
        w.bits(c as u64, 8);
    }
}

pub fn write_ec_info(w: &mut BitWriter, e: &EcInfoSpec, src: &mut Src) {
    let is_default = *e == EcInfoSpec::default();
    let d_alpha = is_default && src.chance(224);
    w.bit(d_alpha);
    if d_alpha {
        return;
    }
    w.enum_any(e.ty.code(), src);
    write_bit_depth(w, e.bit_depth, src);
    w.u32_any([D::C(0), D::C(3), D::C(4), D::B(1, 3)], e.dim_shift, src);
    write_name(w, &e.name, src);
    match &e.ty {
        EcTypeSpec::Alpha { associated } => w.bit(*associated),
        EcTypeSpec::Spot { rgbs } => {
            for &v in rgbs {
                w.f16_bits(v);
            }
        }
        EcTypeSpec::Cfa { channel } => w.u32_any([D::C(1), D::B(0, 2), D::B(3, 4), D::B(19, 8)], *channel, src),
        _ => {}
    }
}

#[derive(Clone, Copy, Debug, PartialEq, Eq)]
pub struct Xy {
    pub x: i32,
    pub y: i32,
}

#[derive(Clone, Copy, Debug, PartialEq, Eq)]
pub enum WhitePointSpec {
    D65,
    Custom(Xy),
    E,
    Dci,
}

#[derive(Clone, Copy, Debug, PartialEq, Eq)]
pub enum PrimariesSpec {
    Srgb,
    Custom { r: Xy, g: Xy, b: Xy },
    Bt2100,
    P3,
}

#[derive(Clone, Copy, Debug, PartialEq, Eq)]
pub enum TfSpec {
    Gamma(u32),
    Bt709,
    Unknown,
    Linear,
    Srgb,
    Pq,
    Dci,
    Hlg,
}

impl TfSpec {
    pub fn code(&self) -> u32 {
        match self {
            TfSpec::Gamma(_) => unreachable!(),
            TfSpec::Bt709 => 1,
            TfSpec::Unknown => 2,
            TfSpec::Linear => 8,
            TfSpec::Srgb => 13,
            TfSpec::Pq => 16,
            TfSpec::Dci => 17,
            TfSpec::Hlg => 18,
        }
    }
}

/// colour_space: 0 RGB, 1 Grey, 2 XYB, 3 Unknown
#[derive(Clone, Debug, PartialEq)]
pub enum ColourEncodingSpec {
    Icc { colour_space: u32 },
    Enum { colour_space: u32, white_point: WhitePointSpec, primaries: PrimariesSpec, tf: TfSpec, intent: u32 },
}

impl Default for ColourEncodingSpec {
    fn default() -> Self {
        ColourEncodingSpec::Enum { colour_space: 0, white_point: WhitePointSpec::D65, primaries: PrimariesSpec::Srgb, tf: TfSpec::Srgb, intent: 1 }
    }
}

impl ColourEncodingSpec {
    pub fn colour_space(&self) -> u32 {
        match self {
            ColourEncodingSpec::Icc { colour_space } => *colour_space,
            ColourEncodingSpec::Enum { colour_space, .. } => *colour_space,
        }
    }
    pub fn want_icc(&self) -> bool {
        matches!(self, ColourEncodingSpec::Icc { .. })
    }
    pub fn is_gray(&self) -> bool {
        self.colour_space() == 1
    }
}

const XY_D: [D; 4] = [D::B(0, 19), D::B(524288, 19), D::B(1048576, 20), D::B(2097152, 21)];

pub fn xy_max_packed() -> u32 {
    2097152 + (1 << 21) - 1
}

pub fn write_xy(w: &mut BitWriter, p: Xy, src: &mut Src) {
    w.u32_any(XY_D, crate::bits::pack_signed(p.x), src);
    w.u32_any(XY_D, crate::bits::pack_signed(p.y), src);
}

pub fn write_colour_encoding(w: &mut BitWriter, c: &ColourEncodingSpec, src: &mut Src) {
    let all_default = *c == ColourEncodingSpec::default() && src.chance(224);
    w.bit(all_default);
    if all_default {
        return;
    }
    match c {
        ColourEncodingSpec::Icc { colour_space } => {
            w.bit(true);
            w.enum_any(*colour_space, src);
        }
        ColourEncodingSpec::Enum { colour_space, white_point, primaries, tf, intent } => {
            w.bit(false);
            w.enum_any(*colour_space, src);
            if *colour_space != 2 {
                match white_point {
                    WhitePointSpec::D65 => w.enum_any(1, src),
                    WhitePointSpec::Custom(p) => {
                        w.enum_any(2, src);
                        write_xy(w, *p, src);
                    }
                    WhitePointSpec::E => w.enum_any(10, src),
                    WhitePointSpec::Dci => w.enum_any(11, src),
                }
            }
            if *colour_space != 2 && *colour_space != 1 {
                match primaries {
                    PrimariesSpec::Srgb => w.enum_any(1, src),
                    PrimariesSpec::Custom { r, g, b } => {
                        w.enum_any(2, src);
                        write_xy(w, *r, src);
                        write_xy(w, *g, src);
                        write_xy(w, *b, src);
                    }
                    PrimariesSpec::Bt2100 => w.enum_any(9, src),
                    PrimariesSpec::P3 => w.enum_any(11, src),
                }
            }
            match tf {
                TfSpec::Gamma(g) => {
                    w.bit(true);
                    w.bits(*g as u64, 24);
                }
                other => {
                    w.bit(false);
                    w.enum_any(other.code(), src);
                }
            }
            w.enum_any(*intent, src);
        }
    }
}

#[derive(Clone, Debug, PartialEq)]
pub struct ToneMappingSpec {
    pub intensity_target: u16,
    pub min_nits: u16,
    pub relative_to_max_display: bool,
    pub linear_below: u16,
}

impl Default for ToneMappingSpec {
    fn default() -> Self {
        // 255.0, 0.0, false, 0.0
        ToneMappingSpec { intensity_target: 0x5bf8, min_nits: 0, relative_to_max_display: false, linear_below: 0 }
    }
}

pub fn write_tone_mapping(w: &mut BitWriter, t: &ToneMappingSpec, src: &mut Src) {
    let all_default = *t == ToneMappingSpec::default() && src.chance(224);
    w.bit(all_default);
    if all_default {
        return;
    }
    w.f16_bits(t.intensity_target);
    w.f16_bits(t.min_nits);
    w.bit(t.relative_to_max_display);
    w.f16_bits(t.linear_below);
}

/// Extensions: bit mask and per-extension payloads (as bit strings).
#[derive(Clone, Debug, Default, PartialEq)]
pub struct ExtensionsSpec {
    /// (extension index 0..63, payload bit length, payload bits source seed)
    pub items: Vec<(u32, u32)>,
}

pub fn write_extensions(w: &mut BitWriter, e: &ExtensionsSpec, src: &mut Src) {
    let mut mask = 0u64;
    for (idx, _) in &e.items {
        mask |= 1u64 << idx;
    }
    w.u64_any(mask, src);
    let mut items = e.items.clone();
    items.sort();
    for (_, len) in &items {
        w.u64_any(*len as u64, src);
    }
    for (_, len) in &items {
        for _ in 0..*len {
            w.bit(src.bool());
        }
    }
}

#[derive(Clone, Debug, PartialEq)]
pub struct OpsinSpec {
    pub inv_mat: [[u16; 3]; 3],
    pub opsin_bias: [u16; 3],
    pub quant_bias: [u16; 3],
    pub quant_bias_numerator: u16,
}

#[derive(Clone, Debug, PartialEq)]
pub struct AnimationSpec {
    pub tps_numerator: u32,
    pub tps_denominator: u32,
    pub num_loops: u32,
    pub have_timecodes: bool,
}

#[derive(Clone, Debug, PartialEq)]
pub struct ImageHeaderSpec {
    pub width: u32,
    pub height: u32,
    pub orientation: u32,
    pub intrinsic_size: Option<(u32, u32)>,
    pub preview: Option<(u32, u32)>,
    pub animation: Option<AnimationSpec>,
    pub bit_depth: BitDepthSpec,
    pub modular_16bit_buffers: bool,
    pub ec_info: Vec<EcInfoSpec>,
    pub xyb_encoded: bool,
    pub colour_encoding: ColourEncodingSpec,
    pub tone_mapping: ToneMappingSpec,
    pub extensions: ExtensionsSpec,
    /// Custom opsin inverse matrix (only signalled when xyb_encoded).
    pub opsin: Option<OpsinSpec>,
    pub up2: Option<Vec<u16>>,
    pub up4: Option<Vec<u16>>,
    pub up8: Option<Vec<u16>>,
}

impl Default for ImageHeaderSpec {
    fn default() -> Self {
        ImageHeaderSpec {
            width: 8,
            height: 8,
            orientation: 1,
            intrinsic_size: None,
            preview: None,
            animation: None,
            bit_depth: BitDepthSpec::default(),
            modular_16bit_buffers: true,
            ec_info: vec![],
            xyb_encoded: true,
            colour_encoding: ColourEncodingSpec::default(),
            tone_mapping: ToneMappingSpec::default(),
            extensions: ExtensionsSpec::default(),
            opsin: None,
            up2: None,
            up4: None,
            up8: None,
        }
    }
}

impl ImageHeaderSpec {
    fn metadata_all_default(&self) -> bool {
        self.orientation == 1
            && self.intrinsic_size.is_none()
            && self.preview.is_none()
            && self.animation.is_none()
            && self.bit_depth == BitDepthSpec::default()
            && self.modular_16bit_buffers
            && self.ec_info.is_empty()
            && self.xyb_encoded
            && self.colour_encoding == ColourEncodingSpec::default()
            && self.tone_mapping == ToneMappingSpec::default()
            && self.extensions.items.is_empty()
    }

    fn needs_extra_fields(&self) -> bool {
        self.orientation != 1
            || self.intrinsic_size.is_some()
            || self.preview.is_some()
            || self.animation.is_some()
            || self.tone_mapping != ToneMappingSpec::default()
    }
}

/// Writes signature + SizeHeader + ImageMetadata (incl. custom transform data).
/// Does NOT write the ICC stream or the trailing zero padding.
pub fn write_image_header(w: &mut BitWriter, h: &ImageHeaderSpec, src: &mut Src) {
    w.bits(0xff, 8);
    w.bits(0x0a, 8);
    write_size_header(w, h.width, h.height, src);
    let all_default = h.metadata_all_default() && src.chance(224);
    w.bit(all_default);
    if !all_default {
        let extra = h.needs_extra_fields() || src.chance(64);
        w.bit(extra);
        if extra {
            w.bits((h.orientation - 1) as u64, 3);
            w.bit(h.intrinsic_size.is_some());
            if let Some((iw, ih)) = h.intrinsic_size {
                write_size_header(w, iw, ih, src);
            }
            w.bit(h.preview.is_some());
            if let Some((pw, ph)) = h.preview {
                write_preview_header(w, pw, ph, src);
            }
            w.bit(h.animation.is_some());
            if let Some(a) = &h.animation {
                w.u32_any([D::C(100), D::C(1000), D::B(1, 10), D::B(1, 30)], a.tps_numerator, src);
                w.u32_any([D::C(1), D::C(1001), D::B(1, 8), D::B(1, 10)], a.tps_denominator, src);
                w.u32_any([D::C(0), D::B(0, 3), D::B(0, 16), D::B(0, 32)], a.num_loops, src);
                w.bit(a.have_timecodes);
            }
        }
        write_bit_depth(w, h.bit_depth, src);
        w.bit(h.modular_16bit_buffers);
        w.u32_any([D::C(0), D::C(1), D::B(2, 4), D::B(1, 12)], h.ec_info.len() as u32, src);
        for e in &h.ec_info {
            write_ec_info(w, e, src);
        }
        w.bit(h.xyb_encoded);
        write_colour_encoding(w, &h.colour_encoding, src);
        if extra {
            write_tone_mapping(w, &h.tone_mapping, src);
        }
        write_extensions(w, &h.extensions, src);
    }
    // custom transform data
    let opsin = if h.xyb_encoded { h.opsin.as_ref() } else { None };
    let default_m = opsin.is_none() && h.up2.is_none() && h.up4.is_none() && h.up8.is_none() && src.chance(224);
    w.bit(default_m);
    if !default_m {
        if h.xyb_encoded {
            w.bit(opsin.is_none());
            if let Some(o) = opsin {
                for row in &o.inv_mat {
                    for &v in row {
                        w.f16_bits(v);
                    }
                }
                for &v in &o.opsin_bias {
                    w.f16_bits(v);
                }
                for &v in &o.quant_bias {
                    w.f16_bits(v);
                }
                w.f16_bits(o.quant_bias_numerator);
            }
        }
        let mask = h.up2.is_some() as u64 | (h.up4.is_some() as u64) << 1 | (h.up8.is_some() as u64) << 2;
        w.bits(mask, 3);
        for (v, n) in [(&h.up2, 15), (&h.up4, 55), (&h.up8, 210)] {
            if let Some(v) = v {
                assert_eq!(v.len(), n);
                for &x in v {
                    w.f16_bits(x);
                }
            }
        }
    }
}

// ---------------------------------------------------------------------------
// Frame header

#[derive(Clone, Copy, Debug, PartialEq, Eq)]
pub enum FrameTypeSpec {
    Regular = 0,
    Lf = 1,
    ReferenceOnly = 2,
    SkipProgressive = 3,
}

impl FrameTypeSpec {
    pub fn is_normal(&self) -> bool {
        matches!(self, FrameTypeSpec::Regular | FrameTypeSpec::SkipProgressive)
    }
}

pub const FLAG_NOISE: u64 = 1;
pub const FLAG_PATCHES: u64 = 2;
pub const FLAG_SPLINES: u64 = 16;
pub const FLAG_USE_LF_FRAME: u64 = 32;
pub const FLAG_SKIP_ADAPTIVE_LF_SMOOTHING: u64 = 128;

#[derive(Clone, Debug, PartialEq)]
pub struct PassesSpec {
    pub num_passes: u32,
    pub shift: Vec<u32>,
    pub downsample: Vec<u32>,
    pub last_pass: Vec<u32>,
}

impl Default for PassesSpec {
    fn default() -> Self {
        PassesSpec { num_passes: 1, shift: vec![], downsample: vec![], last_pass: vec![] }
    }
}

/// 0 Replace, 1 Add, 2 Blend, 3 MulAdd, 4 Mul
#[derive(Clone, Debug, PartialEq, Default)]
pub struct BlendingInfoSpec {
    pub mode: u32,
    pub alpha_channel: u32,
    pub clamp: bool,
    pub source: u32,
}

#[derive(Clone, Debug, PartialEq)]
pub enum GaborSpec {
    Disabled,
    Default,
    Custom([[u16; 2]; 3]),
}

#[derive(Clone, Debug, PartialEq)]
pub struct EpfSpec {
    pub iters: u32,
    pub sharp_lut: Option<[u16; 8]>,
    pub channel_scale: Option<[u16; 3]>,
    /// quant_mul (VarDCT only), pass0_sigma_scale, pass2_sigma_scale, border_sad_mul
    pub sigma: Option<[u16; 4]>,
    pub sigma_for_modular: u16,
}

#[derive(Clone, Debug, PartialEq)]
pub struct RestorationFilterSpec {
    pub gab: GaborSpec,
    /// None = disabled (iters 0)
    pub epf: Option<EpfSpec>,
    pub extensions: ExtensionsSpec,
}

impl Default for RestorationFilterSpec {
    fn default() -> Self {
        RestorationFilterSpec {
            gab: GaborSpec::Default,
            epf: Some(EpfSpec { iters: 2, sharp_lut: None, channel_scale: None, sigma: None, sigma_for_modular: 0x3c00 }),
            extensions: ExtensionsSpec::default(),
        }
    }
}

impl RestorationFilterSpec {
    pub fn none() -> Self {
        RestorationFilterSpec { gab: GaborSpec::Disabled, epf: None, extensions: ExtensionsSpec::default() }
    }
}

#[derive(Clone, Debug, PartialEq)]
pub struct FrameHeaderSpec {
    pub frame_type: FrameTypeSpec,
    pub modular: bool,
    pub flags: u64,
    pub do_ycbcr: bool,
    pub jpeg_upsampling: [u32; 3],
    pub upsampling: u32,
    pub ec_upsampling: Vec<u32>,
    pub group_size_shift: u32,
    pub x_qm_scale: u32,
    pub b_qm_scale: u32,
    pub passes: PassesSpec,
    pub lf_level: u32,
    /// None = no crop (frame covers the image)
    pub crop: Option<(i32, i32, u32, u32)>,
    pub blending_info: BlendingInfoSpec,
    pub ec_blending_info: Vec<BlendingInfoSpec>,
    pub duration: u32,
    pub timecode: u32,
    pub is_last: bool,
    pub save_as_reference: u32,
    pub save_before_ct: bool,
    pub name: String,
    pub restoration_filter: RestorationFilterSpec,
    pub extensions: ExtensionsSpec,
}

impl FrameHeaderSpec {
    /// The header that `all_default = 1` stands for, for a given image header.
    pub fn all_default_for(ih: &ImageHeaderSpec) -> Self {
        FrameHeaderSpec {
            frame_type: FrameTypeSpec::Regular,
            modular: false,
            flags: 0,
            do_ycbcr: false,
            jpeg_upsampling: [0; 3],
            upsampling: 1,
            ec_upsampling: vec![1; ih.ec_info.len()],
            group_size_shift: 1,
            x_qm_scale: if ih.xyb_encoded { 3 } else { 2 },
            b_qm_scale: 2,
            passes: PassesSpec::default(),
            lf_level: 0,
            crop: None,
            blending_info: BlendingInfoSpec::default(),
            ec_blending_info: vec![BlendingInfoSpec::default(); ih.ec_info.len()],
            duration: 0,
            timecode: 0,
            is_last: true,
            save_as_reference: 0,
            save_before_ct: false,
            name: String::new(),
            restoration_filter: RestorationFilterSpec::default(),
            extensions: ExtensionsSpec::default(),
        }
    }

    /// A plain Modular frame covering the whole image, no filters.
    pub fn simple_modular(ih: &ImageHeaderSpec) -> Self {
        let mut f = Self::all_default_for(ih);
        f.modular = true;
        f.x_qm_scale = 2;
        f.restoration_filter = RestorationFilterSpec::none();
        f
    }

    pub fn frame_width(&self, ih: &ImageHeaderSpec) -> u32 {
        self.crop.map(|c| c.2).unwrap_or(ih.width)
    }
    pub fn frame_height(&self, ih: &ImageHeaderSpec) -> u32 {
        self.crop.map(|c| c.3).unwrap_or(ih.height)
    }

    /// "full image" test of the frame rectangle (x0<=0, y0<=0, covers canvas).
    pub fn covers_canvas(&self, ih: &ImageHeaderSpec) -> bool {
        match self.crop {
            None => true,
            Some((x0, y0, w, h)) => {
                let (x0, y0) = if self.frame_type == FrameTypeSpec::ReferenceOnly { (0, 0) } else { (x0, y0) };
                x0 <= 0 && y0 <= 0 && x0 as i64 + w as i64 >= ih.width as i64 && y0 as i64 + h as i64 >= ih.height as i64
            }
        }
    }

    pub fn resets_canvas(&self, ih: &ImageHeaderSpec) -> bool {
        self.blending_info.mode == 0 && self.covers_canvas(ih)
    }

    pub fn can_reference(&self) -> bool {
        !self.is_last && (self.duration == 0 || self.save_as_reference != 0) && self.frame_type != FrameTypeSpec::Lf
    }

    pub fn save_before_ct_signalled(&self, ih: &ImageHeaderSpec) -> bool {
        self.frame_type == FrameTypeSpec::ReferenceOnly || (self.resets_canvas(ih) && self.can_reference())
    }

    pub fn is_keyframe(&self) -> bool {
        self.frame_type.is_normal() && (self.is_last || self.duration != 0)
    }

    pub fn use_lf_frame(&self) -> bool {
        self.flags & FLAG_USE_LF_FRAME != 0
    }
}

const CROP_D: [D; 4] = [D::B(0, 8), D::B(256, 11), D::B(2304, 14), D::B(18688, 30)];

pub fn crop_origin_ok(v: i32) -> bool {
    let p = crate::bits::pack_signed(v) as u64;
    p <= 18688 + (1u64 << 30) - 1
}

fn write_blending_info(w: &mut BitWriter, b: &BlendingInfoSpec, have_ec: bool, source_signalled: bool, src: &mut Src) {
    w.u32_any([D::C(0), D::C(1), D::C(2), D::B(3, 2)], b.mode, src);
    let uses_alpha = b.mode == 2 || b.mode == 3;
    if have_ec && uses_alpha {
        w.u32_any([D::C(0), D::C(1), D::C(2), D::B(3, 3)], b.alpha_channel, src);
    }
    if (have_ec && uses_alpha) || b.mode == 4 {
        w.bit(b.clamp);
    }
    if source_signalled {
        w.bits(b.source as u64, 2);
    }
}

pub fn write_restoration_filter(w: &mut BitWriter, r: &RestorationFilterSpec, modular: bool, src: &mut Src) {
    let all_default = *r == RestorationFilterSpec::default() && src.chance(224);
    w.bit(all_default);
    if all_default {
        return;
    }
    match &r.gab {
        GaborSpec::Disabled => w.bit(false),
        GaborSpec::Default => {
            w.bit(true);
            w.bit(false);
        }
        GaborSpec::Custom(wts) => {
            w.bit(true);
            w.bit(true);
            for c in wts {
                w.f16_bits(c[0]);
                w.f16_bits(c[1]);
            }
        }
    }
    match &r.epf {
        None => w.bits(0, 2),
        Some(e) => {
            w.bits(e.iters as u64, 2);
            if !modular {
                w.bit(e.sharp_lut.is_some());
                if let Some(l) = &e.sharp_lut {
                    for &v in l {
                        w.f16_bits(v);
                    }
                }
            }
            w.bit(e.channel_scale.is_some());
            if let Some(c) = &e.channel_scale {
                for &v in c {
                    w.f16_bits(v);
                }
                // 32 reserved bits (ignored by decoders)
                w.bits(src.u32() as u64, 32);
            }
            w.bit(e.sigma.is_some());
            if let Some(s) = &e.sigma {
                if !modular {
                    w.f16_bits(s[0]);
                }
                w.f16_bits(s[1]);
                w.f16_bits(s[2]);
                w.f16_bits(s[3]);
            }
            if modular {
                w.f16_bits(e.sigma_for_modular);
            }
        }
    }
    write_extensions(w, &r.extensions, src);
}

pub fn write_passes(w: &mut BitWriter, p: &PassesSpec, src: &mut Src) {
    w.u32_any([D::C(1), D::C(2), D::C(3), D::B(4, 3)], p.num_passes, src);
    if p.num_passes != 1 {
        assert_eq!(p.shift.len() as u32, p.num_passes - 1);
        assert_eq!(p.downsample.len(), p.last_pass.len());
        w.u32_any([D::C(0), D::C(1), D::C(2), D::B(3, 1)], p.downsample.len() as u32, src);
        for &s in &p.shift {
            w.bits(s as u64, 2);
        }
        for &d in &p.downsample {
            w.u32([D::C(1), D::C(2), D::C(4), D::C(8)], d);
        }
        for &l in &p.last_pass {
            w.u32_any([D::C(0), D::C(1), D::C(2), D::B(0, 3)], l, src);
        }
    }
}

pub fn write_frame_header(w: &mut BitWriter, f: &FrameHeaderSpec, ih: &ImageHeaderSpec, src: &mut Src) {
    let all_default = *f == FrameHeaderSpec::all_default_for(ih) && src.chance(224);
    w.bit(all_default);
    if all_default {
        return;
    }
    w.bits(f.frame_type as u64, 2);
    w.bit(f.modular);
    w.u64_any(f.flags, src);
    if !ih.xyb_encoded {
        w.bit(f.do_ycbcr);
    }
    let use_lf = f.use_lf_frame();
    if use_lf {
        // not signalled with use_lf_frame: they take their defaults
        assert!(f.upsampling == 1 && f.ec_upsampling.iter().all(|&u| u == 1) && f.jpeg_upsampling == [0; 3], "use_lf_frame: upsampling and chroma subsampling cannot be signalled");
    }
    if f.do_ycbcr && !use_lf {
        for &j in &f.jpeg_upsampling {
            w.bits(j as u64, 2);
        }
    }
    if !use_lf {
        w.u32([D::C(1), D::C(2), D::C(4), D::C(8)], f.upsampling);
        assert_eq!(f.ec_upsampling.len(), ih.ec_info.len());
        for &u in &f.ec_upsampling {
            w.u32([D::C(1), D::C(2), D::C(4), D::C(8)], u);
        }
    }
    if f.modular {
        w.bits(f.group_size_shift as u64, 2);
    }
    if ih.xyb_encoded && !f.modular {
        w.bits(f.x_qm_scale as u64, 3);
        w.bits(f.b_qm_scale as u64, 3);
    }
    if f.frame_type != FrameTypeSpec::ReferenceOnly {
        write_passes(w, &f.passes, src);
    }
    if f.frame_type == FrameTypeSpec::Lf {
        w.bits((f.lf_level - 1) as u64, 2);
    }
    if f.frame_type != FrameTypeSpec::Lf {
        w.bit(f.crop.is_some());
        if let Some((x0, y0, cw, ch)) = f.crop {
            if f.frame_type != FrameTypeSpec::ReferenceOnly {
                w.u32_any(CROP_D, crate::bits::pack_signed(x0), src);
                w.u32_any(CROP_D, crate::bits::pack_signed(y0), src);
            }
            w.u32_any(CROP_D, cw, src);
            w.u32_any(CROP_D, ch, src);
        }
    }
    if f.frame_type.is_normal() {
        let have_ec = !ih.ec_info.is_empty();
        // `source` is signalled unless the frame resets the canvas
        let source_signalled = !f.resets_canvas(ih);
        write_blending_info(w, &f.blending_info, have_ec, source_signalled, src);
        assert_eq!(f.ec_blending_info.len(), ih.ec_info.len());
        for b in &f.ec_blending_info {
            write_blending_info(w, b, have_ec, source_signalled, src);
        }
        if let Some(a) = &ih.animation {
            w.u32_any([D::C(0), D::C(1), D::B(0, 8), D::B(0, 32)], f.duration, src);
            if a.have_timecodes {
                w.bits(f.timecode as u64, 32);
            }
        }
        w.bit(f.is_last);
    }
    let is_last = if f.frame_type.is_normal() { f.is_last } else { false };
    if f.frame_type != FrameTypeSpec::Lf && !is_last {
        w.bits(f.save_as_reference as u64, 2);
    }
    if f.save_before_ct_signalled(ih) {
        w.bit(f.save_before_ct);
    }
    write_name(w, &f.name, src);
    write_restoration_filter(w, &f.restoration_filter, f.modular, src);
    write_extensions(w, &f.extensions, src);
}

// ---------------------------------------------------------------------------
// TOC

pub const TOC_D: [D; 4] = [D::B(0, 10), D::B(1024, 14), D::B(17408, 22), D::B(4211712, 30)];

/// Writes the TOC *without* permutation: `permuted = 0`, pad, sizes, pad.
pub fn write_toc_plain(w: &mut BitWriter, sizes: &[u32], src: &mut Src) {
    w.bit(false);
    w.zero_pad();
    for &s in sizes {
        w.u32_any(TOC_D, s, src);
    }
    w.zero_pad();
}

// ---------------------------------------------------------------------------
// Geometry helpers shared by the frame writers

pub fn div_ceil(a: u32, b: u32) -> u32 {
    (a + b - 1) / b
}

#[derive(Clone, Debug)]
pub struct FrameGeometry {
    /// colour sample width/height after upsampling and lf_level reduction
    pub width: u32,
    pub height: u32,
    pub group_dim: u32,
    pub groups_per_row: u32,
    pub num_groups: u32,
    pub lf_groups_per_row: u32,
    pub num_lf_groups: u32,
}

pub fn frame_geometry(f: &FrameHeaderSpec, ih: &ImageHeaderSpec) -> FrameGeometry {
    let mut width = f.frame_width(ih);
    let mut height = f.frame_height(ih);
    if f.upsampling > 1 {
        width = div_ceil(width, f.upsampling);
        height = div_ceil(height, f.upsampling);
    }
    if f.lf_level > 0 {
        let div = 1u32 << (3 * f.lf_level);
        width = div_ceil(width, div);
        height = div_ceil(height, div);
    }
    let group_dim = 128u32 << f.group_size_shift;
    let gpr = div_ceil(width, group_dim);
    let gpc = div_ceil(height, group_dim);
    let lgpr = div_ceil(width, group_dim * 8);
    let lgpc = div_ceil(height, group_dim * 8);
    FrameGeometry { width, height, group_dim, groups_per_row: gpr, num_groups: gpr * gpc, lf_groups_per_row: lgpr, num_lf_groups: lgpr * lgpc }
}

pub fn toc_entry_count(f: &FrameHeaderSpec, ih: &ImageHeaderSpec) -> u32 {
    let g = frame_geometry(f, ih);
    if g.num_groups == 1 && f.passes.num_passes == 1 {
        1
    } else {
        1 + g.num_lf_groups + 1 + g.num_groups * f.passes.num_passes
    }
}
