//! Independent reference *writer* side of the JPEG XL format and reference
//! models, used as oracles for the jxl-oxide decoder.  This crate links no
//! jxl-oxide code.

pub mod bits;
pub mod chunk;
pub mod colour_model;
pub mod container;
pub mod entropy;
pub mod frames;
pub mod gen;
pub mod headers;
pub mod icc;
pub mod jpeg;
pub mod models;
pub mod modular;
pub mod hostile;
pub mod src;
pub mod vardct;
