//! Codestream assembly: image header, frames (header + TOC + sections).

use crate::bits::{pack_signed, BitWriter};
use crate::entropy::{gen_permutation, permutation_ops, CodeOpts, EntropyCode};
use crate::headers::*;
use crate::src::Src;

/// Where things ended up in the codestream (byte offsets), for boundary-aware chunking.
#[derive(Clone, Debug, Default)]
pub struct FrameLayout {
    pub frame_start: usize,
    pub header_end: usize,
    pub toc_end: usize,
    /// (offset, size) of each section in bitstream order
    pub sections: Vec<(usize, usize)>,
    pub frame_end: usize,
    pub permuted: bool,
}

/// Appends one frame.  `sections` are in *logical* order (LfGlobal, LfGroups,
/// HfGlobal, pass groups; or a single combined section).
pub fn write_frame(out: &mut Vec<u8>, fh: &FrameHeaderSpec, ih: &ImageHeaderSpec, sections: &[Vec<u8>], permute: bool, src: &mut Src) -> FrameLayout {
    let n = sections.len();
    let perm: Option<Vec<usize>> = if permute && n > 1 { Some(gen_permutation(src, n, 0)) } else { None };
    write_frame_with_perm(out, fh, ih, sections, perm, &CodeOpts::default(), src)
}

/// Same with an explicit permutation (`perm[logical] = position in the bitstream`).
pub fn write_frame_with_perm(out: &mut Vec<u8>, fh: &FrameHeaderSpec, ih: &ImageHeaderSpec, sections: &[Vec<u8>], perm: Option<Vec<usize>>, toc_code: &CodeOpts, src: &mut Src) -> FrameLayout {
    let mut lay = FrameLayout { frame_start: out.len(), ..Default::default() };
    let n = sections.len();
    assert_eq!(n as u32, toc_entry_count(fh, ih), "section count does not match the TOC entry count");
    let mut w = BitWriter::new();
    write_frame_header(&mut w, fh, ih, src);
    let hdr_bits = w.num_bits();
    // perm[logical] = position in the bitstream
    let permuted = perm.is_some();
    let perm: Vec<usize> = perm.unwrap_or_else(|| (0..n).collect());
    w.bit(permuted);
    if permuted {
        let mut ops = permutation_ops(&perm, 0, if src.chance(32) { src.range(0, 3) as usize } else { 0 });
        crate::hostile::perturb(&mut ops);
        let code = EntropyCode::generate(src, 8, &[&ops], toc_code);
        code.write_header(&mut w, src);
        code.write_stream(&mut w, &ops, true);
    }
    w.zero_pad();
    let mut order = vec![0usize; n]; // position -> logical
    for (logical, &pos) in perm.iter().enumerate() {
        order[pos] = logical;
    }
    for &logical in &order {
        w.u32_any(TOC_D, sections[logical].len() as u32, src);
    }
    w.zero_pad();
    let bytes = w.finish();
    lay.header_end = lay.frame_start + hdr_bits.div_ceil(8);
    out.extend_from_slice(&bytes);
    lay.toc_end = out.len();
    for &logical in &order {
        lay.sections.push((out.len(), sections[logical].len()));
        out.extend_from_slice(&sections[logical]);
    }
    lay.frame_end = out.len();
    lay.permuted = permuted;
    lay
}

/// Signature + headers (+ optional pre-encoded ICC stream bits) + padding.
pub fn write_codestream_start(ih: &ImageHeaderSpec, icc_stream: Option<&BitWriter>, src: &mut Src) -> Vec<u8> {
    let mut w = BitWriter::new();
    write_image_header(&mut w, ih, src);
    if let Some(icc) = icc_stream {
        w.append(icc);
    }
    w.finish()
}

/// LfGlobal preamble of a frame without patches / splines / noise:
/// LfChannelDequantization.all_default = 1.
pub fn write_lf_global_preamble_plain(w: &mut BitWriter) {
    w.bit(true);
}

// ---------------------------------------------------------------------------
// LfGlobal: noise parameters and the spline dictionary (the patch dictionary
// writer lives in `gen::frames::write_patches`).  Order inside LfGlobal:
// Patches, Splines, NoiseParameters, LfChannelDequantization, ...

/// The eight points of the noise strength look-up table, each u(10) (value / 1024).
#[derive(Clone, Debug, PartialEq)]
pub struct NoiseSpec {
    pub lut: [u16; 8],
}

pub fn write_noise(w: &mut BitWriter, n: &NoiseSpec) {
    for &v in &n.lut {
        assert!(v < 1024);
        w.bits(v as u64, 10);
    }
}

/// One quantised spline: control points in frame coordinates (the first one is
/// the starting point) and the 32 quantised DCT coefficients of X, Y, B and sigma
/// along the arc.
#[derive(Clone, Debug, PartialEq)]
pub struct SplineSpec {
    pub points: Vec<(i64, i64)>,
    pub xyb_dct: [[i32; 32]; 3],
    pub sigma_dct: [i32; 32],
}

#[derive(Clone, Debug, PartialEq)]
pub struct SplinesSpec {
    pub quant_adjust: i32,
    pub splines: Vec<SplineSpec>,
}

pub const SPLINE_POS_LIMIT: i64 = 1 << 23;

/// (context, value) tokens of the spline dictionary.  Contexts: 0 quantisation
/// adjustment, 1 starting positions, 2 number of splines, 3 number of control
/// points, 4 control point (double) deltas, 5 DCT coefficients.
pub fn splines_tokens(s: &SplinesSpec) -> Vec<(u32, u32)> {
    assert!(!s.splines.is_empty());
    let mut t = vec![(2u32, s.splines.len() as u32 - 1)];
    let mut prev: Option<(i64, i64)> = None;
    for sp in &s.splines {
        let (x, y) = *sp.points.first().expect("a spline has a starting point");
        assert!(x.abs() < SPLINE_POS_LIMIT && y.abs() < SPLINE_POS_LIMIT);
        match prev {
            None => {
                // the first starting point is coded unsigned
                assert!(x >= 0 && y >= 0, "the first starting point cannot be negative");
                t.push((1, x as u32));
                t.push((1, y as u32));
            }
            Some((px, py)) => {
                t.push((1, pack_signed((x - px) as i32)));
                t.push((1, pack_signed((y - py) as i32)));
            }
        }
        prev = Some((x, y));
    }
    t.push((0, pack_signed(s.quant_adjust)));
    for sp in &s.splines {
        t.push((3, sp.points.len() as u32 - 1));
        // second-order differences, starting from delta (0, 0)
        let (mut px, mut py) = sp.points[0];
        let (mut pdx, mut pdy) = (0i64, 0i64);
        for &(x, y) in &sp.points[1..] {
            assert!(x.abs() < SPLINE_POS_LIMIT && y.abs() < SPLINE_POS_LIMIT);
            assert!((x, y) != (px, py), "consecutive control points must differ");
            let (dx, dy) = (x - px, y - py);
            t.push((4, pack_signed((dx - pdx) as i32)));
            t.push((4, pack_signed((dy - pdy) as i32)));
            (px, py, pdx, pdy) = (x, y, dx, dy);
        }
        for c in &sp.xyb_dct {
            for &v in c {
                t.push((5, pack_signed(v)));
            }
        }
        for &v in &sp.sigma_dct {
            t.push((5, pack_signed(v)));
        }
    }
    t
}

/// Writes the spline dictionary: one entropy-coded stream with 6 contexts
/// (code description generated from `src`; LZ77 with the given min_length if any).
/// Returns the notes of the generated code.
pub fn write_splines(w: &mut BitWriter, s: &SplinesSpec, lz77: Option<u32>, src: &mut Src) -> Vec<String> {
    let tokens = splines_tokens(s);
    let (mut ops, copies) = crate::modular::encode::make_ops(&tokens, lz77, 0, src, false);
    crate::hostile::perturb(&mut ops);
    let code = EntropyCode::generate(src, 6, &[&ops], &CodeOpts { lz77_min_length: lz77, ..Default::default() });
    code.write_header(w, src);
    code.write_stream(w, &ops, true);
    let mut notes = vec![format!("code:{}", if code.use_prefix { "prefix" } else { "ans" })];
    if lz77.is_some() {
        notes.push("lz77".into());
    }
    if copies > 0 {
        notes.push("lz77-copies".into());
    }
    notes
}

#[cfg(test)]
mod tests {
    use super::*;

    /// Reads the token list back the way the format defines the spline dictionary.
    fn parse(tokens: &[(u32, u32)]) -> SplinesSpec {
        let unpack = |v: u32| -> i64 { if v & 1 == 0 { (v >> 1) as i64 } else { -(((v >> 1) as i64) + 1) } };
        let mut it = tokens.iter().copied();
        let mut next = |ctx: u32| {
            let (c, v) = it.next().expect("token");
            assert_eq!(c, ctx, "context");
            v
        };
        let n = next(2) as usize + 1;
        let mut starts = vec![];
        for i in 0..n {
            let (x, y) = (next(1), next(1));
            if i == 0 {
                starts.push((x as i64, y as i64));
            } else {
                let (px, py) = starts[i - 1];
                starts.push((px + unpack(x), py + unpack(y)));
            }
        }
        let quant_adjust = unpack(next(0)) as i32;
        let mut splines = vec![];
        for &start in &starts {
            let k = next(3) as usize;
            let mut points = vec![start];
            let (mut cur, mut delta) = (start, (0i64, 0i64));
            for _ in 0..k {
                delta.0 += unpack(next(4));
                delta.1 += unpack(next(4));
                cur = (cur.0 + delta.0, cur.1 + delta.1);
                points.push(cur);
            }
            let mut xyb_dct = [[0i32; 32]; 3];
            for c in &mut xyb_dct {
                for v in c.iter_mut() {
                    *v = unpack(next(5)) as i32;
                }
            }
            let mut sigma_dct = [0i32; 32];
            for v in &mut sigma_dct {
                *v = unpack(next(5)) as i32;
            }
            splines.push(SplineSpec { points, xyb_dct, sigma_dct });
        }
        assert!(it.next().is_none(), "trailing tokens");
        SplinesSpec { quant_adjust, splines }
    }

    #[test]
    fn spline_tokens_round_trip() {
        let mut a = SplineSpec { points: vec![(3, 0), (9, 4), (-2, 7), (-1, 7), (40, -5)], xyb_dct: [[0; 32]; 3], sigma_dct: [0; 32] };
        a.xyb_dct[0][0] = -17;
        a.xyb_dct[1][31] = 4;
        a.xyb_dct[2][5] = -1;
        a.sigma_dct[0] = 9;
        a.sigma_dct[3] = -2;
        let b = SplineSpec { points: vec![(-4, 11)], xyb_dct: [[1; 32]; 3], sigma_dct: [2; 32] };
        let c = SplineSpec { points: vec![(100, 2), (101, 2)], ..a.clone() };
        for quant_adjust in [0, -9, 24] {
            let s = SplinesSpec { quant_adjust, splines: vec![a.clone(), b.clone(), c.clone()] };
            assert_eq!(parse(&splines_tokens(&s)), s);
        }
    }

    #[test]
    fn noise_is_eight_ten_bit_fields() {
        let mut w = BitWriter::new();
        write_noise(&mut w, &NoiseSpec { lut: [0, 1, 2, 3, 1023, 512, 7, 8] });
        assert_eq!(w.num_bits(), 80);
    }
}
