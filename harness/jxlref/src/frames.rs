//! Codestream assembly: image header, frames (header + TOC + sections).

use crate::bits::BitWriter;
use crate::entropy::{gen_permutation, permutation_ops, CodeOpts, EntropyCode};
use crate::headers::*;
use crate::src::Src;

/// Where things ended up in the codestream (byte offsets), for boundary-aware chunking.
#[derive(Clone, Debug, Default)]
pub struct FrameLayout {
    pub frame_start: usize,
    pub header_end: usize,
    pub toc_end: usize,
    /// (offset, size) of each section in bitstream order
    pub sections: Vec<(usize, usize)>,
    pub frame_end: usize,
    pub permuted: bool,
}

/// Appends one frame.  `sections` are in *logical* order (LfGlobal, LfGroups,
/// HfGlobal, pass groups; or a single combined section).
pub fn write_frame(out: &mut Vec<u8>, fh: &FrameHeaderSpec, ih: &ImageHeaderSpec, sections: &[Vec<u8>], permute: bool, src: &mut Src) -> FrameLayout {
    let n = sections.len();
    let perm: Option<Vec<usize>> = if permute && n > 1 { Some(gen_permutation(src, n, 0)) } else { None };
    write_frame_with_perm(out, fh, ih, sections, perm, &CodeOpts::default(), src)
}

/// Same with an explicit permutation (`perm[logical] = position in the bitstream`).
pub fn write_frame_with_perm(out: &mut Vec<u8>, fh: &FrameHeaderSpec, ih: &ImageHeaderSpec, sections: &[Vec<u8>], perm: Option<Vec<usize>>, toc_code: &CodeOpts, src: &mut Src) -> FrameLayout {
    let mut lay = FrameLayout { frame_start: out.len(), ..Default::default() };
    let n = sections.len();
    assert_eq!(n as u32, toc_entry_count(fh, ih), "section count does not match the TOC entry count");
    let mut w = BitWriter::new();
    write_frame_header(&mut w, fh, ih, src);
    let hdr_bits = w.num_bits();
    // perm[logical] = position in the bitstream
    let permuted = perm.is_some();
    let perm: Vec<usize> = perm.unwrap_or_else(|| (0..n).collect());
    w.bit(permuted);
    if permuted {
        let ops = permutation_ops(&perm, 0, if src.chance(32) { src.range(0, 3) as usize } else { 0 });
        let code = EntropyCode::generate(src, 8, &[&ops], toc_code);
        code.write_header(&mut w, src);
        code.write_stream(&mut w, &ops, true);
    }
    w.zero_pad();
    let mut order = vec![0usize; n]; // position -> logical
    for (logical, &pos) in perm.iter().enumerate() {
        order[pos] = logical;
    }
    for &logical in &order {
        w.u32_any(TOC_D, sections[logical].len() as u32, src);
    }
    w.zero_pad();
    let bytes = w.finish();
    lay.header_end = lay.frame_start + hdr_bits.div_ceil(8);
    out.extend_from_slice(&bytes);
    lay.toc_end = out.len();
    for &logical in &order {
        lay.sections.push((out.len(), sections[logical].len()));
        out.extend_from_slice(&sections[logical]);
    }
    lay.frame_end = out.len();
    lay.permuted = permuted;
    lay
}

/// Signature + headers (+ optional pre-encoded ICC stream bits) + padding.
pub fn write_codestream_start(ih: &ImageHeaderSpec, icc_stream: Option<&BitWriter>, src: &mut Src) -> Vec<u8> {
    let mut w = BitWriter::new();
    write_image_header(&mut w, ih, src);
    if let Some(icc) = icc_stream {
        w.append(icc);
    }
    w.finish()
}

/// LfGlobal preamble of a frame without patches / splines / noise:
/// LfChannelDequantization.all_default = 1.
pub fn write_lf_global_preamble_plain(w: &mut BitWriter) {
    w.bit(true);
}
