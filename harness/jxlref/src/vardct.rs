//! Reference VarDCT frame *writer*, written from the format definition
//! (ISO/IEC 18181-1: LfGlobal / LfGroup / HfGlobal / PassGroup of a VarDCT
//! frame).  It is not an encoder: the frame content (varblock layout, quantised
//! LF image, CfL maps, sharpness, quantised HF coefficients, coefficient
//! orders, dequantisation-matrix encodings) is handed in as a `VarDctFrame`
//! spec, typically produced by `gen::vardct`.  The writer's job is the syntax:
//! field encodings, Modular sub-bitstreams with the right channel shapes and
//! stream indices, and the context modelling of the HF coefficient streams.
//!
//! Constant tables below (transform sizes, order ids, default block-context
//! map, coefficient context tables) are fixed by the format.

use crate::bits::{pack_signed, BitWriter, D};
use crate::entropy::{perm_context, write_cluster_map, CodeOpts, EntropyCode, Op};
use crate::modular::encode::{encode_local_substream, make_ops, ModularOpts};
use crate::modular::predict::Chan;
use crate::src::Src;

// ---------------------------------------------------------------------------
// Format tables

pub const NUM_TRANSFORMS: usize = 27;

pub const TRANSFORM_NAMES: [&str; NUM_TRANSFORMS] = [
    "DCT8", "Hornuss", "DCT2", "DCT4", "DCT16", "DCT32", "DCT16x8", "DCT8x16", "DCT32x8", "DCT8x32", "DCT32x16", "DCT16x32", "DCT4x8", "DCT8x4", "AFV0", "AFV1", "AFV2", "AFV3", "DCT64", "DCT64x32", "DCT32x64", "DCT128",
    "DCT128x64", "DCT64x128", "DCT256", "DCT256x128", "DCT128x256",
];

/// (width, height) of a varblock in 8x8 blocks, by transform type.  `DCTRxC`
/// has R rows and C columns of samples.
pub const TRANSFORM_BLOCKS: [(usize, usize); NUM_TRANSFORMS] = [
    (1, 1),   // DCT8
    (1, 1),   // Hornuss
    (1, 1),   // DCT2
    (1, 1),   // DCT4
    (2, 2),   // DCT16
    (4, 4),   // DCT32
    (1, 2),   // DCT16x8
    (2, 1),   // DCT8x16
    (1, 4),   // DCT32x8
    (4, 1),   // DCT8x32
    (2, 4),   // DCT32x16
    (4, 2),   // DCT16x32
    (1, 1),   // DCT4x8
    (1, 1),   // DCT8x4
    (1, 1),   // AFV0
    (1, 1),   // AFV1
    (1, 1),   // AFV2
    (1, 1),   // AFV3
    (8, 8),   // DCT64
    (4, 8),   // DCT64x32
    (8, 4),   // DCT32x64
    (16, 16), // DCT128
    (8, 16),  // DCT128x64
    (16, 8),  // DCT64x128
    (32, 32), // DCT256
    (16, 32), // DCT256x128
    (32, 16), // DCT128x256
];

/// Coefficient-order id of each transform type.
pub const ORDER_ID: [usize; NUM_TRANSFORMS] = [0, 1, 1, 1, 2, 3, 4, 4, 5, 5, 6, 6, 1, 1, 1, 1, 1, 1, 7, 8, 8, 9, 10, 10, 11, 12, 12];

/// Number of coefficients of each of the 13 coefficient orders.
pub const ORDER_COEFFS: [usize; 13] = [64, 64, 256, 1024, 128, 256, 512, 4096, 2048, 16384, 8192, 65536, 32768];

/// Index of the dequantisation-matrix parameter set of each transform type.
pub const DEQUANT_INDEX: [usize; NUM_TRANSFORMS] = [0, 1, 2, 3, 4, 5, 6, 6, 7, 7, 8, 8, 9, 9, 10, 10, 10, 10, 11, 12, 12, 13, 14, 14, 15, 16, 16];

pub const NUM_DEQUANT_SETS: usize = 17;

/// Side lengths (in samples) of the 17 dequantisation matrices: (long side, short side).
pub const DEQUANT_DIMS: [(usize, usize); NUM_DEQUANT_SETS] =
    [(8, 8), (8, 8), (8, 8), (8, 8), (16, 16), (32, 32), (16, 8), (32, 8), (32, 16), (8, 8), (8, 8), (64, 64), (64, 32), (128, 128), (128, 64), (256, 256), (256, 128)];

pub const DEFAULT_BLOCK_CTX_MAP: [u8; 39] = [0, 1, 2, 2, 3, 3, 4, 5, 6, 6, 6, 6, 6, 7, 8, 9, 9, 10, 11, 12, 13, 14, 14, 14, 14, 14, 7, 8, 9, 9, 10, 11, 12, 13, 14, 14, 14, 14, 14];

/// Indexed by the (scaled) coefficient position, 1..=63.
const COEFF_FREQ_CONTEXT: [u32; 64] = [
    0xBAD, 0, 1, 2, 3, 4, 5, 6, 7, 8, 9, 10, 11, 12, 13, 14, 15, 15, 16, 16, 17, 17, 18, 18, 19, 19, 20, 20, 21, 21, 22, 22, 23, 23, 23, 23, 24, 24, 24, 24, 25, 25, 25, 25, 26, 26, 26, 26, 27, 27, 27, 27, 28, 28, 28, 28, 29, 29, 29, 29,
    30, 30, 30, 30,
];

/// Indexed by the (scaled) number of non-zeros left, 1..=63.
const COEFF_NUM_NONZERO_CONTEXT: [u32; 64] = [
    0xBAD, 0, 31, 62, 62, 93, 93, 93, 93, 123, 123, 123, 123, 152, 152, 152, 152, 152, 152, 152, 152, 180, 180, 180, 180, 180, 180, 180, 180, 180, 180, 180, 180, 206, 206, 206, 206, 206, 206, 206, 206, 206, 206, 206, 206, 206, 206,
    206, 206, 206, 206, 206, 206, 206, 206, 206, 206, 206, 206, 206, 206, 206, 206, 206,
];

/// Contexts per (preset, block cluster): 37 for the non-zero count, 458 for coefficients.
pub const NZ_CONTEXTS: usize = 37;
pub const COEFF_CONTEXTS: usize = 458;
pub const CONTEXTS_PER_BLOCK_CLUSTER: usize = NZ_CONTEXTS + COEFF_CONTEXTS;

/// ceil(log2(n)) for n >= 1 (0 for n = 1).
pub fn ceil_log2(n: usize) -> u32 {
    if n <= 1 {
        0
    } else {
        usize::BITS - (n - 1).leading_zeros()
    }
}

fn zero_density_context(nonzeros_left: usize, k: usize, covered_blocks: usize, log2_covered_blocks: u32, prev: u32) -> u32 {
    let nz = (nonzeros_left + covered_blocks - 1) >> log2_covered_blocks;
    let k = k >> log2_covered_blocks;
    (COEFF_NUM_NONZERO_CONTEXT[nz] + COEFF_FREQ_CONTEXT[k]) * 2 + prev
}

// ---------------------------------------------------------------------------
// Spec structures

#[derive(Clone, Debug)]
pub struct VarBlock {
    /// top-left corner in 8x8-block units, relative to the LF group
    pub bx: usize,
    pub by: usize,
    /// transform type 0..27
    pub ty: u8,
    /// HF multiplier (>= 1)
    pub hf_mul: u32,
}

#[derive(Clone, Debug)]
pub struct LfGroupSpec {
    /// size of the LF group in 8x8 blocks
    pub bw: usize,
    pub bh: usize,
    pub extra_precision: u32,
    /// quantised LF image in coded channel order: Y, X, B (each `bw >> hshift` x `bh >> vshift`,
    /// with the shifts recorded in the channel)
    pub lf: [Chan; 3],
    /// chroma-from-luma multipliers, one per 64x64 tile
    pub x_from_y: Chan,
    pub b_from_y: Chan,
    /// varblocks in raster order of their top-left corner; must tile the group
    pub blocks: Vec<VarBlock>,
    /// EPF sharpness, one per 8x8 block (0..=7)
    pub sharpness: Chan,
}

#[derive(Clone, Debug, PartialEq)]
pub enum BlockCtxSpec {
    Default,
    Custom {
        /// thresholds on the quantised LF values, for X, Y, B
        lf_thr: [Vec<i32>; 3],
        /// thresholds on hf_mul (values >= 1)
        qf_thr: Vec<u32>,
        /// block context -> cluster, `39 * prod(len + 1)` entries
        map: Vec<u8>,
    },
}

impl BlockCtxSpec {
    pub fn map(&self) -> &[u8] {
        match self {
            BlockCtxSpec::Default => &DEFAULT_BLOCK_CTX_MAP,
            BlockCtxSpec::Custom { map, .. } => map,
        }
    }

    pub fn num_clusters(&self) -> usize {
        *self.map().iter().max().unwrap() as usize + 1
    }

    /// Block context of a varblock.  `slot`: 0 for Y, 1 for X, 2 for B;
    /// `lfq`: quantised LF values at the block's top-left corner for X, Y, B.
    pub fn block_ctx(&self, slot: usize, order_id: usize, hf_mul: u32, lfq: [i32; 3]) -> usize {
        let mut idx = slot * 13 + order_id;
        if let BlockCtxSpec::Custom { lf_thr, qf_thr, .. } = self {
            let qf_idx = qf_thr.iter().filter(|&&t| hf_mul > t).count();
            idx = idx * (qf_thr.len() + 1) + qf_idx;
            let mut lf_idx = 0;
            for c in [0, 2, 1] {
                lf_idx *= lf_thr[c].len() + 1;
                lf_idx += lf_thr[c].iter().filter(|&&t| lfq[c] > t).count();
            }
            let lf_mul: usize = lf_thr.iter().map(|t| t.len() + 1).product();
            idx = idx * lf_mul + lf_idx;
        }
        self.map()[idx] as usize
    }

    pub fn write(&self, w: &mut BitWriter, src: &mut Src) {
        match self {
            BlockCtxSpec::Default => w.bit(true),
            BlockCtxSpec::Custom { lf_thr, qf_thr, map } => {
                w.bit(false);
                let mut bsize = 1;
                for t in lf_thr {
                    assert!(t.len() <= 15);
                    bsize *= t.len() + 1;
                    w.bits(t.len() as u64, 4);
                    for &v in t {
                        w.u32_any([D::B(0, 4), D::B(16, 8), D::B(272, 16), D::B(65808, 32)], pack_signed(v), src);
                    }
                }
                assert!(qf_thr.len() <= 15);
                bsize *= qf_thr.len() + 1;
                w.bits(qf_thr.len() as u64, 4);
                for &v in qf_thr {
                    assert!(v >= 1);
                    w.u32_any([D::B(0, 2), D::B(4, 3), D::B(12, 5), D::B(44, 8)], v - 1, src);
                }
                assert!(bsize <= 64, "block context map too big");
                assert_eq!(map.len(), bsize * 39);
                assert!(self.num_clusters() <= 16);
                write_cluster_map(w, map, src);
            }
        }
    }
}

#[derive(Clone, Debug, PartialEq)]
pub struct LfCorrSpec {
    pub colour_factor: u32,
    /// binary16 bit patterns
    pub base_correlation_x: u16,
    pub base_correlation_b: u16,
    pub x_factor_lf: u8,
    pub b_factor_lf: u8,
}

/// A band list of the "DCT" weight parametrisation: `n` values per channel.
#[derive(Clone, Debug, PartialEq)]
pub struct DctParamsSpec {
    /// binary16 bit patterns, one list per channel, equal lengths 1..=16
    pub v: [Vec<u16>; 3],
}

/// How one of the 17 dequantisation-matrix parameter sets is coded.
#[derive(Clone, Debug, PartialEq)]
pub enum DequantEnc {
    Library,
    Hornuss([[u16; 3]; 3]),
    Dct2([[u16; 6]; 3]),
    Dct4 { params: [[u16; 2]; 3], dct: DctParamsSpec },
    Dct4x8 { params: [[u16; 1]; 3], dct: DctParamsSpec },
    Afv { params: [[u16; 9]; 3], dct: DctParamsSpec, dct4x4: DctParamsSpec },
    Dct(DctParamsSpec),
    /// `denominator` (binary16) and a 3-channel integer image of the matrix size
    Raw { denominator: u16, chans: [Chan; 3] },
}

impl DequantEnc {
    pub fn mode(&self) -> u32 {
        match self {
            DequantEnc::Library => 0,
            DequantEnc::Hornuss(_) => 1,
            DequantEnc::Dct2(_) => 2,
            DequantEnc::Dct4 { .. } => 3,
            DequantEnc::Dct4x8 { .. } => 4,
            DequantEnc::Afv { .. } => 5,
            DequantEnc::Dct(_) => 6,
            DequantEnc::Raw { .. } => 7,
        }
    }
}

#[derive(Clone, Debug, PartialEq)]
pub enum DequantSetSpec {
    AllDefault,
    PerSet(Vec<DequantEnc>),
}

/// Quantised HF coefficients of one varblock in one pass: per channel (X, Y,
/// B) the non-zero values as (scan position, value), ascending positions in
/// `num_blocks .. 64 * num_blocks` (the first `num_blocks` positions are the
/// LLF coefficients, which are never coded).
pub type BlockCoeffs = [Vec<(u32, i32)>; 3];

#[derive(Clone, Debug)]
pub struct GroupCoeffs {
    pub preset: usize,
    /// one entry per varblock of the group, in raster order of the top-left corner
    pub blocks: Vec<BlockCoeffs>,
}

#[derive(Clone, Debug)]
pub struct PassSpec {
    /// 13 entries; `Some([x, y, b])` = custom order.  Each list is a prefix of
    /// the permutation (a permutation of `0..len` whose first `size / 64`
    /// entries are the identity); the remaining positions are the identity.
    pub orders: Vec<Option<[Vec<u32>; 3]>>,
    /// trailing zero Lehmer digits coded explicitly per order list
    pub order_pad: usize,
    pub groups: Vec<GroupCoeffs>,
    /// LZ77 on the coefficient streams (min_length)
    pub lz77: Option<u32>,
}

#[derive(Clone, Debug)]
pub struct VarDctFrame {
    /// colour sample size of the frame
    pub width: usize,
    pub height: usize,
    /// chroma subsampling modes for (Cb, Y, Cr) as in the frame header; all 0 = 4:4:4.
    /// Mode 1 = full resolution in both directions, 2 = full horizontally only,
    /// 3 = full vertically only, 0 = reduced wherever any channel asks for more.
    pub jpeg_upsampling: [u32; 3],
    /// None = all_default; binary16 patterns for X, Y, B
    pub lf_dequant: Option<[u16; 3]>,
    pub global_scale: u32,
    pub quant_lf: u32,
    pub block_ctx: BlockCtxSpec,
    /// None = all_default
    pub lf_corr: Option<LfCorrSpec>,
    pub lf_groups: Vec<LfGroupSpec>,
    pub dequant: DequantSetSpec,
    pub num_hf_presets: usize,
    pub passes: Vec<PassSpec>,
}

pub const GROUP_DIM: usize = 256;
pub const GROUP_BLOCKS: usize = GROUP_DIM / 8;

impl VarDctFrame {
    pub fn groups_per_row(&self) -> usize {
        self.width.div_ceil(GROUP_DIM)
    }
    pub fn groups_per_col(&self) -> usize {
        self.height.div_ceil(GROUP_DIM)
    }
    pub fn num_groups(&self) -> usize {
        self.groups_per_row() * self.groups_per_col()
    }
    pub fn lf_groups_per_row(&self) -> usize {
        self.width.div_ceil(GROUP_DIM * 8)
    }
    pub fn lf_groups_per_col(&self) -> usize {
        self.height.div_ceil(GROUP_DIM * 8)
    }
    pub fn num_lf_groups(&self) -> usize {
        self.lf_groups_per_row() * self.lf_groups_per_col()
    }
    pub fn has_h_subsampling(&self) -> bool {
        self.jpeg_upsampling.iter().any(|&m| m == 1 || m == 2)
    }
    pub fn has_v_subsampling(&self) -> bool {
        self.jpeg_upsampling.iter().any(|&m| m == 1 || m == 3)
    }
    /// (hshift, vshift) of channel `c` (0 = X/Cb, 1 = Y, 2 = B/Cr).
    pub fn shifts(&self, c: usize) -> (usize, usize) {
        let (hs, vs) = (self.has_h_subsampling() as usize, self.has_v_subsampling() as usize);
        match self.jpeg_upsampling[c] {
            0 => (hs, vs),
            1 => (0, 0),
            2 => (0, vs),
            _ => (hs, 0),
        }
    }
    /// Size of LF group `lg` in 8x8 blocks (rounded up to even where chroma subsampling applies).
    pub fn lf_group_blocks(&self, lg: usize) -> (usize, usize) {
        let (w, h) = self.lf_group_size(lg);
        let (mut bw, mut bh) = (w.div_ceil(8), h.div_ceil(8));
        if self.has_h_subsampling() {
            bw = bw.div_ceil(2) * 2;
        }
        if self.has_v_subsampling() {
            bh = bh.div_ceil(2) * 2;
        }
        (bw, bh)
    }
    /// Sample size of LF group `lg`.
    pub fn lf_group_size(&self, lg: usize) -> (usize, usize) {
        let (gx, gy) = (lg % self.lf_groups_per_row(), lg / self.lf_groups_per_row());
        let d = GROUP_DIM * 8;
        ((self.width - gx * d).min(d), (self.height - gy * d).min(d))
    }
    /// (LF group index, block offset x, block offset y) of group `g`.
    pub fn group_place(&self, g: usize) -> (usize, usize, usize) {
        let (gx, gy) = (g % self.groups_per_row(), g / self.groups_per_row());
        let lg = (gy / 8) * self.lf_groups_per_row() + gx / 8;
        (lg, (gx % 8) * GROUP_BLOCKS, (gy % 8) * GROUP_BLOCKS)
    }
    /// Indices (into the LF group's block list) of the varblocks of group `g`, in coding order.
    pub fn group_block_indices(&self, g: usize) -> Vec<usize> {
        let (lg, ox, oy) = self.group_place(g);
        self.lf_groups[lg].blocks.iter().enumerate().filter(|(_, b)| b.bx / GROUP_BLOCKS == ox / GROUP_BLOCKS && b.by / GROUP_BLOCKS == oy / GROUP_BLOCKS).map(|(i, _)| i).collect()
    }
}

/// Checks that `blocks` is a legal tiling of a `bw` x `bh` block grid, listed
/// in the order a decoder discovers them (raster scan over unoccupied cells),
/// with no varblock crossing a 32x32-block group boundary.
pub fn check_layout(bw: usize, bh: usize, blocks: &[VarBlock]) -> Result<(), String> {
    let mut occ = vec![false; bw * bh];
    let mut next = 0;
    for y in 0..bh {
        let mut x = 0;
        while x < bw {
            if occ[y * bw + x] {
                x += 1;
                continue;
            }
            let b = blocks.get(next).ok_or("too few varblocks")?;
            if (b.bx, b.by) != (x, y) {
                return Err(format!("varblock {next} at ({}, {}), expected ({x}, {y})", b.bx, b.by));
            }
            let (dw, dh) = TRANSFORM_BLOCKS[b.ty as usize];
            if x % GROUP_BLOCKS + dw > GROUP_BLOCKS || y % GROUP_BLOCKS + dh > GROUP_BLOCKS {
                return Err(format!("varblock {next} crosses a group boundary"));
            }
            if x + dw > bw || y + dh > bh {
                return Err(format!("varblock {next} leaves the LF group"));
            }
            for dy in 0..dh {
                for dx in 0..dw {
                    if occ[(y + dy) * bw + x + dx] {
                        return Err(format!("varblock {next} overlaps"));
                    }
                    occ[(y + dy) * bw + x + dx] = true;
                }
            }
            if b.hf_mul < 1 {
                return Err("hf_mul < 1".into());
            }
            next += 1;
            x += dw;
        }
    }
    if next != blocks.len() {
        return Err("too many varblocks".into());
    }
    Ok(())
}

// ---------------------------------------------------------------------------
// LfGlobal (VarDCT part)

pub fn write_lf_channel_dequantization(w: &mut BitWriter, v: &Option<[u16; 3]>) {
    w.bit(v.is_none());
    if let Some(v) = v {
        for &x in v {
            w.f16_bits(x);
        }
    }
}

pub fn write_quantizer(w: &mut BitWriter, global_scale: u32, quant_lf: u32, src: &mut Src) {
    w.u32_any([D::B(1, 11), D::B(2049, 11), D::B(4097, 12), D::B(8193, 16)], global_scale, src);
    w.u32_any([D::C(16), D::B(1, 5), D::B(1, 8), D::B(1, 16)], quant_lf, src);
}

pub fn write_lf_channel_correlation(w: &mut BitWriter, c: &Option<LfCorrSpec>, src: &mut Src) {
    w.bit(c.is_none());
    if let Some(c) = c {
        w.u32_any([D::C(84), D::C(256), D::B(2, 8), D::B(258, 16)], c.colour_factor, src);
        w.f16_bits(c.base_correlation_x);
        w.f16_bits(c.base_correlation_b);
        w.bits(c.x_factor_lf as u64, 8);
        w.bits(c.b_factor_lf as u64, 8);
    }
}

// ---------------------------------------------------------------------------
// LfGroup

fn push_classes(out: &mut Vec<String>, prefix: &str, cls: Vec<String>) {
    for c in cls {
        out.push(format!("{prefix}{c}"));
    }
}

/// LfCoeff: extra_precision, then the 3-channel (Y, X, B) Modular image, stream index `1 + lg`.
pub fn write_lf_coeff(w: &mut BitWriter, src: &mut Src, g: &LfGroupSpec, lg: usize, mo: &ModularOpts, classes: &mut Vec<String>) {
    assert!(g.extra_precision < 4);
    for c in &g.lf {
        assert_eq!((c.w, c.h), (g.bw >> c.hshift, g.bh >> c.vshift));
    }
    w.bits(g.extra_precision as u64, 2);
    let (bits, cls) = encode_local_substream(src, &g.lf, 1 + lg as u32, mo);
    push_classes(classes, "lfcoeff:", cls);
    w.append(&bits);
}

/// HfMetadata: nb_blocks, then the 4-channel Modular image, stream index `1 + 2 * num_lf_groups + lg`.
pub fn write_hf_metadata(w: &mut BitWriter, src: &mut Src, g: &LfGroupSpec, lg: usize, num_lf_groups: usize, mo: &ModularOpts, classes: &mut Vec<String>) {
    check_layout(g.bw, g.bh, &g.blocks).expect("illegal varblock layout");
    let nb = g.blocks.len();
    w.bits(nb as u64 - 1, ceil_log2(g.bw * g.bh));
    let mut info = Chan::new(nb, 2);
    for (i, b) in g.blocks.iter().enumerate() {
        info.set(i, 0, b.ty as i32);
        info.set(i, 1, b.hf_mul as i32 - 1);
    }
    assert_eq!((g.sharpness.w, g.sharpness.h), (g.bw, g.bh));
    assert_eq!((g.x_from_y.w, g.x_from_y.h), (g.bw.div_ceil(8), g.bh.div_ceil(8)));
    assert_eq!((g.b_from_y.w, g.b_from_y.h), (g.bw.div_ceil(8), g.bh.div_ceil(8)));
    let chans = [g.x_from_y.clone(), g.b_from_y.clone(), info, g.sharpness.clone()];
    let (bits, cls) = encode_local_substream(src, &chans, (1 + 2 * num_lf_groups + lg) as u32, mo);
    push_classes(classes, "hfmeta:", cls);
    w.append(&bits);
}

// ---------------------------------------------------------------------------
// HfGlobal

fn write_dct_params(w: &mut BitWriter, p: &DctParamsSpec) {
    let n = p.v[0].len();
    assert!((1..=16).contains(&n) && p.v[1].len() == n && p.v[2].len() == n);
    w.bits(n as u64 - 1, 4);
    for c in &p.v {
        for &x in c {
            w.f16_bits(x);
        }
    }
}

fn write_fixed<const N: usize>(w: &mut BitWriter, p: &[[u16; N]; 3]) {
    for c in p {
        for &x in c {
            w.f16_bits(x);
        }
    }
}

/// Dequantisation matrices.  RAW images use stream index `1 + 3 * num_lf_groups + set`.
pub fn write_dequant_matrices(w: &mut BitWriter, src: &mut Src, d: &DequantSetSpec, num_lf_groups: usize, mo: &ModularOpts, classes: &mut Vec<String>) {
    match d {
        DequantSetSpec::AllDefault => w.bit(true),
        DequantSetSpec::PerSet(v) => {
            assert_eq!(v.len(), NUM_DEQUANT_SETS);
            w.bit(false);
            for (i, e) in v.iter().enumerate() {
                let small = DEQUANT_DIMS[i] == (8, 8);
                assert!(small || matches!(e.mode(), 0 | 6 | 7), "8x8-only matrix encoding used for a larger matrix");
                w.bits(e.mode() as u64, 3);
                match e {
                    DequantEnc::Library => {}
                    DequantEnc::Hornuss(p) => write_fixed(w, p),
                    DequantEnc::Dct2(p) => write_fixed(w, p),
                    DequantEnc::Dct4 { params, dct } => {
                        write_fixed(w, params);
                        write_dct_params(w, dct);
                    }
                    DequantEnc::Dct4x8 { params, dct } => {
                        write_fixed(w, params);
                        write_dct_params(w, dct);
                    }
                    DequantEnc::Afv { params, dct, dct4x4 } => {
                        write_fixed(w, params);
                        write_dct_params(w, dct);
                        write_dct_params(w, dct4x4);
                    }
                    DequantEnc::Dct(p) => write_dct_params(w, p),
                    DequantEnc::Raw { denominator, chans } => {
                        w.f16_bits(*denominator);
                        let (bits, cls) = encode_local_substream(src, chans, (1 + 3 * num_lf_groups + i) as u32, mo);
                        push_classes(classes, "dequant-raw:", cls);
                        w.append(&bits);
                    }
                }
            }
        }
    }
}

/// Ops of one coefficient-order permutation given by its prefix (see `PassSpec::orders`).
pub fn order_ops(prefix: &[u32], size: usize, pad_end: usize) -> Vec<Op> {
    let skip = size / 64;
    assert!(prefix.len() <= size);
    for (i, &v) in prefix.iter().enumerate().take(skip) {
        assert_eq!(v as usize, i, "the LLF part of a coefficient order must stay in place");
    }
    let mut seen = vec![false; prefix.len()];
    for &v in prefix {
        assert!((v as usize) < prefix.len() && !seen[v as usize], "order prefix is not a permutation");
        seen[v as usize] = true;
    }
    let mut temp: Vec<u32> = (skip as u32..prefix.len().max(skip) as u32).collect();
    let mut lehmer = vec![];
    for &v in prefix.iter().skip(skip) {
        let idx = temp.iter().position(|&x| x == v).unwrap();
        lehmer.push(idx as u32);
        temp.remove(idx);
    }
    let mut end = lehmer.iter().rposition(|&x| x != 0).map(|p| p + 1).unwrap_or(0);
    end = (end + pad_end).min(size - skip);
    lehmer.resize(end.max(lehmer.len()), 0);
    let mut ops = vec![Op::Lit { ctx: perm_context(size as u32), value: end as u32 }];
    let mut prev = 0u32;
    for &l in &lehmer[..end] {
        ops.push(Op::Lit { ctx: perm_context(prev), value: l });
        prev = l;
    }
    ops
}

// ---------------------------------------------------------------------------
// HF coefficients

/// Residual tokens (context, value) of one pass group, mirroring the format's
/// context model: block context from transform / hf_mul / LF thresholds,
/// non-zero-count context from the neighbouring counts, coefficient contexts
/// from position and non-zeros left.
pub fn hf_group_tokens(frame: &VarDctFrame, g: usize, gc: &GroupCoeffs) -> Vec<(u32, u32)> {
    let (lg, ox, oy) = frame.group_place(g);
    let lfg = &frame.lf_groups[lg];
    let idxs = frame.group_block_indices(g);
    assert_eq!(idxs.len(), gc.blocks.len(), "coefficient list does not match the varblocks of the group");
    assert!(gc.preset < frame.num_hf_presets);
    let nbc = frame.block_ctx.num_clusters();
    let preset_base = gc.preset * CONTEXTS_PER_BLOCK_CLUSTER * nbc;
    // NonZeros(x, y) per channel over the group's block grid
    let mut nz_grid = [vec![0u32; GROUP_BLOCKS * GROUP_BLOCKS], vec![0u32; GROUP_BLOCKS * GROUP_BLOCKS], vec![0u32; GROUP_BLOCKS * GROUP_BLOCKS]];
    let mut out = vec![];
    for (&bi, coeffs) in idxs.iter().zip(&gc.blocks) {
        let b = &lfg.blocks[bi];
        let (dw, dh) = TRANSFORM_BLOCKS[b.ty as usize];
        let nb = dw * dh;
        let log = nb.trailing_zeros();
        let size = nb * 64;
        let (x, y) = (b.bx - ox, b.by - oy);
        // quantised LF at the block position, per channel X, Y, B (coded order is Y, X, B)
        let lfq: [i32; 3] = std::array::from_fn(|c| {
            let (hs, vs) = frame.shifts(c);
            lfg.lf[[1, 0, 2][c]].at(b.bx >> hs, b.by >> vs)
        });
        // channels are interleaved per varblock in the order Y, X, B
        for (slot, c) in [(0usize, 1usize), (1, 0), (2, 2)] {
            // a sub-sampled channel has coefficients only at blocks aligned to its sampling grid
            let (hs, vs) = frame.shifts(c);
            let (bx, by) = (x, y);
            let (x, y) = (bx >> hs, by >> vs);
            if (x << hs, y << vs) != (bx, by) {
                assert!(coeffs[c].is_empty(), "coefficients given for a block the sub-sampled channel does not have");
                continue;
            }
            let bctx = frame.block_ctx.block_ctx(slot, ORDER_ID[b.ty as usize], b.hf_mul, lfq);
            let grid = &mut nz_grid[c];
            let predicted = if x == 0 && y == 0 {
                32
            } else if x == 0 {
                grid[(y - 1) * GROUP_BLOCKS + x]
            } else if y == 0 {
                grid[y * GROUP_BLOCKS + x - 1]
            } else {
                (grid[(y - 1) * GROUP_BLOCKS + x] + grid[y * GROUP_BLOCKS + x - 1] + 1) >> 1
            };
            let nz_ctx = if predicted < 8 { predicted } else { 4 + predicted / 2 } as usize;
            let list = &coeffs[c];
            let nzeros = list.len();
            assert!(nzeros <= size - nb);
            out.push(((preset_base + bctx + nz_ctx * nbc) as u32, nzeros as u32));
            let shown = ((nzeros + nb - 1) >> log) as u32;
            for dy in 0..dh {
                for dx in 0..dw {
                    grid[(y + dy) * GROUP_BLOCKS + x + dx] = shown;
                }
            }
            if nzeros == 0 {
                continue;
            }
            let histo_offset = preset_base + NZ_CONTEXTS * nbc + bctx * COEFF_CONTEXTS;
            let mut prev: u32 = if nzeros > size / 16 { 0 } else { 1 };
            let mut left = nzeros;
            let mut it = list.iter().peekable();
            for k in nb..size {
                if left == 0 {
                    break;
                }
                let ctx = histo_offset + zero_density_context(left, k, nb, log, prev) as usize;
                let v = match it.peek() {
                    Some(&&(p, v)) if p as usize == k => {
                        assert!(v != 0, "listed coefficients must be non-zero");
                        it.next();
                        v
                    }
                    Some(&&(p, _)) => {
                        assert!(p as usize > k, "coefficient positions must be ascending and >= num_blocks");
                        0
                    }
                    None => unreachable!(),
                };
                out.push((ctx as u32, pack_signed(v)));
                prev = (v != 0) as u32;
                if v != 0 {
                    left -= 1;
                }
            }
            assert_eq!(left, 0, "coefficient position beyond the varblock");
        }
    }
    out
}

// ---------------------------------------------------------------------------
// Whole frame

pub struct VarDctBits {
    /// LfChannelDequantization .. LfChannelCorrelation (goes between the
    /// patches/splines/noise part and GlobalModular)
    pub lf_global: BitWriter,
    /// per LF group: (LfCoeff, HfMetadata); ModularLfGroup goes in between
    pub lf_groups: Vec<(BitWriter, BitWriter)>,
    pub hf_global: BitWriter,
    /// [pass][group]: HF coefficients (the Modular group data follows)
    pub pass_groups: Vec<Vec<BitWriter>>,
    pub classes: Vec<String>,
}

/// Writes all VarDCT parts of a frame.  `mo` steers the embedded Modular
/// sub-bitstreams (LF image, HF metadata, RAW matrices).
pub fn write_vardct_frame(src: &mut Src, f: &VarDctFrame, mo: &ModularOpts) -> VarDctBits {
    let mut classes = vec![];
    let num_lf = f.num_lf_groups();
    let num_groups = f.num_groups();
    assert_eq!(f.lf_groups.len(), num_lf);
    for (lg, g) in f.lf_groups.iter().enumerate() {
        assert_eq!((g.bw, g.bh), f.lf_group_blocks(lg), "LF group block size");
        for (k, c) in [1usize, 0, 2].into_iter().enumerate() {
            let (hs, vs) = f.shifts(c);
            assert_eq!((g.lf[k].hshift, g.lf[k].vshift), (hs as i32, vs as i32), "LF channel shifts");
        }
        if f.jpeg_upsampling != [0; 3] {
            assert!(g.blocks.iter().all(|b| b.ty == 0), "sub-sampled frames are written with DCT8 only");
        }
    }

    // LfGlobal
    let mut lf_global = BitWriter::new();
    write_lf_channel_dequantization(&mut lf_global, &f.lf_dequant);
    write_quantizer(&mut lf_global, f.global_scale, f.quant_lf, src);
    f.block_ctx.write(&mut lf_global, src);
    write_lf_channel_correlation(&mut lf_global, &f.lf_corr, src);

    // LfGroups
    let mut lf_groups = vec![];
    for (lg, g) in f.lf_groups.iter().enumerate() {
        let mut a = BitWriter::new();
        write_lf_coeff(&mut a, src, g, lg, mo, &mut classes);
        let mut b = BitWriter::new();
        write_hf_metadata(&mut b, src, g, lg, num_lf, mo, &mut classes);
        lf_groups.push((a, b));
    }

    // HfGlobal + pass groups
    let mut hf_global = BitWriter::new();
    write_dequant_matrices(&mut hf_global, src, &f.dequant, num_lf, mo, &mut classes);
    let preset_bits = ceil_log2(num_groups);
    assert!(f.num_hf_presets >= 1 && f.num_hf_presets - 1 < (1usize << preset_bits).max(1));
    hf_global.bits(f.num_hf_presets as u64 - 1, preset_bits);
    let nbc = f.block_ctx.num_clusters();
    let num_ctx = CONTEXTS_PER_BLOCK_CLUSTER * f.num_hf_presets * nbc;
    let mut pass_groups = vec![];
    for p in &f.passes {
        assert_eq!(p.orders.len(), 13);
        assert_eq!(p.groups.len(), num_groups);
        let mut used_orders = 0u32;
        let mut order_stream = vec![];
        for (o, e) in p.orders.iter().enumerate() {
            if let Some(lists) = e {
                used_orders |= 1 << o;
                for l in lists {
                    order_stream.extend(order_ops(l, ORDER_COEFFS[o], p.order_pad));
                }
            }
        }
        hf_global.u32_any([D::C(0x5f), D::C(0x13), D::C(0), D::B(0, 13)], used_orders, src);
        if used_orders != 0 {
            let code = EntropyCode::generate(src, 8, &[&order_stream], &CodeOpts::default());
            code.write_header(&mut hf_global, src);
            code.write_stream(&mut hf_global, &order_stream, true);
            classes.push("orders:custom".into());
        }
        // coefficient streams of all groups of this pass share one code
        let mut streams: Vec<Vec<Op>> = vec![];
        for (g, gc) in p.groups.iter().enumerate() {
            let tokens = hf_group_tokens(f, g, gc);
            let (ops, copies) = make_ops(&tokens, p.lz77, 0, src, false);
            if copies > 0 {
                classes.push("hf:lz77-copies".into());
            }
            streams.push(ops);
        }
        let refs: Vec<&[Op]> = streams.iter().map(|s| &s[..]).collect();
        let code = EntropyCode::generate(src, num_ctx, &refs, &CodeOpts { lz77_min_length: p.lz77, ..Default::default() });
        classes.push(format!("hf-code:{}", if code.use_prefix { "prefix" } else { "ans" }));
        code.write_header(&mut hf_global, src);
        let preset_sel_bits = ceil_log2(f.num_hf_presets);
        let mut row = vec![];
        for (gc, ops) in p.groups.iter().zip(&streams) {
            let mut w = BitWriter::new();
            w.bits(gc.preset as u64, preset_sel_bits);
            code.write_stream(&mut w, ops, true);
            row.push(w);
        }
        pass_groups.push(row);
    }
    VarDctBits { lf_global, lf_groups, hf_global, pass_groups, classes }
}
