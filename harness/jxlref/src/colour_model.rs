//! Independent f64 colour model (links no jxl-oxide code).
//!
//! * chromaticities of the named white points and primaries, taken from the
//!   standards (IEC 61966-2-1, ITU-R BT.2100, SMPTE RP 431-2 / ST 428-1);
//! * the reference transfer curves (IEC 61966-2-1 sRGB, ITU-R BT.709, SMPTE ST 2084
//!   PQ, ARIB STD-B67 / BT.2100 HLG OETF) in f64;
//! * a model of how finely an ICC v4 matrix/TRC profile (s15Fixed16 `chad`,
//!   colorant and `wtpt` tags) can carry a white point and primaries at all --
//!   the "format resolution".  It is used to keep colour descriptions that the
//!   *format* cannot carry to 1e-4 out of the C19 domain (counted), so that what
//!   remains is attributable to the implementation.

pub type Xy = [f64; 2];
pub type M3 = [[f64; 3]; 3];

pub const WP_D65: Xy = [0.3127, 0.3290];
pub const WP_E: Xy = [1.0 / 3.0, 1.0 / 3.0];
pub const WP_DCI: Xy = [0.314, 0.351];

pub const PRIM_SRGB: [Xy; 3] = [[0.64, 0.33], [0.30, 0.60], [0.15, 0.06]];
pub const PRIM_BT2100: [Xy; 3] = [[0.708, 0.292], [0.170, 0.797], [0.131, 0.046]];
pub const PRIM_P3: [Xy; 3] = [[0.680, 0.320], [0.265, 0.690], [0.150, 0.060]];

/// The PCS illuminant every ICC v4 profile header carries (D50 as s15Fixed16).
pub const PCS_D50: [f64; 3] = [0xf6d6 as f64 / 65536.0, 1.0, 0xd32d as f64 / 65536.0];

const BRADFORD: M3 = [[0.8951, 0.2664, -0.1614], [-0.7502, 1.7135, 0.0367], [0.0389, -0.0685, 1.0296]];

pub fn mat_mul(a: &M3, b: &M3) -> M3 {
    let mut o = [[0.0; 3]; 3];
    for r in 0..3 {
        for c in 0..3 {
            o[r][c] = (0..3).map(|k| a[r][k] * b[k][c]).sum();
        }
    }
    o
}

pub fn mat_vec(a: &M3, v: &[f64; 3]) -> [f64; 3] {
    [0, 1, 2].map(|r| (0..3).map(|k| a[r][k] * v[k]).sum())
}

pub fn mat_inv(m: &M3) -> Option<M3> {
    let c = |r0: usize, c0: usize, r1: usize, c1: usize| m[r0][c0] * m[r1][c1] - m[r0][c1] * m[r1][c0];
    let det = m[0][0] * c(1, 1, 2, 2) - m[0][1] * c(1, 0, 2, 2) + m[0][2] * c(1, 0, 2, 1);
    if det == 0.0 || !det.is_finite() {
        return None;
    }
    let mut o = [[0.0; 3]; 3];
    for r in 0..3 {
        for cc in 0..3 {
            // cofactor of (cc, r)
            let (r0, r1) = match cc { 0 => (1, 2), 1 => (0, 2), _ => (0, 1) };
            let (c0, c1) = match r { 0 => (1, 2), 1 => (0, 2), _ => (0, 1) };
            let minor = m[r0][c0] * m[r1][c1] - m[r0][c1] * m[r1][c0];
            let sign = if (r + cc) % 2 == 0 { 1.0 } else { -1.0 };
            o[r][cc] = sign * minor / det;
        }
    }
    Some(o)
}

/// XYZ of a chromaticity with Y = 1.
pub fn xy_to_xyz(xy: Xy) -> [f64; 3] {
    [xy[0] / xy[1], 1.0, (1.0 - xy[0] - xy[1]) / xy[1]]
}

pub fn xyz_to_xy(v: [f64; 3]) -> Xy {
    let s = v[0] + v[1] + v[2];
    [v[0] / s, v[1] / s]
}

/// Linear Bradford chromatic adaptation matrix taking `from` (XYZ) to `to` (XYZ).
pub fn bradford(from: [f64; 3], to: [f64; 3]) -> Option<M3> {
    let inv = mat_inv(&BRADFORD)?;
    let f = mat_vec(&BRADFORD, &from);
    let t = mat_vec(&BRADFORD, &to);
    let mut d = [[0.0; 3]; 3];
    for i in 0..3 {
        if f[i] == 0.0 {
            return None;
        }
        d[i][i] = t[i] / f[i];
    }
    Some(mat_mul(&inv, &mat_mul(&d, &BRADFORD)))
}

/// Bradford cone responses of a white point (Y = 1) relative to those of the
/// PCS illuminant D50.  ICC v4 mandates a (linear Bradford) `chad` to D50; it is
/// only meaningful where all three ratios are positive and moderate.
pub fn bradford_cone_ratio(wp: Xy) -> [f64; 3] {
    let w = mat_vec(&BRADFORD, &xy_to_xyz(wp));
    let d = mat_vec(&BRADFORD, &PCS_D50);
    [w[0] / d[0], w[1] / d[1], w[2] / d[2]]
}

/// RGB->XYZ matrix for the primaries and white point (columns are the
/// primaries' XYZ); also returns the three column sums S_i (= the barycentric
/// weight of the white point for primary i, divided by the white point's y).
pub fn rgb_to_xyz(prim: [Xy; 3], wp: Xy) -> Option<(M3, [f64; 3])> {
    let p: M3 = [
        [prim[0][0], prim[1][0], prim[2][0]],
        [prim[0][1], prim[1][1], prim[2][1]],
        [1.0 - prim[0][0] - prim[0][1], 1.0 - prim[1][0] - prim[1][1], 1.0 - prim[2][0] - prim[2][1]],
    ];
    let inv = mat_inv(&p)?;
    let s = mat_vec(&inv, &xy_to_xyz(wp));
    let mut m = p;
    for r in 0..3 {
        for c in 0..3 {
            m[r][c] *= s[c];
        }
    }
    Some((m, s))
}

#[derive(Clone, Copy, Debug)]
pub struct IccResolution {
    /// Worst-case shift of the recovered white point xy when every s15Fixed16
    /// number that carries it is off by half a unit (correct rounding).
    pub white_point: f64,
    /// Same for the worst of the three primaries (0 for gray).
    pub primaries: f64,
    /// Smallest colorant column sum in the PCS (how many s15Fixed16 steps a primary has).
    pub min_colorant_sum: f64,
}

const Q: f64 = 65536.0;

fn quant(v: f64) -> Option<f64> {
    let q = (v * Q).round();
    if !q.is_finite() || q.abs() >= 2147483648.0 {
        None
    } else {
        Some(q)
    }
}

/// Model of an ideal ICC v4 writer/reader pair for the layout jxl-style
/// profiles use: RGB = D50 `wtpt` + Bradford `chad` + D50-adapted colorants;
/// gray = `wtpt` carrying the white point itself.  Returns `None` when some
/// number does not fit s15Fixed16 or a matrix is singular.
pub fn icc_matrix_resolution(wp: Xy, prim: Option<[Xy; 3]>) -> Option<IccResolution> {
    let wxyz = xy_to_xyz(wp);
    if !wxyz.iter().all(|v| v.is_finite()) {
        return None;
    }
    let Some(prim) = prim else {
        // gray: wtpt = white point XYZ
        let base: Vec<f64> = wxyz.iter().map(|&v| quant(v)).collect::<Option<_>>()?;
        let dec = |q: &[f64]| xyz_to_xy([q[0] / Q, q[1] / Q, q[2] / Q]);
        let b = dec(&base);
        let mut r = [0.0f64; 2];
        for e in 0..3 {
            let mut p = base.clone();
            p[e] += 1.0;
            let d = dec(&p);
            r[0] += 0.5 * (d[0] - b[0]).abs();
            r[1] += 0.5 * (d[1] - b[1]).abs();
        }
        let res = r[0].max(r[1]);
        if !res.is_finite() {
            return None;
        }
        return Some(IccResolution { white_point: res, primaries: 0.0, min_colorant_sum: f64::INFINITY });
    };
    let chad = bradford(wxyz, PCS_D50)?;
    let (m, _) = rgb_to_xyz(prim, wp)?;
    let pcs = mat_mul(&chad, &m);
    let mut chad_q = [[0.0; 3]; 3];
    let mut col_q = [[0.0; 3]; 3]; // [primary][xyz]
    for r in 0..3 {
        for c in 0..3 {
            chad_q[r][c] = quant(chad[r][c])?;
            col_q[c][r] = quant(pcs[r][c])?;
        }
    }
    let min_sum = (0..3).map(|i| (col_q[i][0] + col_q[i][1] + col_q[i][2]) / Q).fold(f64::INFINITY, f64::min);
    // decode: chad^-1 * D50 -> white point; chad^-1 * colorant -> primary
    let dec = |cq: &M3, colq: &M3| -> Option<[Xy; 4]> {
        let mut c = *cq;
        for r in 0..3 {
            for k in 0..3 {
                c[r][k] /= Q;
            }
        }
        let inv = mat_inv(&c)?;
        let w = xyz_to_xy(mat_vec(&inv, &PCS_D50));
        let p = [0, 1, 2].map(|i| xyz_to_xy(mat_vec(&inv, &[colq[i][0] / Q, colq[i][1] / Q, colq[i][2] / Q])));
        let out = [w, p[0], p[1], p[2]];
        if out.iter().all(|v| v[0].is_finite() && v[1].is_finite()) {
            Some(out)
        } else {
            None
        }
    };
    let b = dec(&chad_q, &col_q)?;
    let mut r = [[0.0f64; 2]; 4];
    for e in 0..9 {
        let mut c = chad_q;
        c[e / 3][e % 3] += 1.0;
        let d = dec(&c, &col_q)?;
        for k in 0..4 {
            for a in 0..2 {
                r[k][a] += 0.5 * (d[k][a] - b[k][a]).abs();
            }
        }
    }
    for i in 0..3 {
        for e in 0..3 {
            let mut c = col_q;
            c[i][e] += 1.0;
            let d = dec(&chad_q, &c)?;
            for a in 0..2 {
                r[i + 1][a] += 0.5 * (d[i + 1][a] - b[i + 1][a]).abs();
            }
        }
    }
    let wp_res = r[0][0].max(r[0][1]);
    let pr_res = (1..4).map(|k| r[k][0].max(r[k][1])).fold(0.0, f64::max);
    Some(IccResolution { white_point: wp_res, primaries: pr_res, min_colorant_sum: min_sum })
}

// ---------------------------------------------------------------------------
// Reference transfer curves (display-linear <-> encoded), f64.

pub fn srgb_encode(l: f64) -> f64 {
    let a = l.abs();
    let v = if a <= 0.0031308 { 12.92 * a } else { 1.055 * a.powf(1.0 / 2.4) - 0.055 };
    v.copysign(l)
}

pub fn srgb_decode(e: f64) -> f64 {
    let a = e.abs();
    let v = if a <= 0.04045 { a / 12.92 } else { ((a + 0.055) / 1.055).powf(2.4) };
    v.copysign(e)
}

pub fn bt709_encode(l: f64) -> f64 {
    if l < 0.018 { 4.5 * l } else { 1.099 * l.powf(0.45) - 0.099 }
}

pub fn bt709_decode(e: f64) -> f64 {
    if e < 0.081 { e / 4.5 } else { ((e + 0.099) / 1.099).powf(1.0 / 0.45) }
}

const PQ_M1: f64 = 2610.0 / 16384.0;
const PQ_M2: f64 = 2523.0 / 4096.0 * 128.0;
const PQ_C1: f64 = 3424.0 / 4096.0;
const PQ_C2: f64 = 2413.0 / 4096.0 * 32.0;
const PQ_C3: f64 = 2392.0 / 4096.0 * 32.0;

/// ST 2084 inverse EOTF; `y` is luminance / 10000 cd/m2.
pub fn pq_encode(y: f64) -> f64 {
    let p = y.max(0.0).powf(PQ_M1);
    ((PQ_C1 + PQ_C2 * p) / (1.0 + PQ_C3 * p)).powf(PQ_M2)
}

/// ST 2084 EOTF; returns luminance / 10000 cd/m2.
pub fn pq_decode(e: f64) -> f64 {
    let p = e.max(0.0).powf(1.0 / PQ_M2);
    ((p - PQ_C1).max(0.0) / (PQ_C2 - PQ_C3 * p)).powf(1.0 / PQ_M1)
}

const HLG_A: f64 = 0.17883277;
const HLG_B: f64 = 0.28466892;
const HLG_C: f64 = 0.55991073;

/// BT.2100 HLG OETF, scene linear in [0, 1].
pub fn hlg_oetf(s: f64) -> f64 {
    if s <= 1.0 / 12.0 { (3.0 * s).sqrt() } else { HLG_A * (12.0 * s - HLG_B).ln() + HLG_C }
}

pub fn hlg_inverse_oetf(e: f64) -> f64 {
    if e <= 0.5 { e * e / 3.0 } else { (((e - HLG_C) / HLG_A).exp() + HLG_B) / 12.0 }
}

/// BT.2100 HLG system gamma for a display peak of `lw` cd/m2.
pub fn hlg_system_gamma(lw: f64) -> f64 {
    1.2 * 1.111f64.powf((lw / 1000.0).log2())
}

#[cfg(test)]
mod tests {
    use super::*;

    #[test]
    fn curves_invert() {
        for i in 0..=1000 {
            let x = i as f64 / 1000.0;
            assert!((srgb_decode(srgb_encode(x)) - x).abs() < 1e-12);
            assert!((bt709_decode(bt709_encode(x)) - x).abs() < 1e-4); // BT.709 constants are rounded in the standard
            assert!((pq_decode(pq_encode(x)) - x).abs() < 1e-10);
            assert!((hlg_inverse_oetf(hlg_oetf(x)) - x).abs() < 1e-7);
        }
        assert!((pq_encode(0.01) - 0.508078).abs() < 1e-5); // 100 cd/m2
    }

    #[test]
    fn named_spaces_are_inside_the_domain() {
        // every named white point x named primaries combination the format can express
        for wp in [WP_D65, WP_E, WP_DCI] {
            for pr in [PRIM_SRGB, PRIM_BT2100, PRIM_P3] {
                let r = icc_matrix_resolution(wp, Some(pr)).unwrap();
                println!("{wp:?} {:?}: {r:?}", pr[0]);
                assert!(r.white_point.max(r.primaries) < 4.0e-5, "{wp:?} {pr:?} {r:?}");
            }
            let r = icc_matrix_resolution(wp, None).unwrap();
            assert!(r.white_point < 1.0e-5, "{r:?}");
        }
    }

    #[test]
    fn srgb_resolution_is_fine() {
        let r = icc_matrix_resolution(WP_D65, Some(PRIM_SRGB)).unwrap();
        assert!(r.white_point < 5e-5 && r.primaries < 5e-5, "{r:?}");
        // the D65 sRGB matrix, D50-adapted, is the well-known one
        let chad = bradford(xy_to_xyz(WP_D65), PCS_D50).unwrap();
        let (m, _) = rgb_to_xyz(PRIM_SRGB, WP_D65).unwrap();
        let pcs = mat_mul(&chad, &m);
        assert!((pcs[0][0] - 0.4361).abs() < 2e-4 && (pcs[1][1] - 0.7169).abs() < 2e-4 && (pcs[2][2] - 0.7141).abs() < 2e-4, "{pcs:?}");
    }
}
