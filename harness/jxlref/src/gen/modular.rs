//! Generator of complete lossless Modular codestreams (single frame).

use crate::bits::BitWriter;
use crate::frames::*;
use crate::headers::*;
use crate::modular::encode::*;
use crate::modular::predict::Chan;
use crate::src::Src;

#[derive(Clone, Debug)]
pub struct ModGenOpts {
    pub max_dim: usize,
    /// probability (x/256) of an image spanning several groups
    pub multi_group: u32,
    /// narrow mode: depth <= 12, modular_16bit_buffers = 1, every intermediate fits i16
    pub narrow: bool,
    pub allow_ec: bool,
    pub allow_float: bool,
    pub allow_passes: bool,
    pub allow_permuted_toc: bool,
    pub orientation: bool,
    /// preview frames (decided by the tail seed)
    pub allow_preview: bool,
}

impl Default for ModGenOpts {
    fn default() -> Self {
        ModGenOpts { max_dim: 1100, multi_group: 24, narrow: false, allow_ec: true, allow_float: true, allow_passes: true, allow_permuted_toc: true, orientation: false, allow_preview: true }
    }
}

pub struct ModularCase {
    pub ih: ImageHeaderSpec,
    pub fh: FrameHeaderSpec,
    pub bytes: Vec<u8>,
    /// colour channels, then extra channels at their stored resolution
    pub expected: Vec<Chan>,
    pub n_colour: usize,
    pub classes: Vec<String>,
    pub layout: FrameLayout,
    pub header_len: usize,
    pub nontrivial: bool,
    pub debug: String,
}

pub fn pass_shifts_of(p: &PassesSpec) -> Vec<(i32, i32)> {
    let mut v = vec![(0, 0); p.num_passes as usize];
    let mut maxshift = 3;
    for (&ds, &lp) in p.downsample.iter().zip(&p.last_pass) {
        let minshift = ds.trailing_zeros() as i32;
        v[lp as usize] = (minshift, maxshift);
        maxshift = minshift;
    }
    v[p.num_passes as usize - 1] = (0, maxshift);
    v
}

/// Passes whose tables steer shifted channels to different passes; valid and unambiguous:
/// last_pass strictly increasing and < num_passes - 1, downsample strictly decreasing.
pub fn gen_passes_for_modular(src: &mut Src) -> PassesSpec {
    if !src.chance(60) {
        return PassesSpec::default();
    }
    let num_passes = src.range(2, 4) as u32;
    let max_ds = (num_passes - 1).min(3) as usize;
    let num_ds = src.range(0, max_ds as u64) as usize;
    let all_ds = [8u32, 4, 2];
    // choose num_ds of them, decreasing
    let mut pick: Vec<u32> = all_ds.to_vec();
    while pick.len() > num_ds {
        let k = src.below(pick.len());
        pick.remove(k);
    }
    let mut last_pass: Vec<u32> = vec![];
    let mut lo = 0u32;
    for i in 0..num_ds {
        let remaining = (num_ds - 1 - i) as u32;
        let hi = num_passes - 2 - remaining;
        let v = src.range(lo as u64, hi as u64) as u32;
        last_pass.push(v);
        lo = v + 1;
    }
    PassesSpec { num_passes, shift: (0..num_passes - 1).map(|_| src.range(0, 3) as u32).collect(), downsample: pick, last_pass }
}

fn gen_dim(src: &mut Src, o: &ModGenOpts, multi: bool, group_dim: usize) -> usize {
    if multi {
        match src.weighted(&[3, 2, 1]) {
            0 => (group_dim + src.range(1, 8) as usize).min(o.max_dim),
            1 => src.range(group_dim as u64 + 1, (2 * group_dim + 3).min(o.max_dim).max(group_dim + 1) as u64) as usize,
            _ => src.range(group_dim as u64 + 1, o.max_dim as u64) as usize,
        }
    } else {
        match src.weighted(&[5, 3, 2, 1]) {
            0 => src.range(1, 12) as usize,
            1 => src.range(1, 40) as usize,
            2 => src.range(1, 70) as usize,
            _ => src.range(1, group_dim.min(o.max_dim) as u64) as usize,
        }
    }
}

pub fn fill_channel(src: &mut Src, c: &mut Chan, lo: i64, hi: i64) {
    let span = (hi - lo).max(0) as u64;
    match src.weighted(&[1, 2, 3, 2, 1, 2]) {
        0 => {
            let v = lo + src.range(0, span) as i64;
            c.data.fill(v as i32);
        }
        1 => {
            // ramp
            let (ax, ay) = (src.range_i(-3, 3), src.range_i(-3, 3));
            let base = lo + src.range(0, span) as i64;
            for y in 0..c.h {
                for x in 0..c.w {
                    let v = (base + ax * x as i64 + ay * y as i64).clamp(lo, hi);
                    c.data[y * c.w + x] = v as i32;
                }
            }
        }
        2 => {
            // noise from a local generator seeded by the choice sequence
            let mut s = src.u64() | 1;
            let amp = match src.below(3) { 0 => span.min(3), 1 => span.min(40), _ => span };
            let base = lo + src.range(0, span - amp) as i64;
            for v in c.data.iter_mut() {
                s ^= s << 13;
                s ^= s >> 7;
                s ^= s << 17;
                *v = (base + (s % (amp + 1)) as i64) as i32;
            }
        }
        3 => {
            // few colours in runs
            let k = src.range(1, 5) as usize;
            let pal: Vec<i64> = (0..k).map(|_| lo + src.range(0, span) as i64).collect();
            let mut s = src.u64() | 1;
            let mut cur = pal[0];
            for v in c.data.iter_mut() {
                s ^= s << 13;
                s ^= s >> 7;
                s ^= s << 17;
                if s % 7 == 0 {
                    cur = pal[(s >> 8) as usize % k];
                }
                *v = cur as i32;
            }
        }
        4 => {
            // extremes
            let mut s = src.u64() | 1;
            for v in c.data.iter_mut() {
                s ^= s << 13;
                s ^= s >> 7;
                s ^= s << 17;
                *v = (if s & 1 == 0 { lo + (s >> 60) as i64 % (span as i64 + 1).max(1) } else { hi - ((s >> 60) as i64 % (span as i64 + 1).max(1)) }) as i32;
            }
        }
        _ => {
            // smooth + texture: each pixel near its left/top neighbour
            let mut s = src.u64() | 1;
            let step = src.range(1, 6) as i64;
            for y in 0..c.h {
                for x in 0..c.w {
                    s ^= s << 13;
                    s ^= s >> 7;
                    s ^= s << 17;
                    let prev = if x > 0 { c.data[y * c.w + x - 1] as i64 } else if y > 0 { c.data[(y - 1) * c.w + x] as i64 } else { lo + (span / 2) as i64 };
                    let d = (s % (2 * step as u64 + 1)) as i64 - step;
                    c.data[y * c.w + x] = (prev + d).clamp(lo, hi) as i32;
                }
            }
        }
    }
}

fn ceil_shift(v: usize, s: u32) -> usize {
    (v + (1 << s) - 1) >> s
}

/// Sections of a Modular frame in logical order from the encoder's bit streams.
fn assemble_sections(bitsout: &ModularFrameBits, n_entries: usize) -> Vec<Vec<u8>> {
    let mut sections: Vec<Vec<u8>> = vec![];
    if n_entries == 1 {
        let mut wr = BitWriter::new();
        write_lf_global_preamble_plain(&mut wr);
        wr.append(&bitsout.global);
        wr.append(&bitsout.lf_groups[0]);
        wr.append(&bitsout.pass_groups[0][0]);
        sections.push(wr.finish());
    } else {
        let mut wr = BitWriter::new();
        write_lf_global_preamble_plain(&mut wr);
        wr.append(&bitsout.global);
        sections.push(wr.finish());
        for lg in &bitsout.lf_groups {
            sections.push(lg.clone().finish());
        }
        sections.push(vec![]); // HfGlobal: nothing for Modular frames
        for p in &bitsout.pass_groups {
            for g in p {
                sections.push(g.clone().finish());
            }
        }
    }
    sections
}

/// Preview frame, decided by the tail seed (byte 6) so that older choice sequences keep their case: sets
/// `ih.preview` and returns the bytes of a complete Modular frame whose dimensions are the preview's (the frame
/// header carries no size of its own: a decoder has to take the group / TOC geometry from the preview header).
/// The sizes are chosen so that the preview and the image often differ in their number of groups.
fn gen_preview_frame(src: &Src, ih: &mut ImageHeaderSpec, o: &ModGenOpts) -> Option<(Vec<u8>, String)> {
    let tail = src.tail_fork_bytes(72);
    if !o.allow_preview || tail[6] % 6 != 1 {
        return None;
    }
    let mut psrc = Src::new(&tail[8..]);
    let dim = |s: &mut Src| -> u32 {
        match s.weighted(&[4, 2, 1]) {
            0 => s.range(1, 24) as u32,
            1 => s.range(25, 140) as u32,
            _ => s.range(141, 300) as u32,
        }
    };
    let (pw, ph) = (dim(&mut psrc), dim(&mut psrc));
    if !preview_size_ok(pw, ph) {
        return None;
    }
    ih.preview = Some((pw, ph));
    let mut pih = ih.clone();
    pih.width = pw;
    pih.height = ph;
    let mut fh = FrameHeaderSpec::simple_modular(&pih);
    fh.group_size_shift = psrc.range(0, 3) as u32;
    let group_dim = 128usize << fh.group_size_shift;
    let fg = frame_geometry(&fh, &pih);
    let geom = FrameGeom {
        group_dim,
        groups_per_row: fg.groups_per_row as usize,
        groups_per_col: (fg.num_groups / fg.groups_per_row) as usize,
        lf_groups_per_row: fg.lf_groups_per_row as usize,
        lf_groups_per_col: (fg.num_lf_groups / fg.lf_groups_per_row) as usize,
        pass_shifts: pass_shifts_of(&fh.passes),
    };
    let range_of = |d: &BitDepthSpec| -> (i64, i64) {
        match *d {
            BitDepthSpec::Float { bits, exp_bits } => {
                let mant = bits - exp_bits - 1;
                (1i64 << mant, (((1i64 << exp_bits) - 2) << mant) | ((1i64 << mant) - 1))
            }
            BitDepthSpec::Int { bits } => (0, (1i64 << bits.min(if o.narrow { 15 } else { 30 })) - 1),
        }
    };
    let n_colour = if matches!(ih.colour_encoding, ColourEncodingSpec::Enum { colour_space: 1, .. }) { 1 } else { 3 };
    let (w, h) = (pw as usize, ph as usize);
    let mut image: Vec<Chan> = vec![];
    let (lo, hi) = range_of(&ih.bit_depth);
    for _ in 0..n_colour {
        let mut ch = Chan::new(w, h);
        fill_channel(&mut psrc, &mut ch, lo, hi);
        image.push(ch);
    }
    for e in &ih.ec_info {
        let sh = e.dim_shift;
        let mut ch = Chan::with_shift(ceil_shift(w, sh), ceil_shift(h, sh), sh as i32, sh as i32);
        let (elo, ehi) = range_of(&e.bit_depth);
        fill_channel(&mut psrc, &mut ch, elo, ehi);
        image.push(ch);
    }
    let bits = ih.bit_depth.bits();
    let is_float = matches!(ih.bit_depth, BitDepthSpec::Float { .. });
    let mo = ModularOpts {
        bit_depth: bits,
        range_limit: if o.narrow { 1 << 15 } else { 1 << 31 },
        allow_transforms: true,
        allow_squeeze: bits <= 24,
        allow_rct: bits <= 24,
        allow_palette: true,
        allow_lz77: true,
        allow_multiplier: false,
        amplitude: if is_float { 1 << 20 } else { ((hi - lo) / 4).clamp(1, 1 << 24) },
    };
    let bitsout = encode_modular_frame(&mut psrc, &image, &geom, &mo);
    let sections = assemble_sections(&bitsout, toc_entry_count(&fh, &pih) as usize);
    let mut out = vec![];
    write_frame(&mut out, &fh, &pih, &sections, false, &mut psrc);
    let class = format!("preview:{}", if sections.len() == 1 { "single-section" } else { "multi-section" });
    Some((out, class))
}

pub fn gen_modular_case(src: &mut Src, o: &ModGenOpts) -> ModularCase {
    let mut classes = vec![];
    let group_size_shift = if src.chance(150) { 0 } else { src.range(0, 3) as u32 };
    let group_dim = 128usize << group_size_shift;
    let multi = src.chance(o.multi_group) && group_dim + 8 < o.max_dim;
    let (w, h) = if multi {
        match src.below(3) {
            0 => (gen_dim(src, o, true, group_dim), gen_dim(src, o, false, group_dim)),
            1 => (gen_dim(src, o, false, group_dim), gen_dim(src, o, true, group_dim)),
            _ => (gen_dim(src, o, true, group_dim), gen_dim(src, o, true, group_dim)),
        }
    } else {
        (gen_dim(src, o, false, group_dim), gen_dim(src, o, false, group_dim))
    };
    // bit depth
    // narrow mode, large magnitudes (tail seed, so that older choice sequences keep their case): depth 13..15 or
    // samples over the whole signed 16-bit range.  Stored samples still fit the declared buffers; sums such as
    // N + W - NW inside a predictor do not, and a decoder has to widen them.
    let large_sel = src.tail_fork_bytes(6)[5];
    let narrow_large = o.narrow && large_sel % 4 == 1;
    let bit_depth = if narrow_large {
        let _ = src.range(1, 12);
        BitDepthSpec::Int { bits: 13 + (large_sel as u32 / 4) % 3 }
    } else if o.narrow {
        BitDepthSpec::Int { bits: src.range(1, 12) as u32 }
    } else if o.allow_float && src.chance(24) {
        match src.below(3) {
            0 => BitDepthSpec::Float { bits: 32, exp_bits: 8 },
            1 => BitDepthSpec::Float { bits: 16, exp_bits: 5 },
            _ => BitDepthSpec::Float { bits: 24, exp_bits: 7 },
        }
    } else {
        match src.weighted(&[4, 2, 2, 2]) {
            0 => BitDepthSpec::Int { bits: 8 },
            1 => BitDepthSpec::Int { bits: src.range(1, 16) as u32 },
            2 => BitDepthSpec::Int { bits: 16 },
            _ => BitDepthSpec::Int { bits: src.range(1, 31) as u32 },
        }
    };
    let gray = src.chance(90);
    let n_colour = if gray { 1 } else { 3 };
    let n_ec = if o.allow_ec { src.weighted(&[6, 3, 1, 1]) } else { 0 };
    let mut ec_info = vec![];
    for _ in 0..n_ec {
        let ty = match src.weighted(&[4, 2, 1, 1]) {
            0 => EcTypeSpec::Alpha { associated: src.bool() },
            1 => EcTypeSpec::Depth,
            2 => EcTypeSpec::SelectionMask,
            _ => EcTypeSpec::Thermal,
        };
        let ebits = if o.narrow { BitDepthSpec::Int { bits: src.range(1, 12) as u32 } } else if src.chance(160) { bit_depth } else { BitDepthSpec::Int { bits: src.range(1, 16) as u32 } };
        let dim_shift = if src.chance(170) { 0 } else { src.range(1, 3) as u32 };
        ec_info.push(EcInfoSpec { ty, bit_depth: ebits, dim_shift, name: String::new() });
    }
    let ih = ImageHeaderSpec {
        width: w as u32,
        height: h as u32,
        orientation: if o.orientation { src.range(1, 8) as u32 } else { 1 },
        bit_depth,
        modular_16bit_buffers: o.narrow,
        ec_info: ec_info.clone(),
        xyb_encoded: false,
        colour_encoding: if gray {
            ColourEncodingSpec::Enum { colour_space: 1, white_point: WhitePointSpec::D65, primaries: PrimariesSpec::Srgb, tf: TfSpec::Srgb, intent: 1 }
        } else {
            ColourEncodingSpec::default()
        },
        ..Default::default()
    };
    let mut fh = FrameHeaderSpec::simple_modular(&ih);
    fh.group_size_shift = group_size_shift;
    if o.allow_passes {
        fh.passes = gen_passes_for_modular(src);
    }
    let fg = frame_geometry(&fh, &ih);
    let geom = FrameGeom {
        group_dim,
        groups_per_row: fg.groups_per_row as usize,
        groups_per_col: (fg.num_groups / fg.groups_per_row) as usize,
        lf_groups_per_row: fg.lf_groups_per_row as usize,
        lf_groups_per_col: (fg.num_lf_groups / fg.lf_groups_per_row) as usize,
        pass_shifts: pass_shifts_of(&fh.passes),
    };
    // sample ranges
    let bits = bit_depth.bits();
    let is_float = matches!(bit_depth, BitDepthSpec::Float { .. });
    let (lo, hi): (i64, i64) = if is_float {
        // bit patterns of finite non-negative floats with normal exponents: keep within 0..(max finite)
        match bit_depth {
            BitDepthSpec::Float { bits, exp_bits } => {
                let mant = bits - exp_bits - 1;
                (1i64 << mant, (((1i64 << exp_bits) - 2) << mant) | ((1i64 << mant) - 1))
            }
            _ => unreachable!(),
        }
    } else if narrow_large && large_sel / 16 % 2 == 1 {
        classes.push("narrow:full-i16-range".into());
        (-32768, 32767)
    } else if (o.narrow && bits > 12) || src.chance(200) {
        (0, (1i64 << bits) - 1)
    } else if o.narrow {
        // out-of-range samples that still fit the 16-bit buffers (the stage checks of narrow mode apply as usual)
        let half = 1i64 << bits;
        ((-half / 2).max(-8192), (half + half / 2 - 1).min(8191))
    } else {
        // modular samples may lie outside the nominal range
        let half = 1i64 << bits.min(30);
        (-half / 2, half + half / 2 - 1)
    };
    let mut image: Vec<Chan> = vec![];
    let colour_style_shared = src.bool();
    for c in 0..n_colour {
        let mut ch = Chan::new(w, h);
        if c > 0 && colour_style_shared && src.chance(128) {
            // correlated with the first channel
            let d = src.range_i(-2, 2);
            for i in 0..ch.data.len() {
                ch.data[i] = (image[0].data[i] as i64 + d).clamp(lo, hi) as i32;
            }
        } else {
            fill_channel(src, &mut ch, lo, hi);
        }
        image.push(ch);
    }
    for e in &ec_info {
        let s = e.dim_shift;
        let mut ch = Chan::with_shift(ceil_shift(w, s), ceil_shift(h, s), s as i32, s as i32);
        let (elo, ehi) = match e.bit_depth {
            // finite, normal, non-negative bit patterns only (sub-normals / non-finite are unspecified territory)
            BitDepthSpec::Float { bits, exp_bits } => {
                let mant = bits - exp_bits - 1;
                (1i64 << mant, (((1i64 << exp_bits) - 2) << mant) | ((1i64 << mant) - 1))
            }
            BitDepthSpec::Int { bits } => (0, (1i64 << bits.min(30)) - 1),
        };
        fill_channel(src, &mut ch, elo, ehi);
        image.push(ch);
    }
    let amplitude = if is_float { 1 << 20 } else { ((hi - lo) / 4).clamp(1, 1 << 24) };
    let mo = ModularOpts {
        bit_depth: bits,
        range_limit: if o.narrow { 1 << 15 } else { 1 << 31 },
        allow_transforms: true,
        // RCT / squeeze arithmetic on samples close to the 32-bit limits is done in wrapping
        // 32-bit arithmetic by decoders; such depths are kept out of these transforms
        allow_squeeze: bits <= 24,
        allow_rct: bits <= 24,
        allow_palette: true,
        allow_lz77: true,
        // quantising to a multiplier may move float bit patterns into the non-finite range
        allow_multiplier: !o.narrow && !is_float,
        amplitude,
    };
    let bitsout = encode_modular_frame(src, &image, &geom, &mo);
    classes.extend(bitsout.classes.iter().cloned());
    // sections
    let sections = assemble_sections(&bitsout, toc_entry_count(&fh, &ih) as usize);
    classes.push(if sections.len() == 1 { "toc:single" } else { "toc:multi" }.into());
    // preview frame (tail seed): a frame of the preview header's size between the headers and the first frame
    let mut ih = ih;
    let preview = gen_preview_frame(src, &mut ih, o);
    let mut bytes = write_codestream_start(&ih, None, src);
    if let Some((pbytes, pclass)) = preview {
        bytes.extend_from_slice(&pbytes);
        classes.push(pclass);
    }
    let header_len = bytes.len();
    let permute = o.allow_permuted_toc && src.chance(64);
    let layout = write_frame(&mut bytes, &fh, &ih, &sections, permute, src);
    if layout.permuted {
        classes.push("toc:permuted".into());
    }
    classes.push(format!("depth:{}", if is_float { "float".to_string() } else { match bits { 1..=8 => "1-8", 9..=12 => "9-12", 13..=16 => "13-16", _ => "17-31" }.to_string() }));
    classes.push(format!("channels:{}+{}", n_colour, n_ec));
    if fh.passes.num_passes > 1 {
        classes.push("multi-pass".into());
    }
    if geom.num_groups() > 1 {
        classes.push("multi-group".into());
    }
    if geom.num_lf_groups() > 1 {
        classes.push("multi-lf-group".into());
    }
    let distinct: std::collections::HashSet<i32> = bitsout.expected.iter().flat_map(|c| c.data.iter().copied()).take(100000).collect();
    let nontrivial = distinct.len() >= 2 && (classes.iter().any(|c| c.starts_with("tx:")) || classes.iter().any(|c| c.starts_with("tree:") && !c.contains("single-leaf")) || geom.num_groups() > 1);
    ModularCase { ih, fh, bytes, expected: bitsout.expected, n_colour, classes, layout, header_len, nontrivial, debug: bitsout.debug }
}

/// Hand-written regression images (deterministic, independent of the generators).
pub fn fixed_modular_case(k: u8) -> ModularCase {
    use crate::modular::transform::Transform;
    use crate::modular::tree::Tree;
    let zeros: [u8; 0] = [];
    let mut src = Src::new(&zeros);
    match k {
        // 4: 30-bit samples, root lookup table on property 9 (gradient) with Gradient leaves: the property value
        // minus the table base exceeds 32 bits (fixed defect b57b239)
        4 => {
            use crate::modular::tree::{Leaf, Node};
            let ih = ImageHeaderSpec {
                width: 2,
                height: 4,
                bit_depth: BitDepthSpec::Int { bits: 30 },
                xyb_encoded: false,
                colour_encoding: ColourEncodingSpec::Enum { colour_space: 1, white_point: WhitePointSpec::D65, primaries: PrimariesSpec::Srgb, tf: TfSpec::Srgb, intent: 1 },
                modular_16bit_buffers: false,
                ..Default::default()
            };
            let mut fh = FrameHeaderSpec::simple_modular(&ih);
            fh.group_size_shift = 0;
            let big = (1i32 << 30) - 1;
            let mut c = Chan::new(2, 4);
            // (0,0)=0, (1,0)=big, (0,1)=big, (1,1): n=big, w=big, nw=0 -> property 9 = 2^31 - 2
            c.data = vec![0, big, big, 77, 5, 6, 7, 8];
            let expected = vec![c.clone()];
            let leaf = || Box::new(Node::Leaf(Leaf { ctx: 0, predictor: 5, offset: 0, mul_log: 0, mul_bits: 0 }));
            let mut node = leaf();
            for t in [2, 0, -2, -4] {
                node = Box::new(Node::Decision { property: 9, value: t, left: node, right: leaf() });
            }
            let tree = Tree::new(*node);
            let mut coded = vec![c];
            let g = encode_fixed_global(&mut coded, &[], &Default::default(), &tree);
            let mut wr = BitWriter::new();
            write_lf_global_preamble_plain(&mut wr);
            wr.append(&g);
            let sections = vec![wr.finish()];
            let mut bytes = write_codestream_start(&ih, None, &mut src);
            let header_len = bytes.len();
            let layout = write_frame(&mut bytes, &fh, &ih, &sections, false, &mut src);
            ModularCase { ih, fh, bytes, expected, n_colour: 1, classes: vec!["fixed:gradient-table-extreme".into()], layout, header_len, nontrivial: true, debug: String::new() }
        }
        // 3: 21x1 RGB, RCT type 37 followed by the default squeeze (produces zero-height residual channels)
        3 => {
            use crate::modular::transform::*;
            let ih = ImageHeaderSpec { width: 21, height: 1, xyb_encoded: false, modular_16bit_buffers: false, ..Default::default() };
            let mut fh = FrameHeaderSpec::simple_modular(&ih);
            fh.group_size_shift = 0;
            let mut chans: Vec<Chan> = (0..3).map(|_| Chan::new(21, 1)).collect();
            for i in 0..21 {
                chans[0].data[i] = 0;
                chans[1].data[i] = if i == 2 || i >= 17 { -38 } else { -40 };
                chans[2].data[i] = -39;
            }
            let expected = chans.clone();
            let range = Range { limit: 1 << 31 };
            rct_forward(&mut chans, 0, 37, range).unwrap();
            let mut nb_meta = 0;
            let steps = default_squeeze_steps(&chans, 0);
            squeeze_forward(&mut chans, &mut nb_meta, &steps, range).unwrap();
            let chain = vec![Transform::Rct { begin_c: 0, rct_type: 37 }, Transform::Squeeze { steps, explicit: false }];
            let g = encode_fixed_global(&mut chans, &chain, &Default::default(), &Tree::single(4));
            let mut wr = BitWriter::new();
            write_lf_global_preamble_plain(&mut wr);
            wr.append(&g);
            let sections = vec![wr.finish()];
            let mut bytes = write_codestream_start(&ih, None, &mut src);
            let header_len = bytes.len();
            let layout = write_frame(&mut bytes, &fh, &ih, &sections, false, &mut src);
            ModularCase { ih, fh, bytes, expected, n_colour: 3, classes: vec!["fixed:rct37-squeeze-21x1".into()], layout, header_len, nontrivial: true, debug: String::new() }
        }
        // 2: multi-section frame with a permuted TOC (for feeding regressions, see C09/C11)
        2 => {
            let ih = ImageHeaderSpec {
                width: 5,
                height: 4,
                xyb_encoded: false,
                colour_encoding: ColourEncodingSpec::Enum { colour_space: 1, white_point: WhitePointSpec::D65, primaries: PrimariesSpec::Srgb, tf: TfSpec::Srgb, intent: 1 },
                modular_16bit_buffers: false,
                ..Default::default()
            };
            let mut fh = FrameHeaderSpec::simple_modular(&ih);
            fh.group_size_shift = 0;
            fh.passes = PassesSpec { num_passes: 3, shift: vec![0, 0], downsample: vec![], last_pass: vec![] };
            let mut c = Chan::new(5, 4);
            for i in 0..20 {
                c.data[i] = ((i * 37) % 251) as i32;
            }
            let expected = vec![c.clone()];
            let mut coded = vec![c];
            let g = encode_fixed_global(&mut coded, &[], &Default::default(), &Tree::single(5));
            let mut wr = BitWriter::new();
            write_lf_global_preamble_plain(&mut wr);
            wr.append(&g);
            // LfGlobal, LfGroup 0, HfGlobal, 3 pass groups (all but the first empty)
            let sections = vec![wr.finish(), vec![], vec![], vec![], vec![], vec![]];
            let mut bytes = write_codestream_start(&ih, None, &mut src);
            let header_len = bytes.len();
            // reversed order, prefix-coded: zero bits decode to the most frequent (large) Lehmer digit
            let layout = write_frame_with_perm(&mut bytes, &fh, &ih, &sections, Some(vec![5, 4, 3, 2, 1, 0]), &crate::entropy::CodeOpts { use_prefix: Some(true), single_cluster: true, ..Default::default() }, &mut src);
            ModularCase { ih, fh, bytes, expected, n_colour: 1, classes: vec!["fixed:permuted-toc".into(), "toc:permuted".into()], layout, header_len, nontrivial: true, debug: String::new() }
        }
        // 1: root decision chain on a previous-channel property with uniform leaves (fixed defect, see known_findings.json)
        1 => {
            use crate::modular::tree::{Leaf, Node};
            let ih = ImageHeaderSpec { width: 6, height: 3, xyb_encoded: false, modular_16bit_buffers: false, ..Default::default() };
            let mut fh = FrameHeaderSpec::simple_modular(&ih);
            fh.group_size_shift = 0;
            let mut chans: Vec<Chan> = (0..3).map(|_| Chan::new(6, 3)).collect();
            for i in 0..18 {
                chans[0].data[i] = (i % 6) as i32;
                // channel 1 strongly depends on |channel 0|: each context sees a different constant
                chans[1].data[i] = 100 * ((i % 6) as i32) + 7;
                chans[2].data[i] = 3;
            }
            let expected = chans.clone();
            let leaf = || Box::new(Node::Leaf(Leaf { ctx: 0, predictor: 0, offset: 0, mul_log: 0, mul_bits: 0 }));
            // property 16 = |value of the previous channel at this position|; thresholds 0,1,2,3
            let mut node = leaf();
            for t in [3, 2, 1, 0] {
                // values > t continue down the chain (larger thresholds), others end in a leaf
                node = Box::new(Node::Decision { property: 16, value: t, left: node, right: leaf() });
            }
            let tree = Tree::new(*node);
            let g = encode_fixed_global(&mut chans, &[], &Default::default(), &tree);
            let mut wr = BitWriter::new();
            write_lf_global_preamble_plain(&mut wr);
            wr.append(&g);
            let sections = vec![wr.finish()];
            let mut bytes = write_codestream_start(&ih, None, &mut src);
            let header_len = bytes.len();
            let layout = write_frame(&mut bytes, &fh, &ih, &sections, false, &mut src);
            ModularCase { ih, fh, bytes, expected, n_colour: 3, classes: vec!["fixed:prev-channel-table".into()], layout, header_len, nontrivial: true, debug: String::new() }
        }
        // 0: palette whose pixels all use in-range indices, one of them a *delta* entry (fixed defect 34c009c)
        _ => {
            let ih = ImageHeaderSpec {
                width: 4,
                height: 1,
                xyb_encoded: false,
                colour_encoding: ColourEncodingSpec::Enum { colour_space: 1, white_point: WhitePointSpec::D65, primaries: PrimariesSpec::Srgb, tf: TfSpec::Srgb, intent: 1 },
                modular_16bit_buffers: false,
                ..Default::default()
            };
            let mut fh = FrameHeaderSpec::simple_modular(&ih);
            fh.group_size_shift = 0;
            // palette: entry 0 = delta (+1), entry 1 = colour 10; d_pred = West
            let mut meta = Chan::with_shift(2, 1, -1, -1);
            meta.data = vec![1, 10];
            let mut index = Chan::new(4, 1);
            index.data = vec![1, 0, 0, 0];
            let mut coded = vec![meta, index];
            let chain = vec![Transform::Palette { begin_c: 0, num_c: 1, nb_colours: 2, nb_deltas: 1, d_pred: 1 }];
            let g = encode_fixed_global(&mut coded, &chain, &Default::default(), &Tree::single(0));
            let mut wr = BitWriter::new();
            write_lf_global_preamble_plain(&mut wr);
            wr.append(&g);
            let sections = vec![wr.finish()];
            let mut bytes = write_codestream_start(&ih, None, &mut src);
            let header_len = bytes.len();
            let layout = write_frame(&mut bytes, &fh, &ih, &sections, false, &mut src);
            let mut expected = Chan::new(4, 1);
            expected.data = vec![10, 11, 12, 13];
            ModularCase { ih, fh, bytes, expected: vec![expected], n_colour: 1, classes: vec!["fixed:palette-delta-in-range".into()], layout, header_len, nontrivial: true, debug: String::new() }
        }
    }
}
