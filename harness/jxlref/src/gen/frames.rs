//! Generator of multi-frame Modular codestreams (blending, crops, reference
//! slots, patches, animation) together with the reference composition.

use crate::bits::{pack_signed, BitWriter};
use crate::entropy::{CodeOpts, EntropyCode, Op};
use crate::frames::*;
use crate::gen::modular::{fill_channel, pass_shifts_of};
use crate::headers::*;
use crate::models::compositor::*;
use crate::modular::encode::*;
use crate::modular::predict::Chan;
use crate::src::Src;

pub struct MultiCase {
    pub ih: ImageHeaderSpec,
    pub headers: Vec<FrameHeaderSpec>,
    pub bytes: Vec<u8>,
    pub layouts: Vec<FrameLayout>,
    pub header_len: usize,
    /// canvas (colour + extra channels, image size) at each keyframe
    pub keyframes: Vec<Vec<Plane>>,
    pub n_colour: usize,
    pub classes: Vec<String>,
    pub nontrivial: bool,
    pub debug: String,
    /// extra-channel indices (0-based among extra channels) that, in some patch target, blend with an alpha
    /// channel of lower index which the same target also modifies (see known_findings.json, C05)
    pub patch_alpha_hazard_ecs: Vec<usize>,
    /// the frame models the compositor ran on (for debugging)
    pub models: Vec<FrameModel>,
}

#[derive(Clone, Debug)]
pub struct MultiOpts {
    pub max_dim: usize,
    pub max_frames: usize,
    pub allow_patches: bool,
    pub allow_animation: bool,
}

impl Default for MultiOpts {
    fn default() -> Self {
        MultiOpts { max_dim: 40, max_frames: 7, allow_patches: true, allow_animation: true }
    }
}

/// Patch dictionary (LfGlobal, frame flag kPatches): one entropy-coded stream with 10 contexts.
pub fn write_patches(w: &mut BitWriter, patches: &[PatchModel], num_extra: usize, src: &mut Src) {
    let mut ops = vec![Op::Lit { ctx: 0, value: patches.len() as u32 }];
    for p in patches {
        ops.push(Op::Lit { ctx: 1, value: p.ref_slot as u32 });
        ops.push(Op::Lit { ctx: 3, value: p.x0 as u32 });
        ops.push(Op::Lit { ctx: 3, value: p.y0 as u32 });
        ops.push(Op::Lit { ctx: 2, value: p.w as u32 - 1 });
        ops.push(Op::Lit { ctx: 2, value: p.h as u32 - 1 });
        ops.push(Op::Lit { ctx: 7, value: p.targets.len() as u32 - 1 });
        let mut prev: Option<(i64, i64)> = None;
        for (x, y, blends) in &p.targets {
            match prev {
                None => {
                    ops.push(Op::Lit { ctx: 4, value: *x as u32 });
                    ops.push(Op::Lit { ctx: 4, value: *y as u32 });
                }
                Some((px, py)) => {
                    ops.push(Op::Lit { ctx: 6, value: pack_signed((x - px) as i32) });
                    ops.push(Op::Lit { ctx: 6, value: pack_signed((y - py) as i32) });
                }
            }
            prev = Some((*x, *y));
            assert_eq!(blends.len(), num_extra + 1);
            for b in blends {
                ops.push(Op::Lit { ctx: 5, value: b.mode });
                if b.mode >= 4 && num_extra > 1 {
                    ops.push(Op::Lit { ctx: 8, value: b.alpha_channel as u32 });
                }
                if b.mode >= 3 {
                    ops.push(Op::Lit { ctx: 9, value: b.clamp as u32 });
                }
            }
        }
    }
    crate::hostile::perturb(&mut ops);
    let code = EntropyCode::generate(src, 10, &[&ops], &CodeOpts::default());
    code.write_header(w, src);
    code.write_stream(w, &ops, true);
}

fn gen_rule(src: &mut Src, alpha_ecs: &[usize], n_ec: usize) -> BlendingInfoSpec {
    let can_alpha = !alpha_ecs.is_empty();
    let mode = match src.weighted(&[3, 2, if can_alpha { 3 } else { 0 }, if can_alpha { 2 } else { 0 }, 2]) {
        0 => 0,
        1 => 1,
        2 => 2,
        3 => 3,
        _ => 4,
    };
    let uses_alpha = mode == 2 || mode == 3;
    BlendingInfoSpec {
        mode,
        alpha_channel: if uses_alpha && n_ec > 0 { alpha_ecs[src.below(alpha_ecs.len())] as u32 } else { 0 },
        clamp: if (uses_alpha && n_ec > 0) || mode == 4 { src.bool() } else { false },
        source: src.range(0, 3) as u32,
    }
}

pub fn gen_multi_case(src: &mut Src, o: &MultiOpts) -> MultiCase {
    let mut classes: Vec<String> = vec![];
    let w = src.range(1, o.max_dim as u64) as usize;
    let h = src.range(1, o.max_dim as u64) as usize;
    let gray = src.chance(80);
    let n_colour = if gray { 1 } else { 3 };
    let n_ec = src.weighted(&[3, 4, 2, 1]);
    let mut ec_info = vec![];
    for i in 0..n_ec {
        let ty = if i == 0 && src.chance(200) || src.chance(100) { EcTypeSpec::Alpha { associated: src.bool() } } else if src.bool() { EcTypeSpec::Depth } else { EcTypeSpec::Thermal };
        ec_info.push(EcInfoSpec { ty, bit_depth: BitDepthSpec::Int { bits: 8 }, dim_shift: 0, name: String::new() });
    }
    let alpha_ecs: Vec<usize> = ec_info.iter().enumerate().filter(|(_, e)| matches!(e.ty, EcTypeSpec::Alpha { .. })).map(|(i, _)| i).collect();
    let animation = if o.allow_animation && src.chance(128) { Some(AnimationSpec { tps_numerator: 10, tps_denominator: 1, num_loops: 0, have_timecodes: src.chance(40) }) } else { None };
    // a third of the cases declare 16-bit buffers (late decision: drawn from the tail seed); the encoder then keeps
    // every stage within the signed 16-bit range
    let narrow = src.tail_fork_bytes(4)[3] % 3 == 0;
    if narrow {
        classes.push("buffers:16bit".into());
    }
    let ih = ImageHeaderSpec {
        width: w as u32,
        height: h as u32,
        bit_depth: BitDepthSpec::Int { bits: 8 },
        modular_16bit_buffers: narrow,
        ec_info: ec_info.clone(),
        xyb_encoded: false,
        animation: animation.clone(),
        colour_encoding: if gray { ColourEncodingSpec::Enum { colour_space: 1, white_point: WhitePointSpec::D65, primaries: PrimariesSpec::Srgb, tf: TfSpec::Srgb, intent: 1 } } else { ColourEncodingSpec::default() },
        ..Default::default()
    };
    let alpha_info: Vec<Option<bool>> = ec_info.iter().map(|e| if let EcTypeSpec::Alpha { associated } = e.ty { Some(associated) } else { None }).collect();
    let img = ImageModel { w, h, n_colour, alpha_info };
    let n_frames = src.range(2, o.max_frames as u64) as usize;
    let mut headers: Vec<FrameHeaderSpec> = vec![];
    let mut models: Vec<FrameModel> = vec![];
    let mut frame_chans: Vec<Vec<Chan>> = vec![];
    // slot -> Some((w, h, is_reference_only)) of what it holds at this point of the stream
    let mut slot_dims: [Option<(usize, usize)>; 4] = [None; 4];
    let mut hazard: Vec<usize> = vec![];
    let (mut any_nonreplace, mut any_crop, mut any_source, mut any_patch, mut any_refonly) = (false, false, false, false, false);
    for fi in 0..n_frames {
        let last = fi + 1 == n_frames;
        let mut fh = FrameHeaderSpec::simple_modular(&ih);
        fh.group_size_shift = src.range(0, 3) as u32;
        let tweak = std::env::var("VERIF_FRAME_TWEAK").unwrap_or_default();
        let tw = |key: &str| tweak.split(',').any(|t| t == format!("{fi}:{key}"));
        let mut ref_only = !last && src.chance(50);
        if tw("regular") {
            ref_only = false;
        }
        fh.frame_type = if ref_only { FrameTypeSpec::ReferenceOnly } else if src.chance(40) { FrameTypeSpec::SkipProgressive } else { FrameTypeSpec::Regular };
        // crop
        let crop_kind = src.weighted(&[3, 2, 2, 1, 1]);
        let (x0, y0, fw, fhh): (i64, i64, usize, usize) = if ref_only {
            // reference-only frames used as blend sources keep the image size; they may be larger (for patches)
            if src.chance(80) { (0, 0, w + src.range(0, 6) as usize, h + src.range(0, 6) as usize) } else { (0, 0, w, h) }
        } else {
            match crop_kind {
                0 => (0, 0, w, h),
                1 => {
                    let fw = src.range(1, w as u64) as usize;
                    let fhh = src.range(1, h as u64) as usize;
                    (src.range(0, (w - fw) as u64) as i64, src.range(0, (h - fhh) as u64) as i64, fw, fhh)
                }
                2 => (src.range_i(-(w as i64), w as i64), src.range_i(-(h as i64), h as i64), src.range(1, w as u64 + 4) as usize, src.range(1, h as u64 + 4) as usize),
                3 => (-(src.range(0, 5) as i64), -(src.range(0, 5) as i64), w + 10, h + 10),
                _ => {
                    // wholly outside the canvas
                    if src.bool() { (w as i64 + src.range(0, 3) as i64, 0, src.range(1, 6) as usize, src.range(1, 6) as usize) } else { (0, -(src.range(6, 12) as i64), src.range(1, 5) as usize, src.range(1, 5) as usize) }
                }
            }
        };
        let (x0, y0, fw, fhh) = if tw("nocrop") { (0, 0, w, h) } else if tw("inside") { (0, 0, 1.min(w), 1.min(h)) } else { (x0, y0, fw, fhh) };
        let is_full = x0 == 0 && y0 == 0 && fw == w && fhh == h;
        if !is_full {
            fh.crop = Some((x0 as i32, y0 as i32, fw as u32, fhh as u32));
            any_crop = true;
        }
        if ref_only {
            fh.is_last = false;
            fh.save_as_reference = src.range(0, 3) as u32;
            fh.save_before_ct = true;
            any_refonly = true;
        } else {
            fh.blending_info = gen_rule(src, &alpha_ecs, n_ec);
            fh.ec_blending_info = (0..n_ec).map(|_| gen_rule(src, &alpha_ecs, n_ec)).collect();
            if fh.covers_canvas(&ih) {
                let main_replace = fh.blending_info.mode == 0;
                for b in &mut fh.ec_blending_info {
                    if main_replace && b.mode != 0 {
                        *b = BlendingInfoSpec { source: b.source, ..Default::default() };
                    } else if !main_replace && b.mode == 0 {
                        b.mode = 1;
                    }
                }
            }
            if fh.resets_canvas(&ih) {
                fh.blending_info.source = 0;
                for b in &mut fh.ec_blending_info {
                    b.source = 0;
                }
            }
            fh.is_last = last;
            if let Some(a) = &animation {
                fh.duration = if src.chance(150) { src.range(1, 9) as u32 } else { 0 };
                if a.have_timecodes {
                    fh.timecode = src.u32();
                }
            }
            if !last {
                fh.save_as_reference = src.range(0, 3) as u32;
            }
            if fh.save_before_ct_signalled(&ih) {
                // what exactly is stored for a *cropped* frame saved before the colour transform (frame
                // coordinates vs canvas coordinates) is not something I can pin down from the definition:
                // cropped normal frames are always saved after blending
                fh.save_before_ct = fh.crop.is_none() && src.bool();
            }
            if fh.blending_info.mode != 0 || fh.ec_blending_info.iter().any(|b| b.mode != 0) {
                any_nonreplace = true;
            }
            if fh.blending_info.source != 0 || fh.ec_blending_info.iter().any(|b| b.source != 0) {
                any_source = true;
            }
        }
        // content
        let mut chans: Vec<Chan> = vec![];
        for _ in 0..n_colour + n_ec {
            let mut c = Chan::new(fw, fhh);
            let (lo, hi) = if src.chance(60) { (-40, 300) } else { (0, 255) };
            fill_channel(src, &mut c, lo, hi);
            chans.push(c);
        }
        // patches from reference slots that currently hold something
        let mut patches: Vec<PatchModel> = vec![];
        if o.allow_patches && src.chance(70) && fw * fhh >= 16 {
            let avail: Vec<usize> = (0..4).filter(|&s| slot_dims[s].is_some()).collect();
            if !avail.is_empty() {
                let np = src.range(1, 3.min((fw * fhh / 16) as u64).max(1)) as usize;
                for _ in 0..np {
                    let slot = avail[src.below(avail.len())];
                    let (sw, sh) = slot_dims[slot].unwrap();
                    let pw = src.range(1, sw.min(fw).min(8) as u64) as usize;
                    let ph = src.range(1, sh.min(fhh).min(8) as u64) as usize;
                    let px0 = src.range(0, (sw - pw) as u64) as usize;
                    let py0 = src.range(0, (sh - ph) as u64) as usize;
                    let nt = src.range(1, 3) as usize;
                    let mut targets = vec![];
                    for _ in 0..nt {
                        let tx = src.range(0, (fw - pw) as u64) as i64;
                        let ty = src.range(0, (fhh - ph) as u64) as i64;
                        let mut blends = vec![];
                        for _ in 0..n_ec + 1 {
                            let can_alpha = !alpha_ecs.is_empty();
                            let mode = src.weighted(&[1, 3, 2, 2, if can_alpha { 2 } else { 0 }, if can_alpha { 2 } else { 0 }, if can_alpha { 2 } else { 0 }, if can_alpha { 2 } else { 0 }]) as u32;
                            // with a single extra channel the alpha index is not signalled and means channel 0
                            let alpha_channel = if mode >= 4 { if n_ec > 1 { alpha_ecs[src.below(alpha_ecs.len())] } else { alpha_ecs[0] } } else { 0 };
                            blends.push(PatchBlend { mode, alpha_channel, clamp: if mode >= 3 { src.bool() } else { false } });
                        }
                        // Recorded finding (known_findings.json, C05): an extra channel that alpha-blends against an
                        // alpha channel of lower index which the same target also modifies.  Excluded here by
                        // construction (counted); the hand-made fixed case keeps reporting it.
                        for j in 1..blends.len() {
                            let (a, m) = (blends[j].alpha_channel, blends[j].mode);
                            if m >= 4 && a < j - 1 && blends[a + 1].mode != 0 {
                                blends[j] = PatchBlend { mode: 2, alpha_channel: 0, clamp: false };
                                if !classes.contains(&"excluded:patch-alpha-hazard".to_string()) {
                                    classes.push("excluded:patch-alpha-hazard".into());
                                }
                            }
                        }
                        targets.push((tx, ty, blends));
                    }
                    patches.push(PatchModel { ref_slot: slot, x0: px0, y0: py0, w: pw, h: ph, targets });
                }
            }
        }
        for p in &patches {
            for t in &p.targets {
                for (j, b) in t.2.iter().enumerate().skip(1) {
                    let ec = j - 1;
                    if b.mode >= 4 && b.alpha_channel < ec && t.2[b.alpha_channel + 1].mode != 0 && !hazard.contains(&ec) {
                        hazard.push(ec);
                    }
                }
            }
        }
        if !patches.is_empty() {
            fh.flags |= FLAG_PATCHES;
            any_patch = true;
            if n_ec > 1 && alpha_ecs.len() < 2 && patches.iter().any(|p| p.targets.iter().any(|t| t.2.iter().any(|b| b.mode >= 4))) {
                classes.push("patch:alpha-index-signalled-with-one-alpha-channel".into());
            }
        }
        // model
        let planes: Vec<Plane> = chans.iter().map(|c| Plane { w: c.w, h: c.h, data: c.data.iter().map(|&v| v as f32 / 255.0).collect() }).collect();
        let mut rules: Vec<BlendRule> = vec![];
        let mk = |b: &BlendingInfoSpec| BlendRule { mode: b.mode, alpha_channel: b.alpha_channel as usize, clamp: b.clamp, source: b.source as usize };
        for _ in 0..n_colour {
            rules.push(mk(&fh.blending_info));
        }
        for b in &fh.ec_blending_info {
            rules.push(mk(b));
        }
        if ref_only {
            rules = (0..n_colour + n_ec).map(|_| BlendRule { mode: 0, alpha_channel: 0, clamp: false, source: 0 }).collect();
        }
        let can_reference = fh.can_reference();
        models.push(FrameModel { reference_only: ref_only, x0, y0, w: fw, h: fhh, planes, rules, is_keyframe: fh.is_keyframe(), can_reference, save_as_reference: fh.save_as_reference as usize, patches: patches.clone() });
        if ref_only {
            slot_dims[fh.save_as_reference as usize] = Some((fw, fhh));
        } else if can_reference {
            // patches may only use frames saved before the colour transform
            slot_dims[fh.save_as_reference as usize] = if fh.save_before_ct { Some((w.min(fw), h.min(fhh))) } else { None };
        }
        headers.push(fh);
        frame_chans.push(chans);
    }
    // a reference-only frame larger than the canvas may only serve patches: later blend sources must not name it.
    // (slots hold canvas-sized images after any normal frame; enforce by re-checking sources)
    {
        let mut holder: [Option<bool>; 4] = [None; 4]; // Some(true) = oversized reference-only image
        for (fi, fh) in headers.iter_mut().enumerate() {
            if fh.frame_type == FrameTypeSpec::ReferenceOnly {
                let (fw, fhh) = (models[fi].w, models[fi].h);
                holder[fh.save_as_reference as usize] = Some(fw != w || fhh != h);
            } else {
                let mut fix = |b: &mut BlendingInfoSpec| {
                    if holder[b.source as usize] == Some(true) {
                        // pick a slot that is not oversized
                        b.source = (0..4).find(|&s| holder[s] != Some(true)).unwrap_or(0) as u32;
                    }
                };
                if !fh.resets_canvas(&ih) {
                    fix(&mut fh.blending_info);
                    for b in &mut fh.ec_blending_info {
                        fix(b);
                    }
                }
                let mk = |b: &BlendingInfoSpec| BlendRule { mode: b.mode, alpha_channel: b.alpha_channel as usize, clamp: b.clamp, source: b.source as usize };
                let mut rules = vec![];
                for _ in 0..n_colour {
                    rules.push(mk(&fh.blending_info));
                }
                for b in &fh.ec_blending_info {
                    rules.push(mk(b));
                }
                models[fi].rules = rules;
                if fh.can_reference() {
                    holder[fh.save_as_reference as usize] = Some(false);
                }
            }
        }
        if holder.iter().all(|h| *h == Some(true)) {
            // every slot oversized: extremely unlikely; make the case trivial rather than ambiguous
        }
    }
    // encode
    let mut bytes = write_codestream_start(&ih, None, src);
    let header_len = bytes.len();
    let mut layouts = vec![];
    let mut debug = String::new();
    for (fi, fh) in headers.iter().enumerate() {
        let fg = frame_geometry(fh, &ih);
        let geom = FrameGeom {
            group_dim: fg.group_dim as usize,
            groups_per_row: fg.groups_per_row as usize,
            groups_per_col: (fg.num_groups / fg.groups_per_row) as usize,
            lf_groups_per_row: fg.lf_groups_per_row as usize,
            lf_groups_per_col: (fg.num_lf_groups / fg.lf_groups_per_row) as usize,
            pass_shifts: pass_shifts_of(&fh.passes),
        };
        let mo = ModularOpts { bit_depth: 8, range_limit: if narrow { 1 << 15 } else { 1 << 31 }, allow_transforms: true, allow_squeeze: true, allow_rct: true, allow_palette: true, allow_lz77: true, allow_multiplier: false, amplitude: 64 };
        let mut mo = mo;
        if std::env::var("VERIF_NOTX_FRAME").ok().and_then(|v| v.parse::<usize>().ok()) == Some(fi) {
            mo.allow_rct = std::env::var("VERIF_KEEP_RCT").is_ok();
            mo.allow_squeeze = std::env::var("VERIF_KEEP_SQ").is_ok();
        }
        let bits = encode_modular_frame(src, &frame_chans[fi], &geom, &mo);
        let mut wr = BitWriter::new();
        if fh.flags & FLAG_PATCHES != 0 {
            write_patches(&mut wr, &models[fi].patches, n_ec, src);
        }
        write_lf_global_preamble_plain(&mut wr);
        wr.append(&bits.global);
        let n_entries = toc_entry_count(fh, &ih) as usize;
        let mut sections: Vec<Vec<u8>> = vec![];
        if n_entries == 1 {
            wr.append(&bits.lf_groups[0]);
            wr.append(&bits.pass_groups[0][0]);
            sections.push(wr.finish());
        } else {
            sections.push(wr.finish());
            for lg in &bits.lf_groups {
                sections.push(lg.clone().finish());
            }
            sections.push(vec![]);
            for p in &bits.pass_groups {
                for g in p {
                    sections.push(g.clone().finish());
                }
            }
        }
        let lay = write_frame(&mut bytes, fh, &ih, &sections, src.chance(40), src);
        layouts.push(lay);
        debug.push_str(&format!("  modular: {}", bits.debug.replace('\n', "\n  ")));
        debug.push_str(&format!("frame {fi}: {:?} crop={:?} blend={:?} ec_blend={:?} dur={} last={} save={} sbct={} patches={:?}\n", fh.frame_type, fh.crop, fh.blending_info, fh.ec_blending_info, fh.duration, fh.is_last, fh.save_as_reference, fh.save_before_ct, models[fi].patches));
    }
    let keyframes = compose(&img, &models);
    classes.push(format!("frames:{}", n_frames));
    classes.push(format!("keyframes:{}", keyframes.len().min(4)));
    if any_nonreplace { classes.push("blend:non-replace".into()); }
    if any_crop { classes.push("crop".into()); }
    if any_source { classes.push("source!=0".into()); }
    if any_patch { classes.push("patches".into()); }
    if any_refonly { classes.push("reference-only".into()); }
    if animation.is_some() { classes.push("animation".into()); }
    for fh in &headers {
        if fh.frame_type.is_normal() {
            classes.push(format!("mode:{}", fh.blending_info.mode));
        }
    }
    if !alpha_ecs.is_empty() { classes.push("has-alpha".into()); }
    let nontrivial = n_frames >= 2 && (any_nonreplace || any_crop || any_source || any_patch);
    if !hazard.is_empty() {
        classes.push("patch:ec-blends-with-alpha-modified-by-same-target".into());
    }
    MultiCase { ih, headers, bytes, layouts, header_len, keyframes, n_colour, classes, nontrivial, debug, patch_alpha_hazard_ecs: hazard, models }
}

/// Hand-made regression / known-finding cases.
pub fn fixed_multi_case(k: u8) -> MultiCase {
    let zeros: [u8; 0] = [];
    let mut src = Src::new(&zeros);
    if k >= 6 {
        return fixed_sequence(k);
    }
    if k >= 2 {
        return fixed_refonly_transformed(k);
    }
    // gray + alpha (ec0) + depth (ec1); frame 0: reference-only 4x4; frame 1: last, Replace, with one 1x1 patch
    // whose entries are [colour: None, ec0 (alpha): Replace, ec1: BlendAbove using alpha 0]
    let (w, h) = (4usize, 4usize);
    let ec_info = vec![
        EcInfoSpec { ty: EcTypeSpec::Alpha { associated: false }, bit_depth: BitDepthSpec::Int { bits: 8 }, dim_shift: 0, name: String::new() },
        EcInfoSpec { ty: EcTypeSpec::Depth, bit_depth: BitDepthSpec::Int { bits: 8 }, dim_shift: 0, name: String::new() },
    ];
    let ih = ImageHeaderSpec {
        width: 4,
        height: 4,
        bit_depth: BitDepthSpec::Int { bits: 8 },
        modular_16bit_buffers: false,
        ec_info,
        xyb_encoded: false,
        colour_encoding: ColourEncodingSpec::Enum { colour_space: 1, white_point: WhitePointSpec::D65, primaries: PrimariesSpec::Srgb, tf: TfSpec::Srgb, intent: 1 },
        ..Default::default()
    };
    let img = ImageModel { w, h, n_colour: 1, alpha_info: vec![Some(false), None] };
    let mk_chans = |vals: [[i32; 4]; 3]| -> Vec<Chan> {
        vals.iter()
            .map(|v| {
                let mut c = Chan::new(4, 4);
                for i in 0..16 {
                    c.data[i] = v[i % 4] + (i / 4) as i32;
                }
                c
            })
            .collect()
    };
    let chans0 = mk_chans([[10, 20, 30, 40], [255, 128, 64, 0], [200, 150, 100, 50]]);
    let chans1 = mk_chans([[1, 2, 3, 4], [51, 51, 51, 51], [90, 91, 92, 93]]);
    let mut fh0 = FrameHeaderSpec::simple_modular(&ih);
    fh0.frame_type = FrameTypeSpec::ReferenceOnly;
    fh0.is_last = false;
    fh0.save_as_reference = 1;
    fh0.save_before_ct = true;
    fh0.ec_blending_info = vec![BlendingInfoSpec::default(); 2];
    let mut fh1 = FrameHeaderSpec::simple_modular(&ih);
    fh1.flags |= FLAG_PATCHES;
    fh1.ec_blending_info = vec![BlendingInfoSpec::default(); 2];
    let patch = PatchModel {
        ref_slot: 1,
        x0: 1,
        y0: 0,
        w: 1,
        h: 1,
        // k = 0: the alpha channel itself is replaced by the same target (known finding);
        // k = 1: it is left alone (regression for the alpha-index parsing fix 1199b52)
        targets: vec![(1, 1, vec![PatchBlend { mode: 0, alpha_channel: 0, clamp: false }, PatchBlend { mode: if k == 0 { 1 } else { 0 }, alpha_channel: 0, clamp: false }, PatchBlend { mode: 4, alpha_channel: 0, clamp: false }])],
    };
    let to_planes = |c: &[Chan]| -> Vec<Plane> { c.iter().map(|c| Plane { w: c.w, h: c.h, data: c.data.iter().map(|&v| v as f32 / 255.0).collect() }).collect() };
    let replace = || BlendRule { mode: 0, alpha_channel: 0, clamp: false, source: 0 };
    let models = vec![
        FrameModel { reference_only: true, x0: 0, y0: 0, w, h, planes: to_planes(&chans0), rules: vec![replace(), replace(), replace()], is_keyframe: false, can_reference: true, save_as_reference: 1, patches: vec![] },
        FrameModel { reference_only: false, x0: 0, y0: 0, w, h, planes: to_planes(&chans1), rules: vec![replace(), replace(), replace()], is_keyframe: true, can_reference: false, save_as_reference: 0, patches: vec![patch.clone()] },
    ];
    let mut bytes = write_codestream_start(&ih, None, &mut src);
    let header_len = bytes.len();
    let mut layouts = vec![];
    let geom = FrameGeom { group_dim: 256, groups_per_row: 1, groups_per_col: 1, lf_groups_per_row: 1, lf_groups_per_col: 1, pass_shifts: vec![(0, 3)] };
    let mo = ModularOpts { bit_depth: 8, range_limit: 1 << 31, allow_transforms: false, allow_squeeze: false, allow_rct: false, allow_palette: false, allow_lz77: false, allow_multiplier: false, amplitude: 64 };
    for (fh, chans, patches) in [(&fh0, &chans0, vec![]), (&fh1, &chans1, vec![patch])] {
        let bits = encode_modular_frame(&mut src, chans, &geom, &mo);
        let mut wr = BitWriter::new();
        if !patches.is_empty() {
            write_patches(&mut wr, &patches, 2, &mut src);
        }
        write_lf_global_preamble_plain(&mut wr);
        wr.append(&bits.global);
        wr.append(&bits.lf_groups[0]);
        wr.append(&bits.pass_groups[0][0]);
        layouts.push(write_frame(&mut bytes, fh, &ih, &[wr.finish()], false, &mut src));
    }
    let keyframes = compose(&img, &models);
    MultiCase { ih, headers: vec![fh0, fh1], bytes, layouts, header_len, keyframes, n_colour: 1, classes: vec![if k == 0 { "fixed:patch-alpha-hazard".into() } else { "fixed:patch-alpha-index".to_string() }], nontrivial: true, debug: String::new(), patch_alpha_hazard_ecs: if k == 0 { vec![1] } else { vec![] }, models }
}

/// k = 2: a reference-only frame coded with RCT + default squeeze, used as the Add source of the last frame.
/// k = 3: the same without the RCT; k = 4: without squeeze; k = 5: reference frame is Regular (duration 0) instead.
fn fixed_refonly_transformed(k: u8) -> MultiCase {
    use crate::modular::transform::*;
    use crate::modular::tree::Tree;
    let zeros: [u8; 0] = [];
    let mut src = Src::new(&zeros);
    let (w, h) = (21usize, 1usize);
    let ih = ImageHeaderSpec { width: 21, height: 1, bit_depth: BitDepthSpec::Int { bits: 8 }, modular_16bit_buffers: false, xyb_encoded: false, ..Default::default() };
    let img = ImageModel { w, h, n_colour: 3, alpha_info: vec![] };
    let mut a: Vec<Chan> = (0..3).map(|_| Chan::new(21, 1)).collect();
    let mut b: Vec<Chan> = (0..3).map(|_| Chan::new(21, 1)).collect();
    for i in 0..21 {
        a[0].data[i] = 0;
        a[1].data[i] = if i == 2 || i >= 17 { -38 } else { -40 };
        a[2].data[i] = -39;
        b[0].data[i] = 10 + i as i32;
        b[1].data[i] = 100;
        b[2].data[i] = 200 - i as i32;
    }
    let to_planes = |c: &[Chan]| -> Vec<Plane> { c.iter().map(|c| Plane { w: c.w, h: c.h, data: c.data.iter().map(|&v| v as f32 / 255.0).collect() }).collect() };
    let rule = |mode: u32, source: usize| BlendRule { mode, alpha_channel: 0, clamp: false, source };
    let mut fh0 = FrameHeaderSpec::simple_modular(&ih);
    fh0.group_size_shift = 0;
    fh0.is_last = false;
    fh0.save_as_reference = 1;
    if k == 5 {
        fh0.frame_type = FrameTypeSpec::Regular;
        fh0.save_before_ct = false;
    } else {
        fh0.frame_type = FrameTypeSpec::ReferenceOnly;
        fh0.save_before_ct = true;
    }
    let mut fh1 = FrameHeaderSpec::simple_modular(&ih);
    fh1.group_size_shift = 0;
    fh1.blending_info = BlendingInfoSpec { mode: 1, alpha_channel: 0, clamp: false, source: 1 };
    let models = vec![
        FrameModel { reference_only: k != 5, x0: 0, y0: 0, w, h, planes: to_planes(&a), rules: vec![rule(0, 0); 3], is_keyframe: false, can_reference: true, save_as_reference: 1, patches: vec![] },
        FrameModel { reference_only: false, x0: 0, y0: 0, w, h, planes: to_planes(&b), rules: vec![rule(1, 1); 3], is_keyframe: true, can_reference: false, save_as_reference: 0, patches: vec![] },
    ];
    let range = Range { limit: 1 << 31 };
    let mut coded = a.clone();
    let mut chain = vec![];
    if k != 3 {
        rct_forward(&mut coded, 0, 37, range).unwrap();
        chain.push(Transform::Rct { begin_c: 0, rct_type: 37 });
    }
    if k != 4 {
        let mut nb_meta = 0;
        let steps = default_squeeze_steps(&coded, 0);
        squeeze_forward(&mut coded, &mut nb_meta, &steps, range).unwrap();
        chain.push(Transform::Squeeze { steps, explicit: false });
    }
    let mut bytes = write_codestream_start(&ih, None, &mut src);
    let header_len = bytes.len();
    let mut layouts = vec![];
    for (fh, g) in [(&fh0, encode_fixed_global(&mut coded, &chain, &Default::default(), &Tree::single(4))), (&fh1, encode_fixed_global(&mut b.clone(), &[], &Default::default(), &Tree::single(5)))] {
        let mut wr = BitWriter::new();
        write_lf_global_preamble_plain(&mut wr);
        wr.append(&g);
        layouts.push(write_frame(&mut bytes, fh, &ih, &[wr.finish()], false, &mut src));
    }
    let keyframes = compose(&img, &models);
    MultiCase { ih, headers: vec![fh0, fh1], bytes, layouts, header_len, keyframes, n_colour: 3, classes: vec![format!("fixed:refonly-transformed-{k}")], nontrivial: true, debug: String::new(), patch_alpha_hazard_ecs: vec![], models }
}

/// k = 6: F0 regular wholly outside the canvas (slot 0); F1 reference-only (slot 1); F2, F3 regular Replace
/// (slot 0); F4 Add with source slot 1, duration 1 (keyframe 0); F5 last.  k = 7: without F0.  k = 8: without F2/F3.
fn fixed_sequence(k: u8) -> MultiCase {
    use crate::modular::tree::Tree;
    let zeros: [u8; 0] = [];
    let mut src = Src::new(&zeros);
    let (w, h) = (21usize, 1usize);
    let ih = ImageHeaderSpec {
        width: 21,
        height: 1,
        bit_depth: BitDepthSpec::Int { bits: 8 },
        modular_16bit_buffers: false,
        xyb_encoded: false,
        animation: Some(AnimationSpec { tps_numerator: 10, tps_denominator: 1, num_loops: 0, have_timecodes: false }),
        ..Default::default()
    };
    let img = ImageModel { w, h, n_colour: 3, alpha_info: vec![] };
    let mk = |fw: usize, fhh: usize, base: [i32; 3]| -> Vec<Chan> {
        (0..3)
            .map(|c| {
                let mut ch = Chan::new(fw, fhh);
                for i in 0..fw * fhh {
                    ch.data[i] = base[c] + (i as i32 % 3) * (c as i32);
                }
                ch
            })
            .collect()
    };
    let to_planes = |c: &[Chan]| -> Vec<Plane> { c.iter().map(|c| Plane { w: c.w, h: c.h, data: c.data.iter().map(|&v| v as f32 / 255.0).collect() }).collect() };
    let rule = |mode: u32, source: usize| BlendRule { mode, alpha_channel: 0, clamp: false, source };
    struct F {
        fh: FrameHeaderSpec,
        chans: Vec<Chan>,
        model: FrameModel,
    }
    let mut frames: Vec<F> = vec![];
    let mut push = |ty: FrameTypeSpec, crop: Option<(i32, i32, u32, u32)>, mode: u32, source: u32, dur: u32, last: bool, save: u32, base: [i32; 3]| {
        let mut fh = FrameHeaderSpec::simple_modular(&ih);
        fh.group_size_shift = 0;
        fh.frame_type = ty;
        fh.crop = crop;
        fh.blending_info = BlendingInfoSpec { mode, alpha_channel: 0, clamp: false, source };
        fh.duration = dur;
        fh.is_last = last;
        fh.save_as_reference = save;
        fh.save_before_ct = ty == FrameTypeSpec::ReferenceOnly;
        let (x0, y0, fw, fhh) = crop.map(|c| (c.0 as i64, c.1 as i64, c.2 as usize, c.3 as usize)).unwrap_or((0, 0, w, h));
        let chans = mk(fw, fhh, base);
        let ro = ty == FrameTypeSpec::ReferenceOnly;
        if fh.resets_canvas(&ih) {
            fh.blending_info.source = 0;
        }
        let model = FrameModel { reference_only: ro, x0, y0, w: fw, h: fhh, planes: to_planes(&chans), rules: vec![rule(if ro { 0 } else { mode }, if ro { 0 } else { fh.blending_info.source as usize }); 3], is_keyframe: fh.is_keyframe(), can_reference: fh.can_reference(), save_as_reference: save as usize, patches: vec![] };
        frames.push(F { fh, chans, model });
    };
    if k != 7 && k != 10 {
        push(FrameTypeSpec::Regular, Some((-21, -1, 1, 4)), 0, 0, 0, false, 0, [88, 60, 70]);
    }
    push(FrameTypeSpec::ReferenceOnly, None, 0, 0, 0, false, 1, [0, -40, -39]);
    if k != 8 && k != 11 {
        push(FrameTypeSpec::Regular, None, 0, 0, 0, false, 0, [65, 66, 67]);
        push(FrameTypeSpec::Regular, None, 0, 0, 0, false, 0, [5, 6, 7]);
    }
    push(FrameTypeSpec::Regular, None, 1, 1, 1, false, 0, [0, 10, 20]);
    push(FrameTypeSpec::Regular, None, 0, 0, 0, true, 0, [255, 76, 180]);
    let mut bytes = write_codestream_start(&ih, None, &mut src);
    let header_len = bytes.len();
    let mut layouts = vec![];
    for (fi, f) in frames.iter().enumerate() {
        let mut coded = f.chans.clone();
        let mut chain = vec![];
        if k >= 9 && f.fh.frame_type == FrameTypeSpec::ReferenceOnly {
            use crate::modular::transform::*;
            let range = Range { limit: 1 << 31 };
            rct_forward(&mut coded, 0, 37, range).unwrap();
            chain.push(Transform::Rct { begin_c: 0, rct_type: 37 });
            let mut nb_meta = 0;
            let steps = default_squeeze_steps(&coded, 0);
            squeeze_forward(&mut coded, &mut nb_meta, &steps, range).unwrap();
            chain.push(Transform::Squeeze { steps, explicit: false });
        }
        let _ = fi;
        let g = encode_fixed_global(&mut coded, &chain, &Default::default(), &Tree::single(5));
        let mut wr = BitWriter::new();
        write_lf_global_preamble_plain(&mut wr);
        wr.append(&g);
        layouts.push(write_frame(&mut bytes, &f.fh, &ih, &[wr.finish()], false, &mut src));
    }
    let models: Vec<FrameModel> = frames.iter().map(|f| f.model.clone()).collect();
    let keyframes = compose(&img, &models);
    MultiCase { ih, headers: frames.iter().map(|f| f.fh.clone()).collect(), bytes, layouts, header_len, keyframes, n_colour: 3, classes: vec![format!("fixed:sequence-{k}")], nontrivial: true, debug: String::new(), patch_alpha_hazard_ecs: vec![], models }
}
