//! Generators for image headers and frame headers over the whole conditional
//! layout.  Every spec produced is *valid* (satisfies the constraints the
//! format places on field values); fields that are not signalled for a given
//! combination are forced to the value the format defines as their default, so
//! the spec is exactly what a decoder must report.

use crate::headers::*;
use crate::src::Src;

/// Arbitrary finite binary16 bit pattern.
pub fn gen_f16(src: &mut Src) -> u16 {
    loop {
        let v = match src.weighted(&[3, 1, 1, 1]) {
            0 => src.u16(),
            1 => src.pick(&[0u16, 0x8000, 0x0001, 0x03ff, 0x0400, 0x7bff, 0xfbff, 0x3c00, 0xbc00]),
            2 => src.range(0, 0x3ff) as u16 | if src.bool() { 0x8000 } else { 0 }, // subnormals
            _ => 0x3c00u16.wrapping_add(src.range(0, 64) as u16),
        };
        if (v >> 10) & 0x1f != 0x1f {
            return v;
        }
        if src.exhausted() {
            return 0;
        }
    }
}

/// Positive, finite, non-zero binary16 pattern.
fn gen_f16_pos(src: &mut Src) -> u16 {
    let v = gen_f16(src) & 0x7fff;
    if v == 0 {
        0x3c00
    } else {
        v
    }
}

pub fn gen_dim(src: &mut Src) -> u32 {
    match src.weighted(&[4, 3, 2, 1, 1, 1]) {
        0 => src.range(1, 64) as u32,
        1 => 8 * src.range(1, 32) as u32,
        2 => src.range(1, 8192) as u32,
        3 => src.range(1, 1 << 18) as u32,
        4 => src.range(1, 1 << 30) as u32,
        _ => src.pick(&[1u32, 256, 257, 512, 513, 8192, 8193, 262144, 262145, 1 << 30]),
    }
}

/// (width, height) with a bias towards the fixed aspect ratios.
pub fn gen_size(src: &mut Src, max: u32) -> (u32, u32) {
    let h = gen_dim(src).min(max);
    if src.chance(128) {
        let r = src.range(1, 7) as u32;
        let w = ratio_width(r, h);
        if w >= 1 && w <= max {
            return (w, h);
        }
    }
    (gen_dim(src).min(max), h)
}

pub fn gen_name(src: &mut Src, max: usize) -> String {
    let n = match src.weighted(&[4, 3, 1, 1]) {
        0 => 0,
        1 => src.range(1, 15) as usize,
        2 => src.range(16, 47) as usize,
        _ => src.range(48, max as u64) as usize,
    };
    let mut s = String::new();
    while s.len() < n {
        let left = n - s.len();
        let c = match src.weighted(&[6, 1, 1, 1]) {
            0 => (b'a' + (src.byte() % 26)) as char,
            1 if left >= 2 => 'é',
            2 if left >= 3 => '画',
            3 if left >= 4 => '🙂',
            _ => '_',
        };
        s.push(c);
    }
    s
}

pub fn gen_bit_depth(src: &mut Src) -> BitDepthSpec {
    if src.chance(64) {
        // float: exp_bits 2..=8, mantissa = bits - exp - 1 in 2..=23
        let exp_bits = src.range(2, 8) as u32;
        let mant = src.range(2, 23) as u32;
        let bits = (exp_bits + mant + 1).min(32);
        match src.below(4) {
            0 => BitDepthSpec::Float { bits: 32, exp_bits: 8 },
            1 => BitDepthSpec::Float { bits: 16, exp_bits: 5 },
            _ => BitDepthSpec::Float { bits, exp_bits },
        }
    } else {
        match src.weighted(&[3, 1, 1, 1, 3]) {
            0 => BitDepthSpec::Int { bits: 8 },
            1 => BitDepthSpec::Int { bits: 10 },
            2 => BitDepthSpec::Int { bits: 12 },
            3 => BitDepthSpec::Int { bits: 16 },
            _ => BitDepthSpec::Int { bits: src.range(1, 31) as u32 },
        }
    }
}

pub fn gen_xy(src: &mut Src) -> Xy {
    let lim = (xy_max_packed() / 2) as i64; // |v| <= lim always packs
    let mut one = |src: &mut Src| -> i32 {
        match src.weighted(&[3, 2, 1, 1]) {
            0 => src.range_i(0, 1_000_000) as i32,
            1 => src.range_i(-lim, lim) as i32,
            2 => src.pick(&[0i32, 1, -1, 262143, 262144, -262144, 524287, 524288, 1048575, 1048576]),
            _ => {
                if src.bool() {
                    lim as i32
                } else {
                    -(lim as i32)
                }
            }
        }
    };
    Xy { x: one(src), y: one(src) }
}

pub fn gen_colour_encoding(src: &mut Src, allow_icc: bool) -> ColourEncodingSpec {
    if src.chance(64) {
        return ColourEncodingSpec::default();
    }
    if allow_icc && src.chance(48) {
        return ColourEncodingSpec::Icc { colour_space: src.pick(&[0u32, 1, 2, 3]) };
    }
    // colour space XYB in the header's ColourEncoding is excluded (DESIGN 3.4: the
    // definition and libjxl disagree on whether tf is signalled there).
    let colour_space = src.pick(&[0u32, 0, 1, 3]);
    let white_point = match src.weighted(&[3, 2, 1, 1]) {
        0 => WhitePointSpec::D65,
        1 => WhitePointSpec::Custom(gen_xy(src)),
        2 => WhitePointSpec::E,
        _ => WhitePointSpec::Dci,
    };
    let primaries = if colour_space == 1 {
        PrimariesSpec::Srgb
    } else {
        match src.weighted(&[3, 2, 1, 1]) {
            0 => PrimariesSpec::Srgb,
            1 => PrimariesSpec::Custom { r: gen_xy(src), g: gen_xy(src), b: gen_xy(src) },
            2 => PrimariesSpec::Bt2100,
            _ => PrimariesSpec::P3,
        }
    };
    let tf = match src.weighted(&[2, 2, 1, 1, 1, 1, 1, 1]) {
        0 => TfSpec::Srgb,
        1 => TfSpec::Gamma(match src.below(3) {
            0 => src.range(1, (1 << 24) - 1) as u32,
            1 => src.pick(&[1u32, 4545455, 10_000_000, (1 << 24) - 1, 3333333]),
            _ => src.range(1_000_000, 10_000_000) as u32,
        }),
        2 => TfSpec::Bt709,
        3 => TfSpec::Unknown,
        4 => TfSpec::Linear,
        5 => TfSpec::Pq,
        6 => TfSpec::Dci,
        _ => TfSpec::Hlg,
    };
    ColourEncodingSpec::Enum { colour_space, white_point, primaries, tf, intent: src.range(0, 3) as u32 }
}

pub fn gen_extensions(src: &mut Src) -> ExtensionsSpec {
    if !src.chance(40) {
        return ExtensionsSpec::default();
    }
    let n = src.range(1, 3) as usize;
    let mut items: Vec<(u32, u32)> = vec![];
    for _ in 0..n {
        let idx = match src.below(3) {
            0 => src.range(0, 7) as u32,
            1 => src.range(0, 63) as u32,
            _ => 63,
        };
        if items.iter().any(|i| i.0 == idx) {
            continue;
        }
        let len = match src.below(3) {
            0 => 0,
            1 => src.range(1, 40) as u32,
            _ => src.range(1, 600) as u32,
        };
        items.push((idx, len));
    }
    ExtensionsSpec { items }
}

fn f16v(bits: u16) -> f32 {
    crate::bits::f16_to_f32(bits)
}

pub fn gen_tone_mapping(src: &mut Src) -> ToneMappingSpec {
    // constraints: intensity_target > 0; 0 <= min_nits <= intensity_target;
    // linear_below >= 0 (and <= 1 when relative_to_max_display)
    let intensity_target = gen_f16_pos(src);
    let mut min_nits = gen_f16(src) & 0x7fff;
    if f16v(min_nits) > f16v(intensity_target) {
        min_nits = if src.bool() { intensity_target } else { 0 };
    }
    let relative = src.bool();
    let mut linear_below = gen_f16(src) & 0x7fff;
    if relative && f16v(linear_below) > 1.0 {
        linear_below = src.pick(&[0x3c00u16, 0x3800, 0]);
    }
    ToneMappingSpec { intensity_target, min_nits, relative_to_max_display: relative, linear_below }
}

pub fn gen_ec_info(src: &mut Src) -> EcInfoSpec {
    if src.chance(64) {
        return EcInfoSpec::default();
    }
    let ty = match src.weighted(&[3, 1, 1, 1, 1, 1, 1, 1, 1]) {
        0 => EcTypeSpec::Alpha { associated: src.bool() },
        1 => EcTypeSpec::Depth,
        2 => EcTypeSpec::Spot { rgbs: [gen_f16(src), gen_f16(src), gen_f16(src), gen_f16(src)] },
        3 => EcTypeSpec::SelectionMask,
        4 => EcTypeSpec::Black,
        5 => EcTypeSpec::Cfa { channel: match src.below(3) { 0 => 1, 1 => src.range(0, 18) as u32, _ => src.range(0, 274) as u32 } },
        6 => EcTypeSpec::Thermal,
        7 => EcTypeSpec::NonOptional,
        _ => EcTypeSpec::Optional,
    };
    EcInfoSpec { ty, bit_depth: gen_bit_depth(src), dim_shift: src.pick(&[0u32, 0, 1, 2, 3, 4, 5, 6, 7, 8]), name: gen_name(src, 1071) }
}

pub struct HeaderGenOpts {
    pub max_dim: u32,
    pub allow_icc: bool,
    pub allow_preview: bool,
    pub max_ec: usize,
}

impl Default for HeaderGenOpts {
    fn default() -> Self {
        HeaderGenOpts { max_dim: 1 << 30, allow_icc: true, allow_preview: true, max_ec: 8 }
    }
}

pub fn gen_image_header(src: &mut Src, o: &HeaderGenOpts) -> ImageHeaderSpec {
    let (width, height) = gen_size(src, o.max_dim);
    let mut h = ImageHeaderSpec { width, height, ..Default::default() };
    if src.chance(32) {
        return h;
    }
    h.orientation = if src.chance(128) { src.range(1, 8) as u32 } else { 1 };
    if src.chance(48) {
        h.intrinsic_size = Some(gen_size(src, 1 << 30));
    }
    if o.allow_preview && src.chance(48) {
        let (pw, ph) = gen_size(src, 5440);
        if preview_size_ok(pw, ph) {
            h.preview = Some((pw, ph));
        }
    }
    if src.chance(80) {
        h.animation = Some(AnimationSpec {
            tps_numerator: match src.below(4) { 0 => 100, 1 => 1000, 2 => src.range(1, 1024) as u32, _ => src.range(1, 1 << 30) as u32 },
            tps_denominator: match src.below(4) { 0 => 1, 1 => 1001, 2 => src.range(1, 256) as u32, _ => src.range(1, 1024) as u32 },
            num_loops: match src.below(4) { 0 => 0, 1 => src.range(0, 7) as u32, 2 => src.range(0, 65535) as u32, _ => src.u32() },
            have_timecodes: src.bool(),
        });
    }
    h.bit_depth = gen_bit_depth(src);
    h.modular_16bit_buffers = src.bool();
    let n_ec = match src.weighted(&[4, 3, 2, 1]) {
        0 => 0,
        1 => 1,
        2 => src.range(2, 4.min(o.max_ec as u64).max(2)) as usize,
        _ => src.range(0, o.max_ec as u64) as usize,
    }
    .min(o.max_ec);
    h.ec_info = (0..n_ec).map(|_| gen_ec_info(src)).collect();
    h.xyb_encoded = src.bool();
    h.colour_encoding = gen_colour_encoding(src, o.allow_icc);
    if src.chance(64) {
        h.tone_mapping = gen_tone_mapping(src);
    }
    h.extensions = gen_extensions(src);
    if h.xyb_encoded && src.chance(48) {
        let mut g = || gen_f16(src);
        h.opsin = Some(OpsinSpec {
            inv_mat: [[g(), g(), g()], [g(), g(), g()], [g(), g(), g()]],
            opsin_bias: [g(), g(), g()],
            quant_bias: [g(), g(), g()],
            quant_bias_numerator: g(),
        });
    }
    if src.chance(24) {
        h.up2 = Some((0..15).map(|_| gen_f16(src)).collect());
    }
    if src.chance(16) {
        h.up4 = Some((0..55).map(|_| gen_f16(src)).collect());
    }
    if src.chance(12) {
        h.up8 = Some((0..210).map(|_| gen_f16(src)).collect());
    }
    h
}

fn gen_crop_u(src: &mut Src) -> u32 {
    match src.weighted(&[4, 2, 1, 1]) {
        0 => src.range(0, 255) as u32,
        1 => src.range(0, 2303) as u32,
        2 => src.range(0, 18687) as u32,
        _ => src.range(0, 18688 + (1 << 30) - 1) as u32,
    }
}

fn gen_crop_i(src: &mut Src) -> i32 {
    let v = gen_crop_u(src);
    // any packed value up to the maximum is representable
    let packed = v as u64;
    if packed & 1 == 0 {
        (packed >> 1) as i32
    } else {
        -(((packed + 1) >> 1) as i64) as i32
    }
}

pub fn gen_blending_info(src: &mut Src, n_ec: usize) -> BlendingInfoSpec {
    let mode = src.weighted(&[3, 1, 1, 1, 1]) as u32;
    let uses_alpha = mode == 2 || mode == 3;
    let have_ec = n_ec > 0;
    BlendingInfoSpec {
        mode,
        alpha_channel: if have_ec && uses_alpha { src.range(0, 10) as u32 } else { 0 },
        clamp: if (have_ec && uses_alpha) || mode == 4 { src.bool() } else { false },
        source: src.range(0, 3) as u32,
    }
}

pub fn gen_restoration_filter(src: &mut Src, modular: bool) -> RestorationFilterSpec {
    if src.chance(96) {
        return RestorationFilterSpec::default();
    }
    let gab = match src.below(3) {
        0 => GaborSpec::Disabled,
        1 => GaborSpec::Default,
        _ => {
            let mut wts = [[0u16; 2]; 3];
            for c in &mut wts {
                loop {
                    c[0] = gen_f16(src);
                    c[1] = gen_f16(src);
                    let s = 1.0 + (f16v(c[0]) + f16v(c[1])) * 4.0;
                    if s.abs() >= 1e-3 || src.exhausted() {
                        if s.abs() < 1e-3 {
                            *c = [0x2f5f, 0x2bd7];
                        }
                        break;
                    }
                }
            }
            GaborSpec::Custom(wts)
        }
    };
    let epf = if src.chance(64) {
        None
    } else {
        Some(EpfSpec {
            iters: src.range(1, 3) as u32,
            sharp_lut: if !modular && src.bool() { Some(std::array::from_fn(|_| gen_f16(src))) } else { None },
            channel_scale: if src.bool() { Some(std::array::from_fn(|_| gen_f16(src))) } else { None },
            sigma: if src.bool() {
                let q = if modular { 0 } else { gen_f16(src) };
                Some([q, gen_f16(src), gen_f16(src), gen_f16(src)])
            } else {
                None
            },
            sigma_for_modular: if modular { gen_f16(src) } else { 0x3c00 },
        })
    };
    RestorationFilterSpec { gab, epf, extensions: gen_extensions(src) }
}

pub fn gen_passes(src: &mut Src) -> PassesSpec {
    if src.chance(128) {
        return PassesSpec::default();
    }
    let num_passes = src.range(1, 11) as u32;
    if num_passes == 1 {
        return PassesSpec::default();
    }
    let num_ds = src.range(0, 4.min(num_passes as u64 - 1)) as usize;
    PassesSpec {
        num_passes,
        shift: (0..num_passes - 1).map(|_| src.range(0, 3) as u32).collect(),
        downsample: (0..num_ds).map(|_| src.pick(&[1u32, 2, 4, 8])).collect(),
        last_pass: (0..num_ds).map(|_| src.range(0, 7) as u32).collect(),
    }
}

/// Generates a frame header over all legal field combinations (header level
/// only: nothing here promises that a *frame body* for it can be written).
pub fn gen_frame_header(src: &mut Src, ih: &ImageHeaderSpec) -> FrameHeaderSpec {
    let mut f = FrameHeaderSpec::all_default_for(ih);
    if src.chance(32) {
        return f;
    }
    f.frame_type = match src.weighted(&[4, 1, 1, 1]) {
        0 => FrameTypeSpec::Regular,
        1 => FrameTypeSpec::Lf,
        2 => FrameTypeSpec::ReferenceOnly,
        _ => FrameTypeSpec::SkipProgressive,
    };
    f.modular = src.bool();
    f.flags = 0;
    for fl in [FLAG_NOISE, FLAG_PATCHES, FLAG_SPLINES, FLAG_USE_LF_FRAME, FLAG_SKIP_ADAPTIVE_LF_SMOOTHING] {
        if src.chance(48) {
            f.flags |= fl;
        }
    }
    let n_ec = ih.ec_info.len();
    f.do_ycbcr = !ih.xyb_encoded && src.chance(96);
    let use_lf = f.use_lf_frame();
    if f.do_ycbcr && !use_lf {
        f.jpeg_upsampling = [src.range(0, 3) as u32, src.range(0, 3) as u32, src.range(0, 3) as u32];
    }
    if !use_lf {
        f.upsampling = src.pick(&[1u32, 1, 2, 4, 8]);
        f.ec_upsampling = (0..n_ec).map(|_| src.pick(&[1u32, 1, 2, 4, 8])).collect();
    }
    f.group_size_shift = if f.modular { src.range(0, 3) as u32 } else { 1 };
    if ih.xyb_encoded && !f.modular {
        f.x_qm_scale = src.range(0, 7) as u32;
        f.b_qm_scale = src.range(0, 7) as u32;
    } else {
        f.x_qm_scale = 2;
        f.b_qm_scale = 2;
    }
    if f.frame_type != FrameTypeSpec::ReferenceOnly {
        f.passes = gen_passes(src);
    }
    f.lf_level = if f.frame_type == FrameTypeSpec::Lf { src.range(1, 4) as u32 } else { 0 };
    if f.frame_type != FrameTypeSpec::Lf && src.chance(112) {
        let (x0, y0) = if f.frame_type != FrameTypeSpec::ReferenceOnly {
            if src.chance(64) { (0, 0) } else { (gen_crop_i(src), gen_crop_i(src)) }
        } else {
            (0, 0)
        };
        let (cw, ch) = if src.chance(64) { (ih.width.min(18688 + (1 << 30) - 1), ih.height.min(18688 + (1 << 30) - 1)) } else { (gen_crop_u(src), gen_crop_u(src)) };
        f.crop = Some((x0, y0, cw, ch));
    }
    if f.frame_type.is_normal() {
        f.blending_info = gen_blending_info(src, n_ec);
        f.ec_blending_info = (0..n_ec).map(|_| gen_blending_info(src, n_ec)).collect();
        // DESIGN 3.4: the presence of ec_blending_info[i].source is keyed on the main
        // blend mode in the definition's text and on the entry's own mode in libjxl.
        // Keep (main == Replace) <=> (entry == Replace) for canvas-covering frames so
        // both readings coincide.
        if f.covers_canvas(ih) {
            let main_replace = f.blending_info.mode == 0;
            for b in &mut f.ec_blending_info {
                if main_replace && b.mode != 0 {
                    *b = BlendingInfoSpec::default();
                } else if !main_replace && b.mode == 0 {
                    b.mode = 1;
                }
            }
        }
        if !{
            // `source` is only signalled when the frame does not reset the canvas
            !f.resets_canvas(ih)
        } {
            f.blending_info.source = 0;
            for b in &mut f.ec_blending_info {
                b.source = 0;
            }
        }
        if let Some(a) = &ih.animation {
            f.duration = match src.below(4) { 0 => 0, 1 => 1, 2 => src.range(0, 255) as u32, _ => src.u32() };
            if a.have_timecodes {
                f.timecode = src.u32();
            }
        }
        f.is_last = src.bool();
    } else {
        f.is_last = false;
    }
    if f.frame_type != FrameTypeSpec::Lf && !f.is_last {
        f.save_as_reference = src.range(0, 3) as u32;
    }
    f.save_before_ct = if f.save_before_ct_signalled(ih) { src.bool() } else { !f.frame_type.is_normal() };
    f.name = gen_name(src, 1071);
    f.restoration_filter = gen_restoration_filter(src, f.modular);
    f.extensions = gen_extensions(src);
    f
}
