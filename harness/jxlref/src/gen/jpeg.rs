//! Generator of JPEG files together with their lossless JPEG XL transcoding
//! (container with `jbrd` box, Exif / xml boxes, VarDCT codestream in JPEG mode).
//!
//! `gen_jpeg_case` draws a `JpegSpec` (structure and quantised coefficients),
//! writes the JPEG with `jxlref::jpeg::encode_jpeg` and builds the transcoded
//! file with `transcode_codestream` + `jxlref::container`.

use std::collections::{BTreeMap, BTreeSet};

use crate::bits::{f32_to_f16_bits, BitWriter};
use crate::container::*;
use crate::frames::*;
use crate::headers::*;
use crate::jpeg::*;
use crate::modular::encode::{encode_modular_frame, FrameGeom, ModularOpts};
use crate::modular::predict::Chan;
use crate::src::Src;
use crate::vardct::*;

#[derive(Clone, Debug)]
pub struct JpegGenOpts {
    /// upper bound of "small" dimensions
    pub max_small_dim: usize,
    /// probability (x/256) of one dimension just around 256 (several groups)
    pub big: u32,
    /// probability (x/256) of one dimension above 2048 (two LF groups)
    pub multi_lf: u32,
    /// largest generated ICC profile (bytes); rare larger ones force maximum-size chunks
    pub max_icc: usize,
}

impl Default for JpegGenOpts {
    fn default() -> Self {
        JpegGenOpts { max_small_dim: 48, big: 10, multi_lf: 2, max_icc: 3000 }
    }
}

pub struct JpegCase {
    pub spec: JpegSpec,
    pub jpeg: Vec<u8>,
    pub encoded: EncodedJpeg,
    pub jbrd: JbrdSpec,
    /// the transcoded file
    pub jxl: Vec<u8>,
    /// boxes after the signature box, in file order (`jxl` = signature + these)
    pub boxes: Vec<RawBox>,
    pub jbrd_box: usize,
    /// bytes of the bit-packed header at the start of the jbrd payload
    pub jbrd_header_len: usize,
    /// file offsets of structure boundaries
    pub marks: Vec<usize>,
    pub classes: Vec<String>,
    /// blocks with at least one non-zero AC coefficient
    pub nonzero_ac_blocks: usize,
    pub icc: Option<Vec<u8>>,
    /// the jbrd box or an Exif / xml box the reconstruction needs comes after the end of the
    /// codestream (a reader that stops at the end of the image never sees it)
    pub needed_box_after_codestream: bool,
    pub desc: String,
    /// set when the reference writer could not produce the case (never a property violation)
    pub discard: Option<String>,
}

/// Signature box followed by `boxes`.
pub fn assemble_file(boxes: &[RawBox]) -> Vec<u8> {
    let mut f = SIGNATURE_BOX.to_vec();
    for b in boxes {
        b.write(&mut f);
    }
    f
}

// ---------------------------------------------------------------------------
// Bulk choices

/// Decisions for bulk content: taken from the choice sequence for small images, from a
/// generator seeded by the choice sequence for large ones.
struct Bulk<'a, 'b> {
    src: &'a mut Src<'b>,
    state: u64,
    direct: bool,
}

impl<'a, 'b> Bulk<'a, 'b> {
    fn new(src: &'a mut Src<'b>, direct: bool) -> Self {
        let state = if direct { 0 } else { src.u64() };
        Bulk { src, state, direct }
    }
    fn next(&mut self) -> u64 {
        if self.state == 0 {
            return 0;
        }
        self.state ^= self.state << 13;
        self.state ^= self.state >> 7;
        self.state ^= self.state << 17;
        self.state.wrapping_mul(0x2545_f491_4f6c_dd1d) >> 16
    }
    fn below(&mut self, n: usize) -> usize {
        if n <= 1 {
            return 0;
        }
        if self.direct {
            self.src.below(n)
        } else {
            (self.next() % n as u64) as usize
        }
    }
    fn chance(&mut self, num: u32) -> bool {
        if self.direct {
            self.src.chance(num)
        } else {
            self.state != 0 && (self.next() % 256) < num as u64
        }
    }
    fn weighted(&mut self, w: &[u32]) -> usize {
        if self.direct {
            return self.src.weighted(w);
        }
        let total: u32 = w.iter().sum();
        let mut x = (self.next() % total as u64) as u32;
        for (i, &wi) in w.iter().enumerate() {
            if x < wi {
                return i;
            }
            x -= wi;
        }
        w.len() - 1
    }
    fn range_i(&mut self, lo: i64, hi: i64) -> i64 {
        lo + self.below((hi - lo + 1) as usize) as i64
    }
}

fn fill_bytes(src: &mut Src, n: usize) -> Vec<u8> {
    if n <= 48 {
        return src.bytes(n);
    }
    let mut s = src.u64() | 1;
    (0..n)
        .map(|_| {
            s ^= s << 13;
            s ^= s >> 7;
            s ^= s << 17;
            (s >> 24) as u8
        })
        .collect()
}

fn shuffle<T>(v: &mut [T], src: &mut Src) {
    for i in (1..v.len()).rev() {
        let j = src.below(i + 1);
        v.swap(i, j);
    }
}

// ---------------------------------------------------------------------------
// Pieces of the JPEG

const EDGE_DIMS: [usize; 16] = [1, 2, 7, 8, 9, 15, 16, 17, 23, 24, 25, 31, 32, 33, 40, 47];
const BIG_DIMS: [usize; 10] = [249, 255, 256, 257, 263, 264, 265, 271, 272, 273];

fn gen_small_dim(src: &mut Src, o: &JpegGenOpts) -> usize {
    match src.weighted(&[5, 3, 3, 1]) {
        0 => src.range(1, o.max_small_dim as u64) as usize,
        1 => 8 * src.range(1, (o.max_small_dim / 8).max(1) as u64) as usize,
        2 => src.pick(&EDGE_DIMS),
        _ => src.range(1, 7) as usize,
    }
}

fn gen_dims(src: &mut Src, o: &JpegGenOpts, classes: &mut Vec<String>) -> (usize, usize) {
    if src.chance(o.multi_lf) {
        classes.push("dims:multi-lf-group".into());
        let long = 2049 + src.range(0, 15) as usize;
        let short = src.range(1, 16) as usize;
        return if src.bool() { (long, short) } else { (short, long) };
    }
    if src.chance(o.big) {
        classes.push("dims:multi-group".into());
        let b = src.pick(&BIG_DIMS);
        let s = if src.chance(24) { src.pick(&BIG_DIMS) } else { gen_small_dim(src, o) };
        return if src.bool() { (b, s) } else { (s, b) };
    }
    classes.push("dims:small".into());
    (gen_small_dim(src, o), gen_small_dim(src, o))
}

fn gen_quant_values(src: &mut Src, p16: bool) -> [u16; 64] {
    let max: u64 = if p16 { 65535 } else { 255 };
    let mut v = [1u16; 64];
    match src.weighted(&[2, 4, 3, 2]) {
        0 => {
            let x = if src.bool() { 1 } else { src.range(1, max) as u16 };
            v = [x; 64];
        }
        1 => {
            // increasing with frequency, like practical tables
            let base = src.range(1, if p16 { 300 } else { 40 }) as u32;
            let step = src.range(0, if p16 { 900 } else { 3 }) as u32;
            for (k, x) in v.iter_mut().enumerate() {
                *x = (base + step * k as u32).clamp(1, max as u32) as u16;
            }
        }
        2 => {
            for x in v.iter_mut() {
                *x = src.range(1, max) as u16;
            }
        }
        _ => {
            let pool: &[u16] = if p16 { &[1, 255, 256, 257, 32767, 32768, 65535] } else { &[1, 2, 127, 128, 254, 255] };
            for x in v.iter_mut() {
                *x = src.pick(pool);
            }
        }
    }
    v
}

/// Content style: 0 = sequential files, 1 = progressive files (more small magnitudes above 1, so that
/// point transforms and refinement passes have work), 2 = almost only empty blocks (very large images).
fn gen_magnitude(p: &mut Bulk, max: i32, style: u8) -> i32 {
    if style != 0 {
        return match p.weighted(&[3, 5, 3, 1, 1]) {
            0 => 1,
            1 => 2 + p.below(6) as i32,
            2 => 1 + p.below(max.min(31) as usize) as i32,
            3 => 1 + p.below(max as usize) as i32,
            _ => {
                let k = p.below(11) as u32;
                let b = 1i32 << k;
                [b, b - 1, b + 1][p.below(3)].clamp(1, max)
            }
        };
    }
    match p.weighted(&[8, 4, 1, 1]) {
        0 => 1,
        1 => 1 + p.below(max.min(7) as usize) as i32,
        2 => 1 + p.below(max as usize) as i32,
        _ => {
            // category boundaries
            let k = p.below(11) as u32;
            let b = 1i32 << k;
            [b, b - 1, b + 1][p.below(3)].clamp(1, max)
        }
    }
}

/// One block's AC coefficients (zig-zag positions 1..=63); returns the class of the block.
fn gen_block_ac(p: &mut Bulk, blk: &mut [i16; 64], dense_bias: u32, style: u8) -> &'static str {
    let kind = p.weighted(&[10, 12, 4, dense_bias, 3, 1]);
    let mut pos: BTreeSet<usize> = BTreeSet::new();
    let label = match kind {
        0 => "empty",
        1 => {
            for _ in 0..1 + p.below(4) {
                pos.insert(1 + p.below(15));
            }
            "low"
        }
        2 => {
            for _ in 0..1 + p.below(10) {
                pos.insert(1 + p.below(63));
            }
            if p.chance(60) {
                pos.insert(63);
            }
            "sparse"
        }
        3 => {
            let n = if p.chance(100) { 63 } else { 1 + p.below(63) };
            for k in 1..=n {
                pos.insert(k);
            }
            "dense"
        }
        4 => {
            // zero runs of 16 and more (ZRL), including exact multiples of 16
            let mut k = p.below(4);
            loop {
                k += [16, 17, 32, 33, 48, 15 + p.below(40)][p.below(6)];
                if k > 63 {
                    break;
                }
                pos.insert(k);
                if p.chance(128) {
                    break;
                }
            }
            if pos.is_empty() {
                pos.insert(17 + p.below(47));
            }
            "long-run"
        }
        _ => {
            pos.insert(63);
            "only-last"
        }
    };
    for k in pos {
        let m = gen_magnitude(p, 1023, style);
        blk[k] = if p.chance(128) { -m } else { m } as i16;
    }
    label
}

fn gen_component_blocks(src: &mut Src, bw: usize, bh: usize, direct: bool, style: u8, classes: &mut BTreeSet<String>) -> Vec<[i16; 64]> {
    let dc_style = src.weighted(&[2, 4, 3, 2, 1]);
    let dense_bias = src.pick(&[0u32, 1, 1, 5]);
    let base = src.range_i(-1024, 1023);
    let mut p = Bulk::new(src, direct);
    let mut out = vec![[0i16; 64]; bw * bh];
    let n_blocks = bw * bh;
    let mut walk = base;
    for (i, blk) in out.iter_mut().enumerate() {
        // DC values of 8-bit baseline JPEG: -1024..=1023, so that every difference fits category 11
        let dc = match dc_style {
            0 => base,
            1 => {
                walk = (walk + p.range_i(-9, 9)).clamp(-1024, 1023);
                walk
            }
            2 => p.range_i(-1024, 1023),
            3 => {
                // extreme differences: -2047 / +2047
                if (i + p.below(2)) % 2 == 0 {
                    -1024
                } else {
                    1023
                }
            }
            _ => [0, 1, -1, 2, -2, 255, -256, 1023, -1024, 1022, -1023][p.below(11)],
        };
        blk[0] = dc as i16;
        // (style 2: content only near both ends of the image, so that one end-of-band run spans the rest)
        let ends = (n_blocks / 8).min(64);
        let l = if style == 2 && i >= ends && i + ends < n_blocks { "empty" } else { gen_block_ac(&mut p, blk, dense_bias, if style == 2 { 1 } else { style }) };
        classes.insert(format!("block:{l}"));
    }
    classes.insert(format!("dc:{}", ["constant", "walk", "noise", "extreme-diffs", "boundary-values"][dc_style]));
    out
}

/// A valid Huffman table (Annex C) containing at least the symbols in `needed`.
fn gen_huff_table(src: &mut Src, ac: bool, id: u8, needed: &BTreeSet<u8>, classes: &mut BTreeSet<String>) -> HuffTableSpec {
    let mut set = needed.clone();
    // a table of a progressive file (it codes an end-of-band run) may hold the other EOBn symbols too
    let progressive = ac && needed.iter().any(|&x| x & 15 == 0 && (1..=14).contains(&(x >> 4)));
    let universe: Vec<u8> = if ac {
        let mut u = vec![0x00u8, 0xf0];
        if progressive {
            u.extend((1..=14u8).map(|n| n << 4));
        }
        for r in 0..16u8 {
            for s in 1..=10u8 {
                u.push((r << 4) | s);
            }
        }
        u
    } else {
        (0..12).collect()
    };
    match src.weighted(&[3, 3, 1]) {
        0 => {}
        1 => {
            for _ in 0..src.range(1, if ac { 30 } else { 6 }) {
                set.insert(universe[src.below(universe.len())]);
            }
        }
        _ => set.extend(universe.iter().copied()),
    }
    if set.is_empty() {
        set.insert(0);
    }
    let n = set.len();
    // depths of n + 1 leaves of a full binary tree, no leaf deeper than 16; the extra leaf keeps
    // the all-ones code word unused
    let style = src.weighted(&[3, 2, 2]);
    let mut depths: Vec<u8> = vec![1, 1];
    while depths.len() < n + 1 {
        let cands: Vec<usize> = (0..depths.len()).filter(|&i| depths[i] < 16).collect();
        let i = match style {
            0 => *cands.iter().min_by_key(|&&i| depths[i]).unwrap(),
            1 => *cands.iter().max_by_key(|&&i| depths[i]).unwrap(),
            _ => cands[src.below(cands.len())],
        };
        depths[i] += 1;
        let d = depths[i];
        depths.push(d);
    }
    depths.sort();
    depths.pop();
    // sometimes leave more of the code space unused
    let mut incomplete = false;
    if n >= 2 && src.chance(40) {
        // lengthen the longest code(s): Kraft sum only decreases
        let k = depths.len() - 1;
        if depths[k] < 16 {
            depths[k] += 1;
            incomplete = true;
        }
    }
    classes.insert(format!("hufftable:{}{}", ["balanced", "skewed", "random"][style], if incomplete { "+incomplete" } else { "" }));
    let mut symbols: Vec<u8> = set.into_iter().collect();
    shuffle(&mut symbols, src);
    let mut counts = [0u8; 16];
    for &d in &depths {
        counts[d as usize - 1] += 1;
    }
    if depths.iter().any(|&d| d == 16) {
        classes.insert("hufftable:16-bit-codes".into());
    }
    HuffTableSpec { ac, id, counts, symbols }
}

fn std_table(ac: bool, id: u8, chroma: bool) -> HuffTableSpec {
    let (counts, symbols) = match (ac, chroma) {
        (false, false) => std_dc_luma(),
        (false, true) => std_dc_chroma(),
        (true, false) => std_ac_luma(),
        (true, true) => std_ac_chroma(),
    };
    HuffTableSpec { ac, id, counts, symbols }
}

struct Meta {
    /// APPn / COM segments in file order
    segs: Vec<Segment>,
    icc: Option<Vec<u8>>,
    exif_tiff: Option<Vec<u8>>,
    xmp: Option<Vec<u8>>,
    jfif: bool,
}

fn gen_payload(src: &mut Src) -> Vec<u8> {
    let n = match src.weighted(&[3, 6, 2, 1]) {
        0 => 0,
        1 => src.range(1, 40) as usize,
        2 => src.range(41, 700) as usize,
        _ => src.pick(&[65533usize, 65532, 40000]),
    };
    fill_bytes(src, n)
}

fn gen_meta(src: &mut Src, o: &JpegGenOpts, gray: bool, classes: &mut Vec<String>) -> Meta {
    let mut m = Meta { segs: vec![], icc: None, exif_tiff: None, xmp: None, jfif: false };
    if src.chance(140) {
        m.jfif = true;
        classes.push("seg:jfif".into());
    }
    let mut items: Vec<u8> = vec![];
    if src.chance(70) {
        items.push(b'I');
    }
    if src.chance(70) {
        items.push(b'E');
    }
    if src.chance(70) {
        items.push(b'X');
    }
    for _ in 0..src.weighted(&[5, 3, 2, 1]) {
        items.push(src.pick(&[b'C', b'A', b'A', b'e', b'x', b'i', b'D']));
    }
    shuffle(&mut items, src);
    for it in items {
        match it {
            b'I' => {
                // ICC profile in 1.. APP2 chunks, in order
                let fb = src.fork_bytes(600);
                let mut fs = Src::new(&fb);
                let mut prof = crate::icc::gen_profile(&mut fs).bytes;
                if src.chance(8) {
                    // large enough to need a chunk of the maximum size
                    let extra = fill_bytes(src, 66_000usize.saturating_sub(prof.len()) + prof.len() % 4000);
                    prof.extend(extra);
                } else if prof.len() > o.max_icc {
                    prof.truncate(o.max_icc);
                }
                if prof.len() < 4 {
                    prof = vec![0, 0, 0, 4];
                }
                // the data colour space of the profile has to agree with the image (one or three channels)
                if prof.len() >= 20 {
                    prof[16..20].copy_from_slice(if gray { b"GRAY" } else { b"RGB " });
                }
                let n_chunks = if prof.len() > 65519 { prof.len().div_ceil(65519) } else { src.weighted(&[5, 3, 2, 1]) + 1 };
                let mut cuts: Vec<usize> = if prof.len() > 65519 { (1..n_chunks).map(|i| i * 65519).collect() } else { (1..n_chunks).map(|_| src.range(0, prof.len() as u64) as usize).collect() };
                cuts.sort();
                cuts.push(prof.len());
                let mut prev = 0;
                for (i, &c) in cuts.iter().enumerate() {
                    let mut p = ICC_SIG.to_vec();
                    p.push(i as u8 + 1);
                    p.push(n_chunks as u8);
                    p.extend_from_slice(&prof[prev..c]);
                    prev = c;
                    m.segs.push(Segment::App { marker: 0xe2, payload: p, kind: AppKind::Icc });
                }
                classes.push(format!("seg:icc/{}", if n_chunks == 1 { "1-chunk" } else { "multi-chunk" }));
                if prof.len() > 65519 {
                    classes.push("seg:icc/full-size-chunk".into());
                }
                m.icc = Some(prof);
            }
            b'E' => {
                let n = src.range(1, 60) as usize;
                let mut t = if src.bool() { b"II*\0".to_vec() } else { vec![] };
                t.extend(fill_bytes(src, n));
                let mut p = EXIF_SIG.to_vec();
                p.extend_from_slice(&t);
                m.segs.push(Segment::App { marker: 0xe1, payload: p, kind: AppKind::Exif });
                m.exif_tiff = Some(t);
                classes.push("seg:exif".into());
            }
            b'X' => {
                let n = src.range(1, 80) as usize;
                let t: Vec<u8> = (0..n).map(|_| b' ' + src.byte() % 95).collect();
                let mut p = XMP_SIG.to_vec();
                p.extend_from_slice(&t);
                m.segs.push(Segment::App { marker: 0xe1, payload: p, kind: AppKind::Xmp });
                m.xmp = Some(t);
                classes.push("seg:xmp".into());
            }
            b'C' => {
                m.segs.push(Segment::Com(gen_payload(src)));
                classes.push("seg:com".into());
            }
            b'A' => {
                let marker = 0xe0 + src.below(16) as u8;
                m.segs.push(Segment::App { marker, payload: gen_payload(src), kind: AppKind::Raw });
                classes.push("seg:app-raw".into());
            }
            b'D' => {
                // Adobe APP14, transform 1 (YCbCr) / 0 for gray
                let mut p = b"Adobe".to_vec();
                p.extend_from_slice(&[0, 100, 0, 0, 0, 0, if gray { 0 } else { 1 }]);
                m.segs.push(Segment::App { marker: 0xee, payload: p, kind: AppKind::Raw });
                classes.push("seg:adobe".into());
            }
            b'e' => {
                // a further Exif-looking APP1 kept verbatim
                let mut p = EXIF_SIG.to_vec();
                let n = src.range(0, 20) as usize;
                p.extend(fill_bytes(src, n));
                m.segs.push(Segment::App { marker: 0xe1, payload: p, kind: AppKind::Raw });
                classes.push("seg:exif-verbatim".into());
            }
            b'x' => {
                let mut p = XMP_SIG.to_vec();
                let n = src.range(0, 20) as usize;
                p.extend(fill_bytes(src, n));
                m.segs.push(Segment::App { marker: 0xe1, payload: p, kind: AppKind::Raw });
                classes.push("seg:xmp-verbatim".into());
            }
            _ => {
                // an APP2 ICC-looking chunk with inconsistent numbering, kept verbatim
                let mut p = ICC_SIG.to_vec();
                p.extend_from_slice(&[src.byte(), src.byte()]);
                let n = src.range(0, 30) as usize;
                p.extend(fill_bytes(src, n));
                m.segs.push(Segment::App { marker: 0xe2, payload: p, kind: AppKind::Raw });
                classes.push("seg:icc-verbatim".into());
            }
        }
    }
    m
}

/// Bytes that may sit between marker segments: they must not contain a marker (0xFF followed by
/// 0xC0..=0xFE) and must not fuse with the 0xFF of the marker that follows.
fn gen_intermarker(src: &mut Src, classes: &mut Vec<String>) -> Vec<u8> {
    if src.bool() {
        classes.push("intermarker:fill-bytes".into());
        return vec![0xff; src.range(1, 5) as usize];
    }
    classes.push("intermarker:garbage".into());
    let n = src.range(1, 24) as usize;
    let mut v = fill_bytes(src, n);
    for i in 0..v.len() {
        if i > 0 && v[i - 1] == 0xff && (0xc0..=0xfe).contains(&v[i]) {
            v[i] = 0x00;
        }
    }
    v
}

// ---------------------------------------------------------------------------
// Transcoding: JPEG -> JPEG XL codestream

pub struct Transcoded {
    pub codestream: Vec<u8>,
    /// codestream offsets of structure boundaries
    pub marks: Vec<usize>,
    pub classes: Vec<String>,
}

/// Frame-header chroma subsampling code of a component: (2,2) -> 1, (2,1) -> 2, (1,2) -> 3, (1,1) -> 0.
fn sampling_code(h: u8, v: u8) -> Result<u32, String> {
    match (h, v) {
        (1, 1) => Ok(0),
        (2, 2) => Ok(1),
        (2, 1) => Ok(2),
        (1, 2) => Ok(3),
        _ => Err(format!("sampling factors {h}x{v} have no JPEG XL equivalent")),
    }
}

/// The JPEG XL codestream holding exactly the quantised coefficients of `spec`
/// (ISO/IEC 18181-1 VarDCT frame, DCT8 only, YCbCr, RAW quantisation weights = the JPEG's tables
/// over 8 * 255), with `icc` as embedded colour profile when given.
pub fn transcode_codestream(spec: &JpegSpec, icc: Option<&[u8]>, src: &mut Src) -> Result<Transcoded, String> {
    let mut classes: Vec<String> = vec![];
    let nc = spec.components.len();
    if nc != 1 && nc != 3 {
        return Err("only 1 or 3 components".into());
    }
    let gray = nc == 1;
    let (w, h) = (spec.width as usize, spec.height as usize);
    // (Cb, Y, Cr) subsampling codes
    let codes: Vec<u32> = spec.components.iter().map(|c| sampling_code(c.h, c.v)).collect::<Result<_, _>>()?;
    let jpeg_upsampling: [u32; 3] = if gray || codes.iter().all(|&c| c == codes[0]) { [0; 3] } else { [codes[1], codes[0], codes[2]] };
    let subsampled = jpeg_upsampling != [0; 3];

    let table_of = |c: usize| -> Result<&QuantTableSpec, String> { spec.quant_tables.iter().rev().find(|q| q.id == spec.components[c].tq).ok_or_else(|| format!("component {c} refers to an undefined quantisation table")) };
    // quantisation tables per channel X (Cb), Y, B (Cr)
    let q_chan: [&QuantTableSpec; 3] = if gray { [table_of(0)?, table_of(0)?, table_of(0)?] } else { [table_of(1)?, table_of(0)?, table_of(2)?] };
    let wide_q = q_chan.iter().any(|q| q.values.iter().any(|&v| v > 32767));
    let narrow = !wide_q && src.bool();

    // ---- image header ---------------------------------------------------------
    let colour_encoding = match (icc, gray) {
        (Some(_), g) => ColourEncodingSpec::Icc { colour_space: if g { 1 } else { 0 } },
        (None, true) => ColourEncodingSpec::Enum { colour_space: 1, white_point: WhitePointSpec::D65, primaries: PrimariesSpec::Srgb, tf: TfSpec::Srgb, intent: 1 },
        (None, false) => ColourEncodingSpec::default(),
    };
    let ih = ImageHeaderSpec { width: spec.width, height: spec.height, bit_depth: BitDepthSpec::Int { bits: 8 }, modular_16bit_buffers: narrow, xyb_encoded: false, colour_encoding, ..Default::default() };
    let mut fh = FrameHeaderSpec::all_default_for(&ih);
    fh.do_ycbcr = true;
    fh.jpeg_upsampling = jpeg_upsampling;
    fh.flags |= FLAG_SKIP_ADAPTIVE_LF_SMOOTHING;
    fh.restoration_filter = RestorationFilterSpec::none();
    let fg = frame_geometry(&fh, &ih);
    let num_groups = fg.num_groups as usize;
    let num_lf_groups = fg.num_lf_groups as usize;

    // ---- quantiser: weights are q / (8 * 255) exactly when the HF multiplier is 1 ------------
    // dequantised value = coefficient * weight * 65536 / (global_scale * hf_mul)
    let (global_scale, hf_mul, quant_lf) = match src.weighted(&[4, 2, 2]) {
        0 => (65536u32, 1u32, 1u32),
        1 => (4096, 16, 16),
        _ => (2048, 32, 32),
    };
    classes.push(format!("quantiser:gs{global_scale}"));
    let f16 = f32_to_f16_bits;
    let lf_dequant = Some([f16(q_chan[0].values[0] as f32 / 2040.0), f16(q_chan[1].values[0] as f32 / 2040.0), f16(q_chan[2].values[0] as f32 / 2040.0)]);
    // chroma-from-luma must be neutral: multipliers 0 in every tile, base correlations 0
    // (without chroma subsampling the multipliers apply, also to the all-zero chroma of a one-component image)
    let lf_corr = if !subsampled || src.bool() { Some(LfCorrSpec { colour_factor: 84, base_correlation_x: 0, base_correlation_b: 0, x_factor_lf: 128, b_factor_lf: 128 }) } else { None };

    let mut frame = VarDctFrame { width: w, height: h, jpeg_upsampling, lf_dequant, global_scale, quant_lf, block_ctx: BlockCtxSpec::Default, lf_corr, lf_groups: vec![], dequant: DequantSetSpec::AllDefault, num_hf_presets: 1, passes: vec![] };

    // Chroma from luma in JPEG mode is integer arithmetic on the quantised coefficients (so that it is
    // exactly invertible): chroma += (luma * s + 2^10) >> 11 with s = (r * f + 2^10) >> 11,
    // r = 2^11 * q_luma / q_chroma per coefficient, f = multiplier * 2^11 / 84 per 64x64 tile.  It applies
    // without chroma subsampling only; 32-bit intermediate results limit it to 8-bit tables here.
    let q_all_max = q_chan.iter().flat_map(|q| q.values.iter()).copied().max().unwrap_or(1);
    let use_cfl = !gray && !subsampled && q_all_max <= 255 && src.chance(100);
    if use_cfl {
        classes.push("cfl:integer-multipliers".into());
    } else if !gray && !subsampled {
        classes.push("cfl:zero-multipliers".into());
    }
    // component index of each channel X, Y, B
    let comp_of_chan: [Option<usize>; 3] = if gray { [None, Some(0), None] } else { [Some(1), Some(0), Some(2)] };
    for lg in 0..num_lf_groups {
        let (bw, bh) = frame.lf_group_blocks(lg);
        let (ox, oy) = ((lg % frame.lf_groups_per_row()) * GROUP_BLOCKS * 8, (lg / frame.lf_groups_per_row()) * GROUP_BLOCKS * 8);
        // LF image in coded channel order Y, X, B
        let mut lf: Vec<Chan> = vec![];
        for ch in [1usize, 0, 2] {
            let (hs, vs) = frame.shifts(ch);
            let mut c = Chan::with_shift(bw >> hs, bh >> vs, hs as i32, vs as i32);
            if let Some(ci) = comp_of_chan[ch] {
                let comp = &spec.components[ci];
                for y in 0..c.h {
                    for x in 0..c.w {
                        let (gx, gy) = ((ox >> hs) + x, (oy >> vs) + y);
                        if gx >= comp.bw || gy >= comp.bh {
                            return Err(format!("component {ci}: block ({gx}, {gy}) outside its {}x{} blocks", comp.bw, comp.bh));
                        }
                        c.set(x, y, comp.blocks[gy * comp.bw + gx][0] as i32);
                    }
                }
            }
            lf.push(c);
        }
        let lf: [Chan; 3] = [lf[0].clone(), lf[1].clone(), lf[2].clone()];
        let mut blocks = vec![];
        for by in 0..bh {
            for bx in 0..bw {
                blocks.push(VarBlock { bx, by, ty: 0, hf_mul });
            }
        }
        let mut x_from_y = Chan::new(bw.div_ceil(8), bh.div_ceil(8));
        let mut b_from_y = Chan::new(bw.div_ceil(8), bh.div_ceil(8));
        if use_cfl {
            for m in [&mut x_from_y, &mut b_from_y] {
                let style = src.weighted(&[3, 3, 1]);
                let constant = src.range_i(-128, 127) as i32;
                for v in m.data.iter_mut() {
                    *v = match style {
                        0 => src.range_i(-12, 12) as i32,
                        1 => src.range_i(-128, 127) as i32,
                        _ => constant,
                    };
                }
            }
        }
        frame.lf_groups.push(LfGroupSpec { bw, bh, extra_precision: 0, lf, x_from_y, b_from_y, blocks, sharpness: Chan::new(bw, bh) });
    }

    // ---- RAW weights of the DCT8 set: the tables, transposed (JPEG XL stores DCT8 blocks transposed) ----
    let zz = zigzag_rc();
    // DCT8 blocks are stored transposed in the codestream: the coefficient with horizontal frequency u
    // and vertical frequency v sits at column v, row u, and the natural coefficient order walks that
    // stored block in zig-zag fashion.  Natural-order index of JPEG zig-zag index k:
    let nat_of_zz: [usize; 64] = std::array::from_fn(|k| {
        let (row, col) = zz[k];
        zz.iter().position(|&rc| rc == (col, row)).unwrap()
    });
    let chans: [Chan; 3] = std::array::from_fn(|ch| {
        let mut c = Chan::new(8, 8);
        for k in 0..64 {
            let (row, col) = zz[k];
            c.set(row, col, q_chan[ch].values[k] as i32);
        }
        c
    });
    let mut sets = vec![DequantEnc::Library; NUM_DEQUANT_SETS];
    sets[0] = DequantEnc::Raw { denominator: f16(1.0 / 2040.0), chans };
    frame.dequant = DequantSetSpec::PerSet(sets);

    // ---- coefficient order of DCT8 blocks: natural (= zig-zag) or a generated permutation ------
    let mut orders: Vec<Option<[Vec<u32>; 3]>> = vec![None; 13];
    let mut pos_of: [Vec<u32>; 3] = std::array::from_fn(|_| (0..64).collect());
    if src.chance(40) {
        let lists: [Vec<u32>; 3] = std::array::from_fn(|_| {
            let m = src.range(2, 63) as usize;
            let mut v: Vec<u32> = (0..=m as u32).collect();
            match src.below(3) {
                0 => v[1..].reverse(),
                1 => {
                    for i in (2..=m).rev() {
                        let j = 1 + src.below(i);
                        v.swap(i, j);
                    }
                }
                _ => {
                    let a = 1 + src.below(m);
                    let b = 1 + src.below(m);
                    v.swap(a, b);
                }
            }
            v
        });
        for ch in 0..3 {
            // scan position k holds the coefficient whose natural index is lists[ch][k]
            for (k, &nat) in lists[ch].iter().enumerate() {
                pos_of[ch][nat as usize] = k as u32;
            }
        }
        orders[0] = Some(lists);
        classes.push("orders:custom".into());
    }
    let lz77 = if src.chance(20) { Some(crate::entropy::Lz77Params::gen_min_length(src)) } else { None };

    let mut groups = vec![];
    for g in 0..num_groups {
        let (lg, _, _) = frame.group_place(g);
        let (ox, oy) = ((lg % frame.lf_groups_per_row()) * GROUP_BLOCKS * 8, (lg / frame.lf_groups_per_row()) * GROUP_BLOCKS * 8);
        let idxs = frame.group_block_indices(g);
        let mut blocks = vec![];
        for &bi in &idxs {
            let b = &frame.lf_groups[lg].blocks[bi];
            let (bx, by) = (b.bx, b.by);
            let bc: BlockCoeffs = std::array::from_fn(|ch| {
                let (hs, vs) = frame.shifts(ch);
                if ((bx >> hs) << hs, (by >> vs) << vs) != (bx, by) {
                    return vec![];
                }
                let Some(ci) = comp_of_chan[ch] else { return vec![] };
                let comp = &spec.components[ci];
                let (gx, gy) = ((ox + bx) >> hs, (oy + by) >> vs);
                let blk = &comp.blocks[gy * comp.bw + gx];
                let mut stored: [i32; 64] = std::array::from_fn(|k| blk[k] as i32);
                if use_cfl && ch != 1 {
                    let lfg = &frame.lf_groups[lg];
                    let map = if ch == 0 { &lfg.x_from_y } else { &lfg.b_from_y };
                    let factor = map.at(bx / 8, by / 8);
                    let f = factor * 2048 / 84;
                    let luma = &spec.components[0];
                    let yblk = &luma.blocks[gy * luma.bw + gx];
                    for k in 1..64 {
                        let r = 2048 * q_chan[1].values[k] as i32 / q_chan[ch].values[k] as i32;
                        let sc = (r * f + 1024) >> 11;
                        stored[k] -= (yblk[k] as i32 * sc + 1024) >> 11;
                    }
                }
                let mut l: Vec<(u32, i32)> = (1..64).filter(|&k| stored[k] != 0).map(|k| (pos_of[ch][nat_of_zz[k]], stored[k])).collect();
                l.sort();
                l
            });
            blocks.push(bc);
        }
        groups.push(GroupCoeffs { preset: 0, blocks });
    }
    frame.passes.push(PassSpec { orders, order_pad: 0, groups, lz77 });

    // ---- write ---------------------------------------------------------------
    let geom = FrameGeom { group_dim: GROUP_DIM, groups_per_row: fg.groups_per_row as usize, groups_per_col: (fg.num_groups / fg.groups_per_row) as usize, lf_groups_per_row: fg.lf_groups_per_row as usize, lf_groups_per_col: (fg.num_lf_groups / fg.lf_groups_per_row) as usize, pass_shifts: vec![(0, 3)] };
    let range_limit = if narrow { 1 << 15 } else { 1i64 << 31 };
    let sub_transforms = src.chance(40);
    if sub_transforms {
        classes.push("sub-modular:transforms-allowed".into());
    }
    let q_max = q_chan.iter().flat_map(|q| q.values.iter()).copied().max().unwrap_or(1) as i64;
    let mo_sub = ModularOpts { bit_depth: 8, range_limit, allow_transforms: sub_transforms, allow_squeeze: true, allow_rct: true, allow_palette: true, allow_lz77: true, allow_multiplier: false, amplitude: q_max.clamp(1024, 1 << 16) };
    let mbits = encode_modular_frame(src, &[], &geom, &ModularOpts { allow_transforms: false, ..mo_sub.clone() });
    let vb = write_vardct_frame(src, &frame, &mo_sub);
    for c in &vb.classes {
        if c.starts_with("hf-code") || c.starts_with("hf:") {
            classes.push(c.clone());
        }
    }
    let n_entries = toc_entry_count(&fh, &ih) as usize;
    let mut sections: Vec<Vec<u8>> = vec![];
    if n_entries == 1 {
        let mut wr = BitWriter::new();
        wr.append(&vb.lf_global);
        wr.append(&mbits.global);
        wr.append(&vb.lf_groups[0].0);
        wr.append(&mbits.lf_groups[0]);
        wr.append(&vb.lf_groups[0].1);
        wr.append(&vb.hf_global);
        wr.append(&vb.pass_groups[0][0]);
        wr.append(&mbits.pass_groups[0][0]);
        sections.push(wr.finish());
        classes.push("toc:single".into());
    } else {
        let mut wr = BitWriter::new();
        wr.append(&vb.lf_global);
        wr.append(&mbits.global);
        sections.push(wr.finish());
        for lg in 0..num_lf_groups {
            let mut wr = BitWriter::new();
            wr.append(&vb.lf_groups[lg].0);
            wr.append(&mbits.lf_groups[lg]);
            wr.append(&vb.lf_groups[lg].1);
            sections.push(wr.finish());
        }
        sections.push(vb.hf_global.clone().finish());
        for g in 0..num_groups {
            let mut wr = BitWriter::new();
            wr.append(&vb.pass_groups[0][g]);
            wr.append(&mbits.pass_groups[0][g]);
            sections.push(wr.finish());
        }
        classes.push("toc:multi".into());
    }
    let icc_bits = match icc {
        None => None,
        Some(profile) => {
            let opts = crate::icc::EncOpts { allow_ambiguous_shuffle: false, reading: Some(crate::icc::ShuffleReading::Raster), allow_out_of_range_tags: false };
            let e = crate::icc::encode_icc(profile, src, &opts);
            let mut wi = BitWriter::new();
            crate::icc::write_icc_stream(&mut wi, &e.assemble(), src);
            Some(wi)
        }
    };
    let mut bytes = write_codestream_start(&ih, icc_bits.as_ref(), src);
    let header_len = bytes.len();
    let permute = n_entries > 1 && src.chance(48);
    let layout = write_frame(&mut bytes, &fh, &ih, &sections, permute, src);
    if layout.permuted {
        classes.push("toc:permuted".into());
    }
    let marks = crate::gen::stream::codestream_marks(header_len, std::slice::from_ref(&layout));
    Ok(Transcoded { codestream: bytes, marks, classes })
}

// ---------------------------------------------------------------------------
// Progressive scan scripts

/// `n` choice bytes derived from another choice sequence (all zero when that one is).
fn derive_bytes(from: &[u8], n: usize) -> Vec<u8> {
    if from.iter().all(|&b| b == 0) {
        return vec![0; n];
    }
    let mut s = 0x2545_f491_4f6c_dd1du64;
    for &b in from.iter().take(32) {
        s = (s ^ b as u64).wrapping_mul(0x100_0000_01b3);
    }
    s |= 1;
    let mut out = Vec::with_capacity(n + 8);
    while out.len() < n {
        s ^= s << 13;
        s ^= s >> 7;
        s ^= s << 17;
        out.extend_from_slice(&s.to_le_bytes());
    }
    out.truncate(n);
    out
}

/// How many ZRL symbols fit between the last coefficient a scan codes in `blk` and the end of the band.
fn zrl_room(blk: &[i16; 64], sc: &ScanSpec) -> u32 {
    let a: Vec<i32> = (sc.ss as usize..=sc.se as usize).map(|k| (blk[k] as i32).abs() >> sc.al).collect();
    let zeros_after = |from: usize| a[from..].iter().filter(|&&x| x == 0).count() as u32;
    if sc.ah == 0 {
        let start = a.iter().rposition(|&x| x != 0).map(|p| p + 1).unwrap_or(0);
        zeros_after(start) / 16
    } else {
        let start = a.iter().rposition(|&x| x == 1).map(|p| p + 1).unwrap_or(0);
        zeros_after(start) / 16
    }
}

/// A legal scan script for a progressive frame (G.1.1.1.1): per component a first DC scan, then for
/// every band of AC coefficients a first scan (Ah = 0) and refinement scans (Ah = Al + 1) down to Al = 0,
/// in a generated order; DC scans interleaved or not; bands of equal state may be refined together.
fn gen_progressive_script(p: &mut Src, nc: usize, td_of: &[u8], ta_of: &[u8], huge: bool, classes: &mut Vec<String>) -> Vec<ScanSpec> {
    #[derive(Clone)]
    struct Band {
        lo: u8,
        hi: u8,
        al: Option<u8>,
        init: u8,
    }
    let mk = |comps: &[usize], ss: u8, se: u8, ah: u8, al: u8| ScanSpec { comps: comps.iter().map(|&c| ScanCompSpec { comp: c, td: td_of[c], ta: ta_of[c] }).collect(), ss, se, ah, al, ..Default::default() };
    // DC: groups of components for the first scan, each with its own Al
    let groups: Vec<Vec<usize>> = if nc == 1 {
        vec![vec![0]]
    } else {
        match p.weighted(&[5, 2, 1, 1]) {
            0 => vec![vec![0, 1, 2]],
            1 => vec![vec![0], vec![1], vec![2]],
            2 => vec![vec![0], vec![1, 2]],
            _ => vec![vec![0, 2], vec![1]],
        }
    };
    let mut dc_first: Vec<(Vec<usize>, u8)> = groups.into_iter().map(|g| (g, if huge { 1 } else { p.weighted(&[3, 4, 2]) as u8 })).collect();
    let mut dc_al: Vec<Option<u8>> = vec![None; nc];
    // AC bands
    let mut bands: Vec<Vec<Band>> = vec![];
    let mut n_bands = 0;
    for _ in 0..nc {
        let cuts: Vec<u8> = if huge {
            vec![6]
        } else {
            match p.weighted(&[3, 3, 3, 1]) {
                0 => vec![],
                1 => vec![6],
                2 => {
                    let mut v: Vec<u8> = (0..p.range(1, 3)).map(|_| p.range(2, 63) as u8).collect();
                    v.sort();
                    v.dedup();
                    v
                }
                _ => {
                    // a band of a single coefficient
                    let k = p.range(2, 62) as u8;
                    vec![k, k + 1]
                }
            }
        };
        let mut v = vec![];
        let mut lo = 1u8;
        for c in cuts.into_iter().chain(std::iter::once(64)) {
            let init = if huge { 1 } else { p.weighted(&[2, 4, 3, 1]) as u8 };
            v.push(Band { lo, hi: c - 1, al: None, init });
            lo = c;
        }
        n_bands += v.len();
        bands.push(v);
    }
    classes.push(format!("prog:bands-per-image:{}", match n_bands { 1..=3 => "1-3", 4..=6 => "4-6", _ => ">6" }));
    let truncate_at = if !huge && p.chance(16) { Some(p.range(2, 8) as usize) } else { None };
    let merge_bias = p.pick(&[0u32, 128, 230]);
    let mut out: Vec<ScanSpec> = vec![];
    let mut merged = false;
    loop {
        // candidate scans
        let mut cands: Vec<(ScanSpec, u32)> = vec![];
        for (i, (g, al)) in dc_first.iter().enumerate() {
            let _ = i;
            cands.push((mk(g, 0, 0, 0, *al), 6));
        }
        // DC refinement: all components at the same level together, or one of them
        for a in 1..=3u8 {
            let at: Vec<usize> = (0..nc).filter(|&c| dc_al[c] == Some(a)).collect();
            if at.is_empty() {
                continue;
            }
            if at.len() > 1 {
                cands.push((mk(&at, 0, 0, a, a - 1), 3));
            }
            for &c in &at {
                cands.push((mk(&[c], 0, 0, a, a - 1), 1));
            }
        }
        for c in 0..nc {
            if dc_al[c].is_none() {
                // the first scan of a component is its DC scan
                continue;
            }
            let bs = &bands[c];
            let mut i = 0;
            while i < bs.len() {
                match bs[i].al {
                    None => {
                        cands.push((mk(&[c], bs[i].lo, bs[i].hi, 0, bs[i].init), 5));
                        i += 1;
                    }
                    Some(0) => i += 1,
                    Some(a) => {
                        // maximal stretch of adjacent bands at the same level
                        let mut j = i;
                        while j + 1 < bs.len() && bs[j + 1].al == Some(a) {
                            j += 1;
                        }
                        for k in i..=j {
                            cands.push((mk(&[c], bs[k].lo, bs[k].hi, a, a - 1), 2));
                        }
                        if j > i {
                            cands.push((mk(&[c], bs[i].lo, bs[j].hi, a, a - 1), 1 + merge_bias / 16));
                        }
                        i = j + 1;
                    }
                }
            }
        }
        if cands.is_empty() {
            break;
        }
        if let Some(t) = truncate_at {
            if out.len() >= t && dc_first.is_empty() {
                classes.push("prog:script-truncated".into());
                break;
            }
        }
        let weights: Vec<u32> = cands.iter().map(|c| c.1).collect();
        let pick = p.weighted(&weights);
        let sc = cands.swap_remove(pick).0;
        // apply
        if sc.ss == 0 {
            if sc.ah == 0 {
                let comps: Vec<usize> = sc.comps.iter().map(|x| x.comp).collect();
                dc_first.retain(|(g, _)| *g != comps);
            }
            for x in &sc.comps {
                dc_al[x.comp] = Some(sc.al);
            }
        } else {
            let c = sc.comps[0].comp;
            let covered: Vec<usize> = (0..bands[c].len()).filter(|&i| bands[c][i].lo >= sc.ss && bands[c][i].hi <= sc.se).collect();
            merged |= covered.len() > 1;
            for i in covered {
                bands[c][i].al = Some(sc.al);
            }
        }
        out.push(sc);
        if out.len() >= 40 {
            break;
        }
    }
    if merged {
        classes.push("prog:refinement-over-merged-bands".into());
    }
    out
}

// ---------------------------------------------------------------------------
// Whole case

pub fn gen_jpeg_case(src: &mut Src, o: &JpegGenOpts) -> JpegCase {
    let mut classes: Vec<String> = vec![];
    let mut bclasses: BTreeSet<String> = BTreeSet::new();
    // independent sub-sequences, so that late decisions do not starve on short choice sequences
    let meta_bytes = src.fork_bytes(400);
    let file_bytes = src.fork_bytes(300);
    let xcode_bytes = src.fork_bytes(1200);
    let table_bytes = src.fork_bytes(900);

    // Progressive or sequential: decided on a sequence derived from an existing sub-sequence, so that
    // the choices of sequential cases are consumed exactly as before progressive files were added.
    let prog_bytes = derive_bytes(&table_bytes, 700);
    let mut psrc = Src::new(&prog_bytes);
    let progressive = psrc.chance(102);
    // a one-component image with more than 2^14 (or 2^15) blocks, so that the longest end-of-band runs occur
    // (sides chosen so that the longest run falls into each of EOB8 .. EOB14, and beyond 32767)
    let huge = if progressive && psrc.chance(9) { Some([160usize, 224, 320, 448, 640, 832, 1032, 1456][psrc.weighted(&[3, 3, 2, 2, 2, 1, 2, 2])]) } else { None };
    classes.push(format!("jpeg:{}", if progressive { "progressive" } else { "sequential" }));

    // ---- frame structure ---------------------------------------------------------
    let mut gray = src.chance(56);
    let (mut w, mut h) = gen_dims(src, o, &mut classes);
    if let Some(n) = huge {
        gray = true;
        (w, h) = (n, n - psrc.below(8));
        classes.retain(|c| !c.starts_with("dims:"));
        classes.push("dims:huge(eob-run-limits)".into());
    }
    let sampling = if gray { 0 } else { src.weighted(&[4, 4, 2, 2]) };
    let (yh, yv) = [(1u8, 1u8), (2, 2), (2, 1), (1, 2)][sampling];
    classes.push(format!("sampling:{}", if gray { "gray" } else { ["444", "420", "422", "440"][sampling] }));
    let extended = src.chance(70);
    classes.push(format!("sof:{}", if progressive { "SOF2" } else if extended { "SOF1" } else { "SOF0" }));
    let ids: Vec<u8> = if gray {
        if src.chance(40) {
            vec![src.byte()]
        } else {
            vec![1]
        }
    } else {
        match src.weighted(&[6, 1, 1]) {
            0 => vec![1, 2, 3],
            1 => vec![0, 1, 2],
            _ => {
                let a = src.byte();
                vec![a, a.wrapping_add(1 + src.below(100) as u8), a.wrapping_add(101 + src.below(100) as u8)]
            }
        }
    };
    if ids != [1] && ids != [1, 2, 3] {
        classes.push("component-ids:custom".into());
    }
    let nc = ids.len();

    // ---- quantisation tables -----------------------------------------------------------
    let slot_of_comp: Vec<usize> = if gray { vec![0] } else { src.pick(&[[0usize, 1, 1], [0, 0, 0], [0, 1, 2], [0, 1, 0]]).to_vec() };
    let n_slots = slot_of_comp.iter().max().unwrap() + 1;
    let mut tq_ids: Vec<u8> = vec![0, 1, 2, 3];
    if src.chance(80) {
        shuffle(&mut tq_ids, src);
    }
    let mut quant_tables: Vec<QuantTableSpec> = vec![];
    for s in 0..n_slots {
        let p16 = extended && src.chance(70);
        quant_tables.push(QuantTableSpec { id: tq_ids[s], precision16: p16, values: gen_quant_values(src, p16) });
    }
    classes.push(format!("quant:{n_slots}-tables"));
    if quant_tables.iter().any(|q| q.precision16) {
        classes.push("quant:16-bit".into());
    }
    // DQT segments: one, one per table, or a generated split; a table may be repeated (same content)
    let mut dqt_list: Vec<usize> = (0..n_slots).collect();
    shuffle(&mut dqt_list, src);
    if dqt_list.len() < 4 && src.chance(24) {
        let k = dqt_list[src.below(dqt_list.len())];
        dqt_list.push(k);
        classes.push("quant:table-repeated".into());
    }
    let mut dqt_segments: Vec<Vec<usize>> = vec![];
    match src.weighted(&[3, 3, 2]) {
        0 => dqt_segments.push(dqt_list.clone()),
        1 => dqt_segments.extend(dqt_list.iter().map(|&k| vec![k])),
        _ => {
            let mut cur = vec![];
            for &k in &dqt_list {
                cur.push(k);
                if src.bool() {
                    dqt_segments.push(std::mem::take(&mut cur));
                }
            }
            if !cur.is_empty() {
                dqt_segments.push(cur);
            }
        }
    }
    classes.push(format!("quant:{}", if dqt_segments.len() == 1 { "one-dqt" } else { "several-dqt" }));

    // ---- components and coefficients ---------------------------------------------------------
    let hmax = yh as usize;
    let vmax = yv as usize;
    let mcus_x = w.div_ceil(8 * hmax);
    let mcus_y = h.div_ceil(8 * vmax);
    let total_blocks: usize = (0..nc).map(|c| if c == 0 { mcus_x * hmax * mcus_y * vmax } else { mcus_x * mcus_y }).sum();
    let direct = total_blocks <= 40;
    let mut components: Vec<ComponentSpec> = vec![];
    for c in 0..nc {
        let (ch, cv) = if c == 0 { (yh, yv) } else { (1, 1) };
        let (bw, bh) = (mcus_x * ch as usize, mcus_y * cv as usize);
        let style = if huge.is_some() { 2 } else if progressive { 1 } else { 0 };
        let blocks = gen_component_blocks(src, bw, bh, direct, style, &mut bclasses);
        components.push(ComponentSpec { id: ids[c], h: ch, v: cv, tq: quant_tables[slot_of_comp[c]].id, bw, bh, blocks });
    }
    let mut nonzero_ac_blocks = components.iter().flat_map(|c| c.blocks.iter()).filter(|b| b[1..].iter().any(|&v| v != 0)).count();

    // ---- scans ---------------------------------------------------------------------
    let layout: Vec<Vec<usize>> = if gray {
        vec![vec![0]]
    } else {
        match src.weighted(&[5, 3, 2, 1, 1, 1, 1]) {
            0 => vec![vec![0, 1, 2]],
            1 => vec![vec![0], vec![1], vec![2]],
            2 => {
                let mut v = vec![vec![0], vec![1], vec![2]];
                shuffle(&mut v, src);
                v
            }
            3 => vec![vec![0], vec![1, 2]],
            4 => vec![vec![0, 1], vec![2]],
            5 => vec![vec![1, 2], vec![0]],
            _ => vec![vec![0, 2], vec![1]],
        }
    };
    if !progressive {
        classes.push(format!(
        "scans:{}",
        if gray {
            "single-component-image"
        } else if layout.len() == 1 {
            "interleaved"
        } else if layout.len() == 3 {
            "per-component"
        } else {
            "mixed"
        }
    ));
    }
    let n_tbl = if extended || progressive { 4 } else { 2 };
    let pattern = |src: &mut Src| -> Vec<u8> {
        match src.weighted(&[4, 2, if n_tbl >= 3 { 2 } else { 0 }, 2]) {
            0 => vec![0, 1, 1],
            1 => vec![0, 0, 0],
            2 => vec![0, 1, 2],
            _ => (0..3).map(|_| src.below(n_tbl) as u8).collect(),
        }
    };
    let td_of = pattern(src);
    let ta_of = pattern(src);
    let mut scans: Vec<ScanSpec> = if progressive {
        gen_progressive_script(&mut psrc, nc, &td_of, &ta_of, huge.is_some(), &mut classes)
    } else {
        layout.iter().map(|cs| ScanSpec { comps: cs.iter().map(|&c| ScanCompSpec { comp: c, td: td_of[c], ta: ta_of[c] }).collect(), ..Default::default() }).collect()
    };
    let n_scans = scans.len();

    // ---- restart interval -----------------------------------------------------------------
    let (restart_interval, dri_scan): (u16, Option<usize>) = match src.weighted(&[6, 2, 2, 1, 1]) {
        0 => (0, None),
        1 => (src.range(1, 8) as u16, Some(0)),
        2 => (mcus_x as u16, Some(0)),
        3 => (src.range(1, 300) as u16, Some(src.below(n_scans))),
        _ => (if src.bool() { 0 } else { 65535 }, Some(0)),
    };
    // (the longest end-of-band runs need scans without restart markers)
    let (restart_interval, dri_scan) = if huge.is_some() { (0, None) } else { (restart_interval, dri_scan) };
    classes.push(match (restart_interval, dri_scan) {
        (_, None) => "restart:none".into(),
        (0, _) => "restart:dri-zero".to_string(),
        (_, Some(0)) => "restart:all-scans".to_string(),
        _ => "restart:later-scans".to_string(),
    });
    let interval_of_scan: Vec<u16> = (0..n_scans).map(|s| if dri_scan.map(|d| s >= d).unwrap_or(false) { restart_interval } else { 0 }).collect();

    let mut spec = JpegSpec { width: w as u32, height: h as u32, sof_marker: if progressive { 0xc2 } else if extended { 0xc1 } else { 0xc0 }, components, quant_tables, huff_tables: vec![], scans: vec![], restart_interval, segments: vec![], pad_bits: None, tail: vec![] };

    // ---- Huffman table policy (needed early: a progressive file with the typical tables of Annex K
    // has no codes for end-of-band runs longer than one block) -------------------------------------------
    let mut tsrc = Src::new(&table_bytes);
    let huff_mode = tsrc.weighted(&[3, 4, 3]);
    let huff_mode = if huge.is_some() && huff_mode == 0 { 1 } else { huff_mode };

    // ---- progressive: what the scans really transmit; end-of-band run splits; extra ZRL symbols --------
    if progressive {
        spec.scans = std::mem::take(&mut scans);
        let eff = effective_coefficients(&spec);
        for (c, b) in eff.into_iter().enumerate() {
            spec.components[c].blocks = b;
        }
        nonzero_ac_blocks = spec.components.iter().flat_map(|c| c.blocks.iter()).filter(|b| b[1..].iter().any(|&v| v != 0)).count();
        let mut any_split = false;
        let mut any_extra = false;
        for si in 0..spec.scans.len() {
            if spec.scans[si].ss == 0 {
                continue;
            }
            let (order, _) = spec.scan_block_order(si);
            let n = order.len();
            let split_style = if huff_mode == 0 {
                1
            } else if huge.is_some() {
                psrc.weighted(&[6, 0, 0, 1])
            } else {
                psrc.weighted(&[5, 1, 2, 1])
            };
            let extra_style = psrc.chance(80);
            let mut pb = Bulk::new(&mut psrc, n <= 60);
            let mut splits = BTreeSet::new();
            match split_style {
                0 => {}
                1 => splits.extend(1..n as u32),
                2 => {
                    for i in 1..n as u32 {
                        if pb.chance(60) {
                            splits.insert(i);
                        }
                    }
                }
                _ => {
                    // as an encoder with a bounded correction-bit buffer does: every so many blocks
                    let every = 2 + pb.below(40) as u32;
                    splits.extend((1..n as u32).filter(|i| i % every == 0));
                }
            }
            let mut extra = BTreeMap::new();
            if extra_style {
                let sc = &spec.scans[si];
                for (i, &(_, c, bx, by)) in order.iter().enumerate() {
                    let comp = &spec.components[c];
                    let room = zrl_room(&comp.blocks[by * comp.bw + bx], sc);
                    if room > 0 && pb.chance(70) {
                        extra.insert(i as u32, 1 + pb.below(room as usize) as u32);
                    }
                }
            }
            any_split |= !splits.is_empty();
            any_extra |= !extra.is_empty();
            spec.scans[si].eob_splits = splits;
            spec.scans[si].extra_zrl = extra;
        }
        if any_split {
            classes.push("prog:reset-points".into());
        }
        if any_extra {
            classes.push("prog:extra-zero-runs".into());
        }
        scans = std::mem::take(&mut spec.scans);
    }

    // ---- extra ZRL symbols before EOB ---------------------------------------------------------
    if !progressive && src.chance(50) {
        let mut any = false;
        for scan in scans.iter_mut() {
            // block order of this scan (the helper works on `spec.scans`)
            spec.scans = vec![ScanSpec { comps: scan.comps.clone(), ..Default::default() }];
            let (order, _) = spec.scan_block_order(0);
            let mut p = Bulk::new(src, order.len() <= 60);
            for (i, &(_, c, bx, by)) in order.iter().enumerate() {
                let comp = &spec.components[c];
                let blk = &comp.blocks[by * comp.bw + bx];
                let last = (1..64).rev().find(|&k| blk[k] != 0).unwrap_or(0);
                let room = (63 - last) / 16;
                if room > 0 && p.chance(60) {
                    scan.extra_zrl.insert(i as u32, 1 + p.below(room) as u32);
                    any = true;
                }
            }
        }
        if any {
            classes.push("scan:extra-zero-runs".into());
        }
    }
    spec.scans = scans;

    // ---- Huffman tables ---------------------------------------------------------------------
    classes.push(format!("huffman:{}", ["standard", "generated-upfront", "generated-per-scan"][huff_mode]));
    // symbols used by each scan, per (class, destination)
    let mut used: Vec<BTreeMap<(bool, u8), BTreeSet<u8>>> = vec![];
    let mut restarts_expected = 0usize;
    let mut pstats = ScanStats::default();
    for s in 0..n_scans {
        let toks = if progressive {
            match progressive_scan_tokens(&spec, s, interval_of_scan[s]) {
                Ok((t, st)) => {
                    let sc = &spec.scans[s];
                    classes.push(match (sc.ss == 0, sc.ah == 0) {
                        (true, true) => format!("prog:dc-first(al={}){}", sc.al, if sc.comps.len() > 1 { "/interleaved" } else { "" }),
                        (true, false) => format!("prog:dc-refine{}", if sc.comps.len() > 1 { "/interleaved" } else { "" }),
                        (false, true) => format!("prog:ac-first(al={})", sc.al),
                        (false, false) => format!("prog:ac-refine(al={})", sc.al),
                    });
                    pstats.eobrun_max = pstats.eobrun_max.max(st.eobrun_max);
                    pstats.eob_symbols.extend(st.eob_symbols.iter().copied());
                    pstats.zrl_refine += st.zrl_refine;
                    pstats.zrl_refine_with_bits += st.zrl_refine_with_bits;
                    pstats.zrl_first += st.zrl_first;
                    pstats.newly_pos += st.newly_pos;
                    pstats.newly_neg += st.newly_neg;
                    pstats.correction_bits += st.correction_bits;
                    pstats.max_bits_per_symbol = pstats.max_bits_per_symbol.max(st.max_bits_per_symbol);
                    pstats.neg_inexact_shift += st.neg_inexact_shift;
                    pstats.splits_effective += st.splits_effective;
                    pstats.extra_zrl += st.extra_zrl;
                    t
                }
                Err(e) => return failed_case(spec, classes, format!("scan tokens: {e}")),
            }
        } else {
            match scan_tokens(&spec, s, interval_of_scan[s]) {
                Ok(t) => t,
                Err(e) => return failed_case(spec, classes, format!("scan tokens: {e}")),
            }
        };
        let mut m: BTreeMap<(bool, u8), BTreeSet<u8>> = BTreeMap::new();
        for sc in &spec.scans[s].comps {
            // a progressive scan uses DC tables only in a first DC scan, AC tables only in AC scans
            let scan = &spec.scans[s];
            if !progressive || (scan.ss == 0 && scan.ah == 0) {
                m.entry((false, sc.td)).or_default();
            }
            if !progressive || scan.ss > 0 {
                m.entry((true, sc.ta)).or_default();
            }
        }
        for t in toks {
            match t {
                Tok::Sym { ac, tbl, sym } => {
                    m.entry((ac, tbl)).or_default().insert(sym);
                }
                Tok::Restart => restarts_expected += 1,
                _ => {}
            }
        }
        used.push(m);
    }
    if progressive {
        classes.push(format!("prog:scans-{}", match n_scans { 0..=3 => "<=3", 4..=8 => "4-8", 9..=16 => "9-16", _ => ">16" }));
        classes.push(format!("prog:eobrun-max:{}", match pstats.eobrun_max { 0 => "none", 1 => "1", 2..=15 => "2-15", 16..=255 => "16-255", 256..=16383 => "256-16383", 16384..=32766 => "16384-32766", _ => "32767" }));
        for n in &pstats.eob_symbols {
            if *n >= 8 {
                classes.push(format!("prog:eob-symbol-EOB{n}"));
            }
        }
        if pstats.zrl_refine > 0 {
            classes.push("prog:zrl-in-refinement".into());
        }
        if pstats.zrl_refine_with_bits > 0 {
            classes.push("prog:zrl-in-refinement+correction-bits".into());
        }
        if pstats.zrl_first > 0 {
            classes.push("prog:zrl-in-first-scan".into());
        }
        if pstats.newly_pos > 0 && pstats.newly_neg > 0 {
            classes.push("prog:newly-nonzero:both-signs".into());
        }
        if pstats.correction_bits > 0 {
            classes.push(format!("prog:correction-bits{}", if pstats.max_bits_per_symbol >= 8 { "(>=8 per symbol)" } else { "" }));
        }
        if pstats.neg_inexact_shift > 0 {
            classes.push("prog:negative-coefficient-inexact-shift".into());
        }
        if pstats.splits_effective > 0 {
            classes.push("prog:reset-points(effective)".into());
        }
        if pstats.extra_zrl > 0 {
            classes.push("prog:extra-zero-runs(written)".into());
        }
    }
    // DHT groups: (placed before scan index, table indices)
    let mut dht_groups: Vec<(usize, Vec<usize>)> = vec![];
    match huff_mode {
        0 => {
            let mut keys: BTreeSet<(bool, u8)> = BTreeSet::new();
            for m in &used {
                keys.extend(m.keys().copied());
            }
            let mut list = vec![];
            for (ac, id) in keys {
                list.push(spec.huff_tables.len());
                spec.huff_tables.push(std_table(ac, id, id % 2 == 1));
            }
            dht_groups.push((0, list));
        }
        1 => {
            let mut need: BTreeMap<(bool, u8), BTreeSet<u8>> = BTreeMap::new();
            for m in &used {
                for (k, v) in m {
                    need.entry(*k).or_default().extend(v.iter().copied());
                }
            }
            if tsrc.chance(40) {
                // a table no scan refers to
                let k = (tsrc.bool(), tsrc.below(n_tbl) as u8);
                if !need.contains_key(&k) {
                    need.insert(k, BTreeSet::new());
                    classes.push("huffman:unused-table".into());
                }
            }
            let mut list = vec![];
            for ((ac, id), syms) in need {
                list.push(spec.huff_tables.len());
                spec.huff_tables.push(gen_huff_table(&mut tsrc, ac, id, &syms, &mut bclasses));
            }
            shuffle(&mut list, &mut tsrc);
            dht_groups.push((0, list));
        }
        _ => {
            for (s, m) in used.iter().enumerate() {
                let mut list = vec![];
                for ((ac, id), syms) in m {
                    list.push(spec.huff_tables.len());
                    spec.huff_tables.push(gen_huff_table(&mut tsrc, *ac, *id, syms, &mut bclasses));
                }
                shuffle(&mut list, &mut tsrc);
                dht_groups.push((s, list));
            }
            if n_scans > 1 {
                classes.push("huffman:tables-redefined".into());
            }
        }
    }
    // the reconstruction format cannot describe a file with fewer than two Huffman tables
    // (e.g. a progressive file that stops after its DC scans): such a file gets a table no scan uses
    while spec.huff_tables.len() < 2 {
        let have_ac = spec.huff_tables.iter().any(|t| t.ac);
        let id = (0..4u8).find(|&i| !spec.huff_tables.iter().any(|t| t.ac == !have_ac && t.id == i)).unwrap_or(3);
        let k = spec.huff_tables.len();
        spec.huff_tables.push(std_table(!have_ac, id, false));
        match dht_groups.iter_mut().find(|g| g.0 == 0) {
            Some(g) => g.1.push(k),
            None => dht_groups.insert(0, (0, vec![k])),
        }
        classes.push("huffman:padding-table".into());
    }
    // each group as one DHT segment or one segment per table
    let mut dht_segments: Vec<(usize, Vec<usize>)> = vec![];
    for (s, list) in dht_groups {
        if list.is_empty() {
            // (a DC refinement scan needs no table)
            continue;
        }
        if list.len() > 1 && tsrc.bool() {
            for k in list {
                dht_segments.push((s, vec![k]));
            }
        } else {
            dht_segments.push((s, list));
        }
    }
    classes.push(format!("huffman:{}", if dht_segments.len() == 1 { "one-dht" } else { "several-dht" }));

    // ---- metadata and segment order ---------------------------------------------------------
    let mut msrc = Src::new(&meta_bytes);
    let meta = gen_meta(&mut msrc, o, gray, &mut classes);
    let mut head: Vec<Segment> = vec![];
    for d in &dqt_segments {
        head.push(Segment::Dqt(d.clone()));
    }
    head.push(Segment::Sof);
    for (s, l) in &dht_segments {
        if *s == 0 {
            head.push(Segment::Dht(l.clone()));
        }
    }
    if dri_scan == Some(0) {
        head.push(Segment::Dri);
        if restart_interval != 0 && msrc.chance(16) {
            head.push(Segment::Dri);
            classes.push("restart:dri-repeated".into());
        }
    }
    if msrc.chance(170) {
        shuffle(&mut head, &mut msrc);
        classes.push("order:tables-shuffled".into());
    }
    // merge the metadata segments into the table segments, keeping both orders
    let mut segments: Vec<Segment> = vec![];
    if meta.jfif {
        let mut p = b"JFIF\0".to_vec();
        p.extend_from_slice(&[1, 1 + msrc.below(2) as u8, msrc.below(3) as u8, 0, 1 + msrc.below(99) as u8, 0, 1 + msrc.below(99) as u8, 0, 0]);
        segments.push(Segment::App { marker: 0xe0, payload: p, kind: AppKind::Raw });
    }
    let mut late: Vec<Segment> = vec![];
    let (mut hi, mut mi) = (0, 0);
    let early_bias: u32 = msrc.pick(&[250u32, 200, 128]);
    while hi < head.len() || mi < meta.segs.len() {
        let take_meta = mi < meta.segs.len() && (hi >= head.len() || msrc.chance(early_bias));
        if take_meta {
            if n_scans > 1 && msrc.chance(20) {
                // keep it (and, to preserve the order, everything after it) for later
                late.extend(meta.segs[mi..].iter().cloned());
                mi = meta.segs.len();
                classes.push("order:metadata-between-scans".into());
            } else {
                segments.push(meta.segs[mi].clone());
                mi += 1;
            }
        } else {
            segments.push(head[hi].clone());
            hi += 1;
        }
    }
    for s in 0..n_scans {
        if s > 0 {
            let mut mid: Vec<Segment> = vec![];
            for (ds, l) in &dht_segments {
                if *ds == s {
                    mid.push(Segment::Dht(l.clone()));
                }
            }
            if dri_scan == Some(s) {
                mid.push(Segment::Dri);
            }
            if !late.is_empty() && (s + 1 == n_scans || msrc.bool()) {
                mid.append(&mut late);
            }
            shuffle_keep_apps(&mut mid, &mut msrc);
            segments.extend(mid);
        }
        segments.push(Segment::Sos(s));
    }
    // bytes between segments
    for _ in 0..msrc.weighted(&[8, 2, 1]) {
        let at = msrc.below(segments.len() + 1);
        let data = gen_intermarker(&mut msrc, &mut classes);
        // two adjacent runs would be one run in the file
        let prev_unknown = at > 0 && matches!(segments[at - 1], Segment::Unknown(_));
        let next_unknown = at < segments.len() && matches!(segments[at], Segment::Unknown(_));
        if !prev_unknown && !next_unknown {
            segments.insert(at, Segment::Unknown(data));
        }
    }
    spec.segments = segments;
    // ---- tail ---------------------------------------------------------------------
    let tail_n = match msrc.weighted(&[6, 3, 2, 1, 1]) {
        0 => 0,
        1 => msrc.range(1, 16) as usize,
        2 => msrc.range(17, 256) as usize,
        3 => msrc.range(257, 2000) as usize,
        _ => msrc.pick(&[65792usize, 65793, 66000]),
    };
    spec.tail = fill_bytes(&mut msrc, tail_n);
    classes.push(format!("tail:{}", match tail_n { 0 => "none", 1..=256 => "1-256", 257..=65792 => "257-65792", _ => ">65792" }));

    // ---- padding bits ---------------------------------------------------------------------
    let dry = match encode_jpeg(&spec) {
        Ok(e) => e,
        Err(e) => return failed_case(spec, classes, format!("jpeg writer: {e}")),
    };
    let pad_total: usize = dry.pad_lens.iter().map(|&n| n as usize).sum();
    let pad_style = msrc.weighted(&[5, 1, 2, 3]);
    spec.pad_bits = match pad_style {
        0 => None,
        1 => Some(vec![1; pad_total]),
        2 => Some(vec![0; pad_total]),
        _ => Some((0..pad_total).map(|_| msrc.byte() & 1).collect()),
    };
    if pad_style == 3 && msrc.chance(40) {
        // unused bits after the last one needed
        if let Some(b) = spec.pad_bits.as_mut() {
            b.extend((0..msrc.range(1, 9)).map(|_| 1u8));
        }
        classes.push("padding:spare-bits".into());
    }
    classes.push(format!("padding:{}{}", ["implicit-ones", "explicit-ones", "explicit-zeros", "explicit-mixed"][pad_style], if pad_total == 0 { "(no-bits-needed)" } else { "" }));
    let encoded = match encode_jpeg(&spec) {
        Ok(e) => e,
        Err(e) => return failed_case(spec, classes, format!("jpeg writer: {e}")),
    };
    debug_assert_eq!(encoded.restarts, restarts_expected);
    // the writer's output read back by the independent reader must give the same coefficients
    if let Err(e) = roundtrip_check(&spec, &encoded.bytes) {
        return failed_case(spec, classes, format!("jpeg writer self-check: {e}"));
    }
    if encoded.restarts > 0 {
        classes.push(format!("restart:markers-{}", match encoded.restarts { 1..=7 => "1-7", 8 => "8", _ => ">8" }));
    }

    // ---- reconstruction data ---------------------------------------------------------------------
    let jbrd = match JbrdSpec::from_jpeg(&spec, &encoded) {
        Ok(j) => j,
        Err(e) => return failed_case(spec, classes, format!("jbrd: {e}")),
    };

    // ---- codestream ---------------------------------------------------------------------
    let mut xsrc = Src::new(&xcode_bytes);
    let spec_ref = &spec;
    let icc_ref = meta.icc.as_deref();
    let tr = match std::panic::catch_unwind(std::panic::AssertUnwindSafe(|| transcode_codestream(spec_ref, icc_ref, &mut xsrc))) {
        Ok(Ok(t)) => t,
        Ok(Err(e)) => return failed_case(spec, classes, format!("transcode: {e}")),
        Err(_) => {
            // the entropy-code generator can (rarely) give up on a stream; retry with the simplest choices
            let zeros: [u8; 0] = [];
            let mut z = Src::new(&zeros);
            match std::panic::catch_unwind(std::panic::AssertUnwindSafe(|| transcode_codestream(spec_ref, icc_ref, &mut z))) {
                Ok(Ok(t)) => t,
                _ => return failed_case(spec, classes, "codestream writer gave up".into()),
            }
        }
    };
    classes.extend(tr.classes.iter().cloned());

    // ---- container ---------------------------------------------------------------------
    let mut fsrc = Src::new(&file_bytes);
    let (jbrd_payload, jbrd_header_len) = jbrd.payload(&mut fsrc);
    let mut aux: Vec<(RawBox, &'static str)> = vec![];
    let wrap = |ty: &[u8; 4], data: Vec<u8>, fsrc: &mut Src, classes: &mut Vec<String>| -> RawBox {
        let mut b = if fsrc.chance(70) {
            let mut p = ty.to_vec();
            p.extend(brotli_stored(&data, fsrc));
            classes.push("box:brob".into());
            RawBox::new(b"brob", p)
        } else {
            RawBox::new(ty, data)
        };
        if fsrc.chance(30) {
            b.form = SizeForm::S64;
        }
        b
    };
    aux.push((RawBox::new(b"jbrd", jbrd_payload), "jbrd"));
    if fsrc.chance(30) {
        aux[0].0.form = SizeForm::S64;
    }
    if let Some(t) = &meta.exif_tiff {
        let mut p = vec![0, 0, 0, 0];
        if t.len() > 1 && fsrc.chance(30) {
            p[3] = fsrc.below(t.len().min(9)) as u8;
        }
        p.extend_from_slice(t);
        aux.push((wrap(b"Exif", p, &mut fsrc, &mut classes), "Exif"));
    }
    if let Some(t) = &meta.xmp {
        aux.push((wrap(b"xml ", t.clone(), &mut fsrc, &mut classes), "xml"));
    }
    for _ in 0..fsrc.weighted(&[6, 1, 1]) {
        let data = fill_bytes(&mut fsrc, 20);
        aux.push((wrap(b"jumb", data, &mut fsrc, &mut classes), "other"));
    }
    // the usual order is jbrd first; otherwise any order
    let jbrd_first = fsrc.chance(150);
    if !jbrd_first {
        shuffle(&mut aux, &mut fsrc);
    }
    let cs = &tr.codestream;
    let n_parts = if fsrc.chance(150) { 1 } else { fsrc.range(2, 4) as usize };
    let use_jxlc = n_parts == 1 && fsrc.chance(170);
    let mut cuts: Vec<usize> = (0..n_parts - 1)
        .map(|_| {
            if fsrc.bool() {
                let m = tr.marks[fsrc.below(tr.marks.len())] as i64 + fsrc.range_i(-2, 2);
                m.clamp(0, cs.len() as i64) as usize
            } else {
                fsrc.range(0, cs.len() as u64) as usize
            }
        })
        .collect();
    cuts.sort();
    cuts.push(cs.len());
    let mut cs_boxes: Vec<(RawBox, usize, usize)> = vec![];
    let mut prev = 0;
    for (i, &c) in cuts.iter().enumerate() {
        let b = if use_jxlc {
            RawBox::new(b"jxlc", cs[prev..c].to_vec())
        } else {
            let field = i as u32 | if i + 1 == cuts.len() { 0x8000_0000 } else { 0 };
            let mut p = field.to_be_bytes().to_vec();
            p.extend_from_slice(&cs[prev..c]);
            RawBox::new(b"jxlp", p)
        };
        cs_boxes.push((b, prev, c));
        prev = c;
    }
    classes.push(if use_jxlc { "file:jxlc".into() } else { format!("file:jxlp{}", if n_parts > 1 { "-split" } else { "" }) });
    // interleave: codestream boxes keep their order, aux boxes keep theirs
    let layout_kind = fsrc.weighted(&[5, 2, 3]);
    let total = aux.len() + cs_boxes.len();
    let mut is_cs = vec![false; total];
    match layout_kind {
        0 => {
            for f in is_cs.iter_mut().skip(aux.len()) {
                *f = true;
            }
        }
        1 => {
            for f in is_cs.iter_mut().take(cs_boxes.len()) {
                *f = true;
            }
        }
        _ => {
            let mut idx: Vec<usize> = (0..total).collect();
            shuffle(&mut idx, &mut fsrc);
            for &i in idx.iter().take(cs_boxes.len()) {
                is_cs[i] = true;
            }
        }
    }
    let mut boxes: Vec<RawBox> = vec![RawBox::new(b"ftyp", FTYP_PAYLOAD.to_vec())];
    if fsrc.chance(40) {
        boxes.push(RawBox::new(b"jxll", vec![5]));
    }
    let mut jbrd_box = 0;
    let mut cs_map: Vec<(usize, usize, usize)> = vec![];
    let mut offset = SIGNATURE_BOX.len() + boxes.iter().map(|b| b.header().len() + b.payload.len()).sum::<usize>();
    let mut marks: Vec<usize> = vec![SIGNATURE_BOX.len(), offset];
    let (mut ai, mut ci) = (0, 0);
    let mut jbrd_pos = 0usize;
    let mut cs_first_pos = usize::MAX;
    let mut cs_last_pos = 0usize;
    let mut needed_last_pos = 0usize;
    for (k, &c) in is_cs.iter().enumerate() {
        let last = k + 1 == total;
        let mut b;
        if c {
            let (bx, a, e) = &cs_boxes[ci];
            b = bx.clone();
            if last && fsrc.chance(80) {
                b.form = SizeForm::ToEof;
                classes.push("box:to-eof".into());
            }
            let hdr = b.header().len() + if use_jxlc { 0 } else { 4 };
            cs_map.push((*a, *e, offset + hdr));
            cs_first_pos = cs_first_pos.min(k);
            // (the image is complete once the last codestream byte has arrived; empty parts may follow)
            if e > a || *e == 0 {
                cs_last_pos = k;
            }
            ci += 1;
        } else {
            b = aux[ai].0.clone();
            if last && fsrc.chance(60) {
                b.form = SizeForm::ToEof;
                classes.push("box:to-eof".into());
            }
            if aux[ai].1 != "other" {
                needed_last_pos = k;
            }
            if aux[ai].1 == "jbrd" {
                jbrd_box = boxes.len();
                jbrd_pos = k;
                marks.push(offset + b.header().len() + jbrd_header_len);
            }
            ai += 1;
        }
        marks.push(offset);
        marks.push(offset + b.header().len());
        offset += b.header().len() + b.payload.len();
        marks.push(offset);
        boxes.push(b);
    }
    classes.push(format!("file:jbrd-{}", if jbrd_pos < cs_first_pos { "before-codestream" } else if jbrd_pos < cs_last_pos { "inside-codestream" } else { "after-codestream" }));
    let needed_box_after_codestream = needed_last_pos > cs_last_pos;
    for &m in &tr.marks {
        for &(a, e, f) in &cs_map {
            if m > a && m <= e {
                marks.push(f + (m - a));
            }
        }
    }
    marks.sort();
    marks.dedup();
    let jxl = assemble_file(&boxes);
    debug_assert_eq!(jxl.len(), offset);

    classes.extend(bclasses);
    classes.sort();
    classes.dedup();
    let scans_desc = if progressive {
        spec.scans.iter().map(|sc| format!("{:?}:{}-{}/{}{}{}", sc.comps.iter().map(|x| x.comp).collect::<Vec<_>>(), sc.ss, sc.se, sc.ah, sc.al, if sc.eob_splits.is_empty() && sc.extra_zrl.is_empty() { String::new() } else { format!("(splits {}, extra-zrl {})", sc.eob_splits.len(), sc.extra_zrl.len()) })).collect::<Vec<_>>().join(" ")
    } else {
        format!("{layout:?}")
    };
    let desc = format!(
        "{}x{} comps={:?} sof={:#x} scans={} tables(dc,ac)={:?}/{:?} ri={} dri_scan={:?} quant={:?} segments={} tail={} pad={:?} jpeg_len={} jxl_len={}",
        w,
        h,
        spec.components.iter().map(|c| (c.id, c.h, c.v, c.tq, c.bw, c.bh)).collect::<Vec<_>>(),
        spec.sof_marker,
        scans_desc,
        td_of,
        ta_of,
        restart_interval,
        dri_scan,
        spec.quant_tables.iter().map(|q| (q.id, q.precision16)).collect::<Vec<_>>(),
        describe_segments(&spec.segments),
        spec.tail.len(),
        spec.pad_bits.as_ref().map(|b| b.len()),
        encoded.bytes.len(),
        jxl.len()
    );
    JpegCase { jpeg: encoded.bytes.clone(), spec, encoded, jbrd, jxl, boxes, jbrd_box, jbrd_header_len, marks, classes, nonzero_ac_blocks, icc: meta.icc, needed_box_after_codestream, desc, discard: None }
}

/// Shuffles, but keeps the relative order of the APPn / COM segments (ICC chunks are ordered).
fn shuffle_keep_apps(v: &mut Vec<Segment>, src: &mut Src) {
    let apps: Vec<Segment> = v.iter().filter(|s| matches!(s, Segment::App { .. } | Segment::Com(_))).cloned().collect();
    shuffle(v, src);
    let mut it = apps.into_iter();
    for s in v.iter_mut() {
        if matches!(s, Segment::App { .. } | Segment::Com(_)) {
            *s = it.next().unwrap();
        }
    }
}

pub fn describe_segments(segs: &[Segment]) -> String {
    let mut out = String::new();
    for s in segs {
        let t = match s {
            Segment::App { marker, payload, kind } => format!("APP{}[{:?},{}]", marker - 0xe0, kind, payload.len()),
            Segment::Com(p) => format!("COM[{}]", p.len()),
            Segment::Dqt(l) => format!("DQT{l:?}"),
            Segment::Dht(l) => format!("DHT{l:?}"),
            Segment::Sof => "SOF".into(),
            Segment::Dri => "DRI".into(),
            Segment::Sos(s) => format!("SOS{s}"),
            Segment::Unknown(d) => format!("?[{}]", d.len()),
        };
        if !out.is_empty() {
            out.push(' ');
        }
        out.push_str(&t);
    }
    out
}

fn failed_case(spec: JpegSpec, classes: Vec<String>, why: String) -> JpegCase {
    JpegCase { spec, jpeg: vec![], encoded: EncodedJpeg::default(), jbrd: JbrdSpec::default(), jxl: vec![], boxes: vec![], jbrd_box: 0, jbrd_header_len: 0, marks: vec![], classes, nonzero_ac_blocks: 0, icc: None, needed_box_after_codestream: false, desc: String::new(), discard: Some(why) }
}

#[cfg(test)]
mod tests {
    use super::*;

    /// Every generated case is produced (no discard), its JPEG reads back to the generated
    /// coefficients (checked inside the generator), and the reconstruction data describes exactly
    /// the bytes of the JPEG that are neither regenerated from the frame nor stored elsewhere.
    #[test]
    fn generated_cases_are_self_consistent() {
        let mut s = 0x1234_5678_9abc_def1u64;
        let mut next = move || {
            s ^= s << 13;
            s ^= s >> 7;
            s ^= s << 17;
            s
        };
        let mut with_restarts = 0;
        let mut progressive = 0;
        let mut refinement_zrl = 0;
        for case_no in 0..300 {
            let len = (next() % 1500) as usize;
            let choice: Vec<u8> = (0..len).map(|_| (next() >> 24) as u8).collect();
            let mut src = Src::new(&choice);
            let c = gen_jpeg_case(&mut src, &JpegGenOpts::default());
            assert!(c.discard.is_none(), "case {case_no}: {:?}", c.discard);
            assert_eq!(&c.jpeg[..2], &[0xff, 0xd8]);
            assert_eq!(c.jxl, assemble_file(&c.boxes));
            assert_eq!(&c.boxes[c.jbrd_box].ty, b"jbrd");
            // marker list: one entry per segment plus EOI
            assert_eq!(c.jbrd.markers.len(), c.spec.segments.len() + 1);
            assert_eq!(c.jbrd.data_stream().len(), c.jbrd.app_data.len() + c.jbrd.com_data.len() + c.jbrd.intermarker_data.len() + c.spec.tail.len());
            with_restarts += (c.encoded.restarts > 0) as usize;
            if c.spec.sof_marker == 0xc2 {
                progressive += 1;
                // a progressive file holds exactly what its scans transmit
                assert_eq!(effective_coefficients(&c.spec), c.spec.components.iter().map(|x| x.blocks.clone()).collect::<Vec<_>>());
                assert_eq!(c.jbrd.scans.len(), c.spec.scans.len());
                refinement_zrl += c.classes.iter().any(|x| x == "prog:zrl-in-refinement+correction-bits") as usize;
            }
        }
        assert!(with_restarts > 10);
        assert!(progressive > 60 && progressive < 180, "{progressive}");
        assert!(refinement_zrl > 10, "{refinement_zrl}");
    }
}
