//! Whole-file generator: a codestream (from the frame generators) either bare
//! or wrapped in a container with generated box layout, plus structure marks
//! for boundary-aware chunking.

use crate::container::*;
use crate::gen::modular::*;
use crate::src::Src;

pub struct FileCase {
    pub file: Vec<u8>,
    /// file offsets of structure boundaries
    pub marks: Vec<usize>,
    pub container: bool,
    /// (tiff offset field + payload) of the first Exif box, as it must be reported
    pub exif: Option<Vec<u8>>,
    pub xml: Option<Vec<u8>>,
    pub classes: Vec<String>,
    pub codestream_len: usize,
    /// file offset at which each frame's data is complete
    pub frame_ends: Vec<usize>,
    /// file offset of the first byte after the image header (start of first frame)
    pub first_frame_start: usize,
}

/// Codestream-level marks of a case: header end, frame header end, TOC end, section boundaries.
pub fn codestream_marks(header_len: usize, layouts: &[crate::frames::FrameLayout]) -> Vec<usize> {
    let mut m = vec![2, header_len];
    for l in layouts {
        m.push(l.frame_start);
        m.push(l.header_end);
        m.push(l.toc_end);
        for &(off, size) in &l.sections {
            m.push(off);
            m.push(off + size);
        }
        m.push(l.frame_end);
    }
    m.sort();
    m.dedup();
    m
}

fn gen_exif(src: &mut Src) -> Vec<u8> {
    let n = src.range(0, 40) as usize;
    let tiff_off = if n == 0 { 0 } else { src.range(0, (n - 1).min(6) as u64) as u32 };
    let mut v = tiff_off.to_be_bytes().to_vec();
    if src.bool() {
        v.extend_from_slice(b"II*\0");
    }
    for _ in 0..n {
        v.push(src.byte());
    }
    v
}

/// Wraps `codestream` according to generated layout decisions.
pub fn wrap_file(src: &mut Src, codestream: &[u8], cs_marks: &[usize], frame_ends_cs: &[usize], first_frame_cs: usize, allow_container: bool) -> FileCase {
    let mut classes = vec![];
    if !allow_container || src.chance(100) {
        classes.push("file:bare".into());
        return FileCase {
            file: codestream.to_vec(),
            marks: cs_marks.to_vec(),
            container: false,
            exif: None,
            xml: None,
            classes,
            codestream_len: codestream.len(),
            frame_ends: frame_ends_cs.to_vec(),
            first_frame_start: first_frame_cs,
        };
    }
    let mut file = SIGNATURE_BOX.to_vec();
    let mut marks = vec![file.len()];
    let mut push_box = |file: &mut Vec<u8>, marks: &mut Vec<usize>, b: &RawBox| {
        marks.push(file.len());
        marks.push(file.len() + b.header().len());
        b.write(file);
        marks.push(file.len());
    };
    push_box(&mut file, &mut marks, &RawBox::new(b"ftyp", FTYP_PAYLOAD.to_vec()));
    if src.chance(64) {
        push_box(&mut file, &mut marks, &RawBox::new(b"jxll", vec![10]));
    }
    // aux boxes
    let mut exif = None;
    let mut xml = None;
    let mut aux: Vec<RawBox> = vec![];
    let n_aux = src.weighted(&[3, 3, 2, 1]);
    for _ in 0..n_aux {
        let kind = src.below(4);
        let (ty, data): (&[u8; 4], Vec<u8>) = match kind {
            0 => (b"Exif", gen_exif(src)),
            1 => (b"xml ", (0..src.range(0, 60)).map(|_| b'a' + src.byte() % 26).collect()),
            2 => (b"jumb", (0..src.range(0, 30)).map(|_| src.byte()).collect()),
            _ => (b"abcd", (0..src.range(0, 30)).map(|_| src.byte()).collect()),
        };
        if ty == b"Exif" && exif.is_none() {
            exif = Some(data.clone());
        }
        if ty == b"xml " && xml.is_none() {
            xml = Some(data.clone());
        }
        let mut b = if src.chance(90) {
            let mut p = ty.to_vec();
            p.extend(brotli_stored(&data, src));
            classes.push("aux:brob".into());
            RawBox::new(b"brob", p)
        } else {
            RawBox::new(ty, data)
        };
        if src.chance(48) {
            b.form = SizeForm::S64;
        }
        aux.push(b);
    }
    // codestream boxes
    let n_parts = if src.chance(128) { 1 } else { src.range(2, 5) as usize };
    let use_jxlc = n_parts == 1 && src.chance(170);
    let mut cuts: Vec<usize> = if n_parts > 1 {
        (0..n_parts - 1)
            .map(|_| {
                if !cs_marks.is_empty() && src.chance(150) {
                    let m = cs_marks[src.below(cs_marks.len())] as i64 + src.range_i(-2, 2);
                    m.clamp(0, codestream.len() as i64) as usize
                } else {
                    src.range(0, codestream.len() as u64) as usize
                }
            })
            .collect()
    } else {
        vec![]
    };
    cuts.sort();
    let mut parts: Vec<(usize, usize)> = vec![];
    let mut prev = 0;
    for &c in &cuts {
        parts.push((prev, c));
        prev = c;
    }
    parts.push((prev, codestream.len()));
    // interleave: positions of aux boxes among codestream boxes
    let total = parts.len() + aux.len();
    let mut is_cs: Vec<bool> = vec![false; total];
    {
        let mut idx: Vec<usize> = (0..total).collect();
        for i in (1..total).rev() {
            let j = src.below(i + 1);
            idx.swap(i, j);
        }
        for &i in idx.iter().take(parts.len()) {
            is_cs[i] = true;
        }
    }
    // map codestream offsets -> file offsets
    let mut cs_to_file: Vec<(usize, usize, usize)> = vec![]; // (cs_start, cs_end, file_start_of_payload)
    let mut pi = 0;
    let mut ai = 0;
    for (k, &cs) in is_cs.iter().enumerate() {
        let last = k + 1 == total;
        if cs {
            let (a, b) = parts[pi];
            let payload = &codestream[a..b];
            let mut bx = if use_jxlc {
                RawBox::new(b"jxlc", payload.to_vec())
            } else {
                let field = pi as u32 | if pi + 1 == parts.len() { 0x8000_0000 } else { 0 };
                let mut p = field.to_be_bytes().to_vec();
                p.extend_from_slice(payload);
                RawBox::new(b"jxlp", p)
            };
            if last && src.chance(100) {
                bx.form = SizeForm::ToEof;
                classes.push("box:to-eof".into());
            } else if src.chance(40) {
                bx.form = SizeForm::S64;
                classes.push("box:64bit".into());
            }
            let hdr = bx.header().len() + if use_jxlc { 0 } else { 4 };
            marks.push(file.len());
            marks.push(file.len() + hdr);
            cs_to_file.push((a, b, file.len() + hdr));
            bx.write(&mut file);
            marks.push(file.len());
            pi += 1;
        } else {
            let mut b = aux[ai].clone();
            // a metadata box may be the last box and run to the end of the file (size field 0)
            if last && src.tail_fork_bytes(2)[1] % 3 == 0 {
                b.form = SizeForm::ToEof;
                classes.push("aux:to-eof".into());
            }
            push_box(&mut file, &mut marks, &b);
            ai += 1;
        }
    }
    classes.push(if use_jxlc { "file:jxlc".into() } else { format!("file:jxlp{}", if parts.len() > 1 { "-split" } else { "" }) });
    let map = |off: usize| -> usize {
        // first byte *after* codestream offset `off` has arrived
        for &(a, b, f) in &cs_to_file {
            if off > a && off <= b {
                return f + (off - a);
            }
        }
        if off == 0 {
            return cs_to_file.first().map(|x| x.2).unwrap_or(0);
        }
        file.len()
    };
    for &m in cs_marks {
        marks.push(map(m));
    }
    marks.sort();
    marks.dedup();
    let frame_ends = frame_ends_cs.iter().map(|&e| map(e)).collect();
    let first_frame_start = map(first_frame_cs);
    FileCase { file, marks, container: true, exif, xml, classes, codestream_len: codestream.len(), frame_ends, first_frame_start }
}

/// A single-frame Modular file.
pub fn gen_modular_file(src: &mut Src, o: &ModGenOpts) -> (ModularCase, FileCase) {
    let case = gen_modular_case(src, o);
    let marks = codestream_marks(case.header_len, std::slice::from_ref(&case.layout));
    let file = wrap_file(src, &case.bytes, &marks, &[case.layout.frame_end], case.header_len, true);
    (case, file)
}

/// Hand-written file regressions: (case, file) for `fixed_modular_case(k)`, bare codestream.
pub fn fixed_modular_file(k: u8) -> (ModularCase, FileCase) {
    let case = fixed_modular_case(k);
    let marks = codestream_marks(case.header_len, std::slice::from_ref(&case.layout));
    let zeros: [u8; 0] = [];
    let mut src = Src::new(&zeros);
    let file = wrap_file(&mut src, &case.bytes, &marks, &[case.layout.frame_end], case.header_len, false);
    (case, file)
}

// ---------------------------------------------------------------------------
// A corpus entry of any kind (single-frame Modular, multi-frame Modular, VarDCT)

pub struct AnyCase {
    pub bytes: Vec<u8>,
    pub classes: Vec<String>,
    pub layouts: Vec<crate::frames::FrameLayout>,
    pub header_len: usize,
    pub kind: &'static str,
    pub size: (u32, u32),
    pub orientation: u32,
    /// features whose output depends on a pixel neighbourhood or on several tasks
    pub has_parallel_work: bool,
    pub has_neighbourhood_feature: bool,
    pub desc: String,
}

#[derive(Clone, Debug)]
pub struct AnyOpts {
    /// weights of [single-frame Modular, multi-frame Modular, VarDCT]
    pub weights: [u32; 3],
    pub modular: ModGenOpts,
    pub multi: crate::gen::frames::MultiOpts,
    pub vardct: crate::gen::vardct::VarDctGenOpts,
}

impl Default for AnyOpts {
    fn default() -> Self {
        AnyOpts { weights: [3, 2, 3], modular: ModGenOpts { max_dim: 300, multi_group: 40, ..Default::default() }, multi: Default::default(), vardct: Default::default() }
    }
}

pub fn gen_any_case(src: &mut Src, o: &AnyOpts) -> AnyCase {
    match src.weighted(&o.weights) {
        0 => {
            let c = gen_modular_case(src, &o.modular);
            let par = c.classes.iter().any(|x| x == "multi-group" || x == "multi-pass");
            let nb = c.classes.iter().any(|x| x == "multi-group" || x.starts_with("tx:squeeze")) || c.ih.ec_info.iter().any(|e| e.dim_shift > 0);
            let desc = format!("modular {}x{} depth {:?} ec {:?} classes {:?}", c.ih.width, c.ih.height, c.ih.bit_depth, c.ih.ec_info.iter().map(|e| e.dim_shift).collect::<Vec<_>>(), c.classes);
            let mut classes = c.classes.clone();
            classes.push("image:modular-single".into());
            AnyCase { bytes: c.bytes, classes, layouts: vec![c.layout], header_len: c.header_len, kind: "modular", size: (c.ih.width, c.ih.height), orientation: c.ih.orientation, has_parallel_work: par, has_neighbourhood_feature: nb, desc }
        }
        1 => {
            let c = crate::gen::frames::gen_multi_case(src, &o.multi);
            let nb = c.classes.iter().any(|x| x == "crop" || x == "patches");
            let desc = format!("multi-frame {}x{} frames {} keyframes {} classes {:?}", c.ih.width, c.ih.height, c.headers.len(), c.keyframes.len(), c.classes);
            let mut classes = c.classes.clone();
            classes.push("image:multi-frame".into());
            AnyCase { bytes: c.bytes, classes, layouts: c.layouts, header_len: c.header_len, kind: "multi", size: (c.ih.width, c.ih.height), orientation: 1, has_parallel_work: true, has_neighbourhood_feature: nb, desc }
        }
        _ => {
            let c = crate::gen::vardct::gen_vardct_case(src, &o.vardct);
            let desc = format!("vardct {}x{} classes {:?}", c.ih.width, c.ih.height, c.classes);
            let mut classes = c.classes.clone();
            classes.push("image:vardct".into());
            // one layout per frame (ReferenceOnly / LF frames in front of the main frame, as for kind "multi")
            let par = c.num_groups > 1 || c.fh.passes.num_passes > 1 || c.layouts.len() > 1;
            AnyCase { bytes: c.bytes, classes, layouts: c.layouts, header_len: c.header_len, kind: "vardct", size: (c.ih.width, c.ih.height), orientation: c.ih.orientation, has_parallel_work: par, has_neighbourhood_feature: true, desc }
        }
    }
}

pub fn gen_any_file(src: &mut Src, o: &AnyOpts) -> (AnyCase, FileCase) {
    let case = gen_any_case(src, o);
    let marks = codestream_marks(case.header_len, &case.layouts);
    let ends: Vec<usize> = case.layouts.iter().map(|l| l.frame_end).collect();
    let file = wrap_file(src, &case.bytes, &marks, &ends, case.header_len, true);
    (case, file)
}
