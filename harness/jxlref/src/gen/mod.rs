//! Generators: choice sequence -> structured specs.
pub mod frames;
pub mod headers;
pub mod jpeg;
pub mod modular;
pub mod stream;
pub mod vardct;
