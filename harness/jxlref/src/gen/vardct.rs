//! Generator of complete single-frame VarDCT codestreams.  The frame content
//! is generated directly in the quantised domain (varblock layout, LF image,
//! HF coefficients, CfL maps, ...): the point is a corpus of *valid* VarDCT
//! images of many shapes, not compression.

use std::collections::BTreeSet;

use crate::bits::{f32_to_f16_bits, BitWriter};
use crate::frames::*;
use crate::gen::modular::{fill_channel, gen_passes_for_modular, pass_shifts_of};
use crate::headers::*;
use crate::modular::encode::{encode_modular_frame, FrameGeom, ModularOpts};
use crate::models::compositor::{PatchBlend, PatchModel};
use crate::modular::predict::Chan;
use crate::src::Src;
use crate::vardct::*;

#[derive(Clone, Debug)]
pub struct VarDctGenOpts {
    /// upper bound of the "small" dimensions
    pub max_small_dim: usize,
    /// probability (x/256) of a dimension near a group boundary (255..258, 511..514)
    pub boundary: u32,
    /// probability (x/256) of both dimensions near a group boundary
    pub big_square: u32,
    /// probability (x/256) of more than one LF group (one dimension 2049..2060)
    pub multi_lf_group: u32,
    pub dct8_only: bool,
    pub allow_ec: bool,
    pub allow_passes: bool,
    pub allow_non_xyb: bool,
    pub allow_custom_dequant: bool,
    pub allow_upsampling: bool,
    pub allow_permuted_toc: bool,
    /// transforms inside the embedded Modular images (LF, HF metadata)
    pub allow_modular_transforms: bool,
    pub allow_custom_orders: bool,
    pub allow_hf_lz77: bool,
    pub allow_subsampling: bool,
    /// probability (x/256) of noise parameters (frame flag kNoise) on a frame that can carry them
    /// (XYB with three colour channels); 0 = never
    pub noise: u32,
    /// probability (x/256) of a spline dictionary (frame flag kSplines); 0 = never
    pub splines: u32,
    /// probability (x/256) of a patch dictionary (frame flag kPatches) fed by a ReferenceOnly frame
    /// written in front of the main frame; 0 = never
    pub patches: u32,
    /// probability (x/256) of taking the LF from an LF frame (flag use_lf_frame) written in front of
    /// the main frame (only without upsampling and chroma subsampling); 0 = never
    pub lf_frames: u32,
    /// probability (x/256), given an LF frame, that the LF frame itself uses a level-2 LF frame
    pub lf_two_levels: u32,
    /// Adjudication aid, off by default (env `VERIF_VDCT_EXCLUDE=patch-alpha`): no alpha blend modes in patch
    /// dictionaries, so that runs can look past a decoder failure that is being adjudicated.  (The same
    /// variable also takes `noise`, `splines`, `patches`, `lf-frames` to switch a whole feature off when
    /// narrowing a failing case down: the features draw from separate sub-sequences, so removing one leaves
    /// the others as they were.)
    pub exclude_patch_alpha: bool,
}

impl Default for VarDctGenOpts {
    fn default() -> Self {
        let excluded = std::env::var("VERIF_VDCT_EXCLUDE").unwrap_or_default();
        let excluded = |name: &str| excluded.split(',').any(|t| t == name);
        VarDctGenOpts {
            max_small_dim: 70,
            boundary: 14,
            big_square: 8,
            multi_lf_group: 3,
            dct8_only: false,
            allow_ec: true,
            allow_passes: true,
            allow_non_xyb: true,
            allow_custom_dequant: true,
            allow_upsampling: true,
            allow_permuted_toc: true,
            allow_modular_transforms: true,
            allow_custom_orders: true,
            allow_hf_lz77: true,
            allow_subsampling: true,
            noise: if excluded("noise") { 0 } else { 116 },
            splines: if excluded("splines") { 0 } else { 54 },
            patches: if excluded("patches") { 0 } else { 42 },
            lf_frames: if excluded("lf-frames") { 0 } else { 36 },
            lf_two_levels: 56,
            exclude_patch_alpha: excluded("patch-alpha"),
        }
    }
}

pub struct VarDctCase {
    pub ih: ImageHeaderSpec,
    pub fh: FrameHeaderSpec,
    /// complete bare codestream: the main frame (is_last), preceded by the frames it depends on
    /// (ReferenceOnly frame for patches, LF frames) when those features were generated
    pub bytes: Vec<u8>,
    /// layout of the main frame
    pub layout: FrameLayout,
    /// layouts of all frames in file order; the main frame is the last one
    pub layouts: Vec<FrameLayout>,
    /// index of the main frame among all frames of the codestream
    pub main_frame: usize,
    pub header_len: usize,
    pub classes: Vec<String>,
    /// the generated frame content
    pub frame: VarDctFrame,
    pub num_groups: usize,
    pub num_lf_groups: usize,
    pub debug: String,
}

/// Bulk decisions: drawn from the choice sequence directly for small frames
/// (so that shrinking the bytes shrinks the structure), from a generator seeded
/// by the choice sequence for large ones (a choice buffer of a few KiB cannot
/// feed thousands of blocks).
struct Pick<'a, 'b> {
    src: &'a mut Src<'b>,
    state: u64,
    direct: bool,
}

impl<'a, 'b> Pick<'a, 'b> {
    fn new(src: &'a mut Src<'b>, direct: bool) -> Self {
        let state = if direct { 0 } else { src.u64() };
        Pick { src, state, direct }
    }
    fn next(&mut self) -> u64 {
        if self.state == 0 {
            // seed 0 (exhausted choice sequence): the simplest choice everywhere
            return 0;
        }
        self.state ^= self.state << 13;
        self.state ^= self.state >> 7;
        self.state ^= self.state << 17;
        self.state.wrapping_mul(0x2545_f491_4f6c_dd1d) >> 16
    }
    fn below(&mut self, n: usize) -> usize {
        if n <= 1 {
            return 0;
        }
        if self.direct {
            self.src.below(n)
        } else {
            (self.next() % n as u64) as usize
        }
    }
    fn chance(&mut self, num: u32) -> bool {
        if self.direct {
            self.src.chance(num)
        } else {
            self.state != 0 && (self.next() % 256) < num as u64
        }
    }
    fn weighted(&mut self, w: &[u32]) -> usize {
        if self.direct {
            return self.src.weighted(w);
        }
        let total: u32 = w.iter().sum();
        let mut x = (self.next() % total as u64) as u32;
        for (i, &wi) in w.iter().enumerate() {
            if x < wi {
                return i;
            }
            x -= wi;
        }
        w.len() - 1
    }
}

const BOUNDARY_DIMS: [usize; 8] = [255, 256, 257, 258, 511, 512, 513, 514];

fn gen_small_dim(src: &mut Src, o: &VarDctGenOpts) -> usize {
    match src.weighted(&[6, 3, 1]) {
        0 => src.range(8, o.max_small_dim.max(8) as u64) as usize,
        1 => 8 * src.range(1, (o.max_small_dim / 8).max(1) as u64) as usize,
        _ => src.range(1, 7) as usize,
    }
}

fn gen_dims(src: &mut Src, o: &VarDctGenOpts, classes: &mut Vec<String>) -> (usize, usize) {
    if src.chance(o.multi_lf_group) {
        classes.push("dims:multi-lf-group".into());
        let long = 2049 + src.range(0, 11) as usize;
        let short = src.range(1, 24) as usize;
        return if src.bool() { (long, short) } else { (short, long) };
    }
    if src.chance(o.big_square) {
        classes.push("dims:boundary-both".into());
        return (src.pick(&BOUNDARY_DIMS), src.pick(&BOUNDARY_DIMS));
    }
    if src.chance(o.boundary) {
        classes.push("dims:boundary-one".into());
        let b = src.pick(&BOUNDARY_DIMS);
        let s = gen_small_dim(src, o);
        return if src.bool() { (b, s) } else { (s, b) };
    }
    classes.push("dims:small".into());
    (gen_small_dim(src, o), gen_small_dim(src, o))
}

fn f16(v: f32) -> u16 {
    f32_to_f16_bits(v)
}

fn gen_filter(src: &mut Src, classes: &mut Vec<String>) -> RestorationFilterSpec {
    let gab = match src.weighted(&[4, 3, 2]) {
        0 => GaborSpec::Default,
        1 => GaborSpec::Disabled,
        _ => {
            let mut w = [[0u16; 2]; 3];
            for c in &mut w {
                c[0] = f16(0.02 + src.range(0, 200) as f32 / 1000.0);
                c[1] = f16(0.01 + src.range(0, 100) as f32 / 1000.0);
            }
            GaborSpec::Custom(w)
        }
    };
    classes.push(format!("gab:{}", match gab { GaborSpec::Default => "default", GaborSpec::Disabled => "off", GaborSpec::Custom(_) => "custom" }));
    let iters = src.weighted(&[3, 2, 2, 2]) as u32;
    let iters = [2, 0, 1, 3][iters as usize];
    classes.push(format!("epf:{iters}"));
    let epf = if iters == 0 {
        None
    } else {
        let sharp_lut = if src.chance(64) {
            let mut v = [0u16; 8];
            let mut acc = 0.0f32;
            for x in &mut v {
                *x = f16(acc);
                acc += src.range(0, 40) as f32 / 100.0;
            }
            classes.push("epf:custom-sharp-lut".into());
            Some(v)
        } else {
            None
        };
        let channel_scale = if src.chance(64) {
            classes.push("epf:custom-channel-scale".into());
            Some([f16(1.0 + src.range(0, 60) as f32), f16(0.5 + src.range(0, 20) as f32 / 2.0), f16(0.5 + src.range(0, 20) as f32 / 2.0)])
        } else {
            None
        };
        let sigma = if src.chance(64) {
            classes.push("epf:custom-sigma".into());
            Some([f16(0.1 + src.range(0, 100) as f32 / 100.0), f16(0.5 + src.range(0, 100) as f32 / 100.0), f16(3.0 + src.range(0, 50) as f32 / 10.0), f16(0.3 + src.range(0, 70) as f32 / 100.0)])
        } else {
            None
        };
        Some(EpfSpec { iters, sharp_lut, channel_scale, sigma, sigma_for_modular: 0x3c00 })
    };
    RestorationFilterSpec { gab, epf, extensions: ExtensionsSpec::default() }
}

#[derive(Clone, Copy, PartialEq, Debug)]
enum LayoutStyle {
    Dct8Only,
    Mixed,
    PreferLarge,
    SmallTypes,
}

fn gen_layout(p: &mut Pick, bw: usize, bh: usize, style: LayoutStyle, hf_mul_max: u32) -> Vec<VarBlock> {
    let mut occ = vec![false; bw * bh];
    let mut out = vec![];
    for y in 0..bh {
        let mut x = 0;
        while x < bw {
            if occ[y * bw + x] {
                x += 1;
                continue;
            }
            let fits = |ty: usize| {
                let (dw, dh) = TRANSFORM_BLOCKS[ty];
                if x % GROUP_BLOCKS + dw > GROUP_BLOCKS || y % GROUP_BLOCKS + dh > GROUP_BLOCKS || x + dw > bw || y + dh > bh {
                    return false;
                }
                (0..dh).all(|dy| (0..dw).all(|dx| !occ[(y + dy) * bw + x + dx]))
            };
            let ty = match style {
                LayoutStyle::Dct8Only => 0,
                _ => {
                    let mut cands: Vec<usize> = (0..NUM_TRANSFORMS).filter(|&t| fits(t)).collect();
                    match style {
                        LayoutStyle::SmallTypes => {
                            cands.retain(|&t| TRANSFORM_BLOCKS[t] == (1, 1));
                            cands[p.below(cands.len())]
                        }
                        LayoutStyle::PreferLarge => {
                            cands.sort_by_key(|&t| std::cmp::Reverse(TRANSFORM_BLOCKS[t].0 * TRANSFORM_BLOCKS[t].1));
                            let k = p.below(cands.len().min(4));
                            cands[k]
                        }
                        _ => {
                            if p.chance(100) {
                                0
                            } else {
                                cands[p.below(cands.len())]
                            }
                        }
                    }
                }
            };
            let (dw, dh) = TRANSFORM_BLOCKS[ty];
            for dy in 0..dh {
                for dx in 0..dw {
                    occ[(y + dy) * bw + x + dx] = true;
                }
            }
            let hf_mul = if hf_mul_max <= 1 {
                1
            } else {
                match p.weighted(&[4, 2, 1]) {
                    0 => 1 + p.below(hf_mul_max.min(4) as usize) as u32,
                    1 => 1 + p.below(hf_mul_max.min(24) as usize) as u32,
                    _ => 1 + p.below(hf_mul_max as usize) as u32,
                }
            };
            out.push(VarBlock { bx: x, by: y, ty: ty as u8, hf_mul });
            x += dw;
        }
    }
    out
}

/// Non-zero coefficients of one channel of one varblock.
fn gen_block_coeffs(p: &mut Pick, nb: usize, dense_bias: u32, max_mag: i32) -> Vec<(u32, i32)> {
    let size = nb * 64;
    let avail = size - nb;
    let kind = p.weighted(&[10, 12, 3, dense_bias]);
    let mut pos: BTreeSet<u32> = BTreeSet::new();
    match kind {
        0 => {}
        1 => {
            // a few coefficients near the start of the scan
            let n = 1 + p.below(4);
            let span = (8 * nb + 8).min(avail);
            for _ in 0..n {
                pos.insert((nb + p.below(span)) as u32);
            }
        }
        2 => {
            // some coefficients anywhere, including the very last position
            let n = 1 + p.below(avail.min(24));
            for _ in 0..n {
                pos.insert((nb + p.below(avail)) as u32);
            }
            if p.chance(40) {
                pos.insert(size as u32 - 1);
            }
        }
        _ => {
            // dense: a long run from the start; sometimes every position
            let n = if p.chance(90) { avail } else { 1 + p.below(avail) };
            let n = n.min(1500.max(avail.min(63)));
            for k in 0..n {
                pos.insert((nb + k) as u32);
            }
        }
    }
    pos.into_iter()
        .map(|k| {
            let mag = match p.weighted(&[8, 3, 1]) {
                0 => 1,
                1 => 1 + p.below(max_mag.min(7) as usize) as i32,
                _ => 1 + p.below(max_mag as usize) as i32,
            };
            (k, if p.chance(128) { -mag } else { mag })
        })
        .collect()
}

fn gen_order_prefix(p: &mut Pick, size: usize) -> Vec<u32> {
    let skip = size / 64;
    let room = size - skip;
    let m = match p.weighted(&[2, 2, 1]) {
        0 => room.min(2 + p.below(6)),
        1 => room.min(63),
        _ => room.min(1 + p.below(200)),
    };
    let mut v: Vec<u32> = (0..(skip + m) as u32).collect();
    match p.weighted(&[2, 2, 1]) {
        0 => {
            for _ in 0..1 + p.below(4) {
                let a = skip + p.below(m);
                let b = skip + p.below(m);
                v.swap(a, b);
            }
        }
        1 => {
            for i in (skip + 1..skip + m).rev() {
                let j = skip + p.below(i - skip + 1);
                v.swap(i, j);
            }
        }
        _ => v[skip..].reverse(),
    }
    v
}

/// `no_lf_thresholds`: the frame takes its LF from an LF frame.  Which values the LF thresholds of the
/// block context are then compared with is not something the writer can know (there is no quantised
/// LF image in the frame), so such frames get no LF thresholds.
fn gen_block_ctx(src: &mut Src, lf_amp: [i64; 3], hf_mul_max: u32, no_lf_thresholds: bool, classes: &mut Vec<String>) -> BlockCtxSpec {
    if src.chance(150) {
        classes.push("blockctx:default".into());
        return BlockCtxSpec::Default;
    }
    // threshold counts with (n0+1)(n1+1)(n2+1)(nq+1) <= 64
    let mut counts = [0usize; 4];
    let mut prod = 1usize;
    for c in counts.iter_mut() {
        let max = (64 / prod - 1).min(if src.chance(32) { 15 } else { 3 });
        *c = src.range(0, max as u64) as usize;
        prod *= *c + 1;
    }
    // shuffle which dimension got which count so that every dimension sees large counts
    for i in (1..4).rev() {
        let j = src.below(i + 1);
        counts.swap(i, j);
    }
    if no_lf_thresholds {
        counts[0] = 0;
        counts[1] = 0;
        counts[2] = 0;
        prod = counts[3] + 1;
    }
    let mut lf_thr: [Vec<i32>; 3] = [vec![], vec![], vec![]];
    // `lf_amp` is in coded channel order (Y, X, B); thresholds are for X, Y, B
    let amp_xyb = [lf_amp[1], lf_amp[0], lf_amp[2]];
    for c in 0..3 {
        let a = amp_xyb[c].max(1);
        let mut t: Vec<i32> = (0..counts[c]).map(|_| if src.chance(24) { src.range_i(-70000, 70000) as i32 } else { src.range_i(-a, a) as i32 }).collect();
        if !src.chance(16) {
            t.sort();
        }
        lf_thr[c] = t;
    }
    let mut qf_thr: Vec<u32> = (0..counts[3]).map(|_| if src.chance(24) { 1 + src.range(0, 255 + 44) as u32 } else { 1 + src.range(0, hf_mul_max.max(2) as u64 - 1) as u32 }).collect();
    if !src.chance(16) {
        qf_thr.sort();
    }
    let n = 39 * prod;
    let k = match src.weighted(&[2, 3, 2]) {
        0 => 1,
        1 => src.range(1, 4) as usize,
        _ => src.range(1, 16) as usize,
    }
    .min(n);
    let mut map: Vec<u8> = (0..n).map(|_| src.below(k) as u8).collect();
    let mut posv: Vec<usize> = (0..n).collect();
    for id in 0..k {
        let j = id + src.below(n - id);
        posv.swap(id, j);
        map[posv[id]] = id as u8;
    }
    classes.push(format!("blockctx:custom/{}", if prod == 1 { "no-thresholds" } else { "thresholds" }));
    if counts[3] > 0 {
        classes.push("blockctx:qf-thresholds".into());
    }
    if counts[..3].iter().any(|&c| c > 0) {
        classes.push("blockctx:lf-thresholds".into());
    }
    BlockCtxSpec::Custom { lf_thr, qf_thr, map }
}

fn near(src: &mut Src, base: f32, rel: f32) -> u16 {
    let f = 1.0 + rel * (src.range(0, 200) as f32 / 100.0 - 1.0);
    f16(base * f)
}

fn gen_dct_params(src: &mut Src, first: [f32; 3]) -> DctParamsSpec {
    let n = match src.weighted(&[2, 3, 1]) {
        0 => 1,
        1 => src.range(2, 8) as usize,
        _ => src.range(1, 16) as usize,
    };
    let mut v: [Vec<u16>; 3] = [vec![], vec![], vec![]];
    for c in 0..3 {
        // the first value is multiplied by 64 by the decoder
        v[c].push(near(src, first[c] / 64.0, 0.5));
        for _ in 1..n {
            v[c].push(f16(src.range_i(-200, 40) as f32 / 100.0));
        }
    }
    DctParamsSpec { v }
}

fn gen_dequant(src: &mut Src, o: &VarDctGenOpts, used_sets: &[bool], narrow: bool, classes: &mut Vec<String>) -> DequantSetSpec {
    if !o.allow_custom_dequant || src.chance(150) {
        classes.push("dequant:all-default".into());
        return DequantSetSpec::AllDefault;
    }
    let mut v = vec![];
    for i in 0..NUM_DEQUANT_SETS {
        let dims = DEQUANT_DIMS[i];
        // put the effort where it is observable; unused sets still get parsed
        let interesting = used_sets[i] || src.chance(40);
        if !interesting || src.chance(90) {
            v.push(DequantEnc::Library);
            continue;
        }
        let square = dims.0 == dims.1;
        let area = dims.0 * dims.1;
        // RAW for non-square matrices is excluded: the orientation of the coded image is ambiguous (see report)
        let raw_ok = square && area <= 1024 || (square && src.chance(20));
        let mode = if dims == (8, 8) { src.weighted(&[0, 2, 2, 2, 2, 2, 3, if raw_ok { 2 } else { 0 }]) } else { src.weighted(&[0, 0, 0, 0, 0, 0, 3, if raw_ok { 1 } else { 0 }]) };
        let e = match mode {
            1 => DequantEnc::Hornuss(std::array::from_fn(|c| [near(src, [280.0, 60.0, 18.0][c], 0.5), near(src, [3160.0, 864.0, 200.0][c], 0.5), near(src, [3160.0, 864.0, 200.0][c], 0.5)])),
            2 => DequantEnc::Dct2(std::array::from_fn(|c| {
                let base: [f32; 6] = [[3840.0, 2560.0, 1280.0, 640.0, 480.0, 300.0], [960.0, 640.0, 320.0, 180.0, 140.0, 120.0], [640.0, 320.0, 128.0, 64.0, 32.0, 16.0]][c];
                std::array::from_fn(|k| near(src, base[k], 0.5))
            })),
            3 => DequantEnc::Dct4 { params: std::array::from_fn(|_| [near(src, 1.0, 0.5), near(src, 1.0, 0.5)]), dct: gen_dct_params(src, [2200.0, 392.0, 112.0]) },
            4 => DequantEnc::Dct4x8 { params: std::array::from_fn(|_| [near(src, 1.0, 0.5)]), dct: gen_dct_params(src, [2198.0, 764.0, 527.0]) },
            5 => DequantEnc::Afv {
                params: std::array::from_fn(|c| {
                    // the first six are multiplied by 64 by the decoder
                    let base: [f32; 9] = [[48.0, 48.0, 4.0, 4.0, 4.0, 6.5, 0.0, 0.0, 0.0], [16.0, 16.0, 0.78, 0.78, 0.78, 0.9, 0.0, 0.0, 0.0], [6.0, 6.0, 0.19, 0.19, 0.19, 0.34, -0.25, -0.25, -0.25]][c];
                    std::array::from_fn(|k| if k < 6 { near(src, base[k], 0.5) } else { f16(base[k] + src.range_i(-50, 20) as f32 / 100.0) })
                }),
                dct: gen_dct_params(src, [2198.0, 764.0, 527.0]),
                dct4x4: gen_dct_params(src, [2200.0, 392.0, 112.0]),
            },
            6 => {
                let scale = (area as f32 / 64.0).sqrt();
                DequantEnc::Dct(gen_dct_params(src, [3150.0 * scale, 560.0 * scale, 512.0 * scale]))
            }
            7 => {
                // weights = value * denominator, used directly as the multiplier: keep them around 1e-3..1e-1
                let denominator = f16(1.0 / (256.0 + src.range(0, 4000) as f32));
                let hi = if narrow { 2000 } else { 40000 };
                let chans: [Chan; 3] = std::array::from_fn(|_| {
                    let mut c = Chan::new(dims.0, dims.1);
                    fill_channel(src, &mut c, 1, hi);
                    c
                });
                DequantEnc::Raw { denominator, chans }
            }
            _ => DequantEnc::Library,
        };
        classes.push(format!("dequant:mode{}{}", e.mode(), if used_sets[i] { "(used)" } else { "" }));
        v.push(e);
    }
    classes.push("dequant:per-set".into());
    DequantSetSpec::PerSet(v)
}

/// What a frame body needs to know about its surroundings.
struct BodyIn<'a> {
    o: &'a VarDctGenOpts,
    ih: &'a ImageHeaderSpec,
    /// the complete frame header (flags included)
    fh: &'a FrameHeaderSpec,
    /// colour mode: 0 XYB, 1 stored RGB, 2 YCbCr 4:4:4, 3 YCbCr with chroma subsampling
    mode: usize,
    narrow: bool,
    /// Patches / Splines / NoiseParameters bits, which open LfGlobal
    lf_global_prefix: &'a BitWriter,
}

struct Body {
    /// TOC sections in logical order
    sections: Vec<Vec<u8>>,
    frame: VarDctFrame,
    num_groups: usize,
    num_lf_groups: usize,
}

/// Content and sections of one VarDCT frame (everything after the frame header
/// and TOC).  With `use_lf_frame` in the header's flags the LF coefficients are
/// left out of the LF groups.
fn gen_vardct_body(src: &mut Src, b: &BodyIn, classes: &mut Vec<String>) -> Body {
    let (o, ih, fh, mode, narrow) = (b.o, b.ih, b.fh, b.mode, b.narrow);
    let use_lf_frame = fh.use_lf_frame();
    let bit_depth = ih.bit_depth;
    let ec_info = &ih.ec_info;
    let num_passes = fh.passes.num_passes as usize;
    let fg = frame_geometry(fh, ih);
    let (fw, fhh) = (fg.width as usize, fg.height as usize);
    let num_groups = fg.num_groups as usize;
    let num_lf_groups = fg.num_lf_groups as usize;
    assert_eq!(fg.group_dim as usize, GROUP_DIM);

    // ---- quantiser, LF scale ------------------------------------------------
    let global_scale = match src.weighted(&[6, 2, 1, 1]) {
        0 => src.range(2048, 40000) as u32,
        1 => src.range(256, 73728) as u32,
        2 => src.range(1, 255) as u32,
        _ => src.pick(&[1u32, 2048, 2049, 4096, 4097, 8192, 8193, 73728]),
    };
    let quant_lf = match src.weighted(&[3, 4, 2, 1]) {
        0 => 16,
        1 => src.range(1, 64) as u32,
        2 => src.range(1, 1024) as u32,
        _ => src.pick(&[1u32, 32, 33, 256, 257, 65536]),
    };
    let lf_dequant: Option<[u16; 3]> = if src.chance(170) {
        None
    } else {
        classes.push("lf-dequant:custom".into());
        Some([f16(2f32.powi(src.range_i(-7, -3) as i32)), f16(2f32.powi(src.range_i(-4, 0) as i32)), f16(2f32.powi(src.range_i(-3, 1) as i32))])
    };
    let m_lf: [f32; 3] = match lf_dequant {
        None => [1.0 / 32.0, 0.25, 0.5],
        Some(v) => [crate::bits::f16_to_f32(v[0]), crate::bits::f16_to_f32(v[1]), crate::bits::f16_to_f32(v[2])],
    };
    let lf_corr = if src.chance(170) {
        None
    } else {
        classes.push("lf-corr:custom".into());
        Some(LfCorrSpec {
            colour_factor: match src.weighted(&[2, 2, 3, 1]) {
                0 => 84,
                1 => 256,
                2 => src.range(16, 257) as u32,
                _ => src.range(258, 2000) as u32,
            },
            base_correlation_x: f16(src.range_i(-50, 50) as f32 / 100.0),
            base_correlation_b: f16(src.range_i(0, 150) as f32 / 100.0),
            x_factor_lf: src.range(88, 168) as u8,
            b_factor_lf: src.range(88, 168) as u8,
        })
    };

    // ---- per LF group content -----------------------------------------------
    let total_blocks = fw.div_ceil(8) * fhh.div_ceil(8);
    let direct = total_blocks <= 150;
    let style = if o.dct8_only || mode == 3 {
        LayoutStyle::Dct8Only
    } else {
        [LayoutStyle::Mixed, LayoutStyle::PreferLarge, LayoutStyle::SmallTypes, LayoutStyle::Dct8Only][src.weighted(&[6, 3, 2, 1])]
    };
    classes.push(format!("layout:{style:?}"));
    let hf_mul_max = match src.weighted(&[2, 4, 1]) {
        0 => 1,
        1 => 16,
        _ => 256,
    };
    // target magnitude of the dequantised LF per coded channel (Y, X, B)
    let target: [f32; 3] = match mode {
        0 => [0.6, 0.02, 0.15],
        1 => [0.9, 0.9, 0.9],
        _ => [0.45, 0.45, 0.45],
    };
    let q_limit: i64 = if narrow { 3000 } else { 1 << 20 };
    let frame_probe = VarDctFrame { width: fw, height: fhh, jpeg_upsampling: fh.jpeg_upsampling, lf_dequant, global_scale, quant_lf, block_ctx: BlockCtxSpec::Default, lf_corr: lf_corr.clone(), lf_groups: vec![], dequant: DequantSetSpec::AllDefault, num_hf_presets: 1, passes: vec![] };
    let mut lf_groups = vec![];
    let mut lf_amp_seen = [1i64; 3];
    for lg in 0..num_lf_groups {
        let (bw, bh) = frame_probe.lf_group_blocks(lg);
        let extra_precision = src.weighted(&[3, 1, 1, 1]) as u32;
        let coded_m = [m_lf[1], m_lf[0], m_lf[2]]; // Y, X, B
        let lf: [Chan; 3] = std::array::from_fn(|c| {
            let scale = coded_m[c] as f64 * (1u32 << (9 - extra_precision)) as f64 / (global_scale as f64 * quant_lf as f64);
            let amp = ((target[c] as f64 / scale).round() as i64).clamp(1, q_limit);
            lf_amp_seen[c] = lf_amp_seen[c].max(amp);
            let (hs, vs) = frame_probe.shifts([1, 0, 2][c]);
            let mut ch = Chan::with_shift(bw >> hs, bh >> vs, hs as i32, vs as i32);
            // luma (and stored RGB) non-negative, chroma signed
            let (lo, hi) = if (mode == 0 && c == 0) || mode == 1 { (0, amp) } else { (-amp, amp) };
            fill_channel(src, &mut ch, lo, hi);
            ch
        });
        let mut x_from_y = Chan::new(bw.div_ceil(8), bh.div_ceil(8));
        let mut b_from_y = Chan::new(bw.div_ceil(8), bh.div_ceil(8));
        if src.chance(200) {
            let wide = src.chance(24);
            let (lo, hi) = if wide { (-300, 300) } else { (-128, 127) };
            fill_channel(src, &mut x_from_y, lo, hi);
            fill_channel(src, &mut b_from_y, lo, hi);
            classes.push(format!("cfl:{}", if wide { "wide" } else { "generated" }));
        } else {
            classes.push("cfl:zero".into());
        }
        let mut sharpness = Chan::new(bw, bh);
        if src.chance(200) {
            fill_channel(src, &mut sharpness, 0, 7);
            classes.push("sharpness:generated".into());
        }
        let mut p = Pick::new(src, direct);
        let blocks = gen_layout(&mut p, bw, bh, style, hf_mul_max);
        lf_groups.push(LfGroupSpec { bw, bh, extra_precision, lf, x_from_y, b_from_y, blocks, sharpness });
    }
    let mut used_types = [false; NUM_TRANSFORMS];
    let mut used_sets = [false; NUM_DEQUANT_SETS];
    let mut max_mul = 1;
    for g in &lf_groups {
        for b in &g.blocks {
            used_types[b.ty as usize] = true;
            used_sets[DEQUANT_INDEX[b.ty as usize]] = true;
            max_mul = max_mul.max(b.hf_mul);
        }
    }
    for (t, &u) in used_types.iter().enumerate() {
        if u {
            classes.push(format!("tx:{}", TRANSFORM_NAMES[t]));
        }
    }
    classes.push(format!("hf-mul:{}", match max_mul { 1 => "1", 2..=16 => "2-16", _ => "17-256" }));
    let block_ctx = gen_block_ctx(src, lf_amp_seen, hf_mul_max, use_lf_frame, classes);
    let dequant = gen_dequant(src, o, &used_sets, narrow, classes);

    // ---- HF presets, orders, coefficients -----------------------------------
    let max_presets = 1usize << ceil_log2(num_groups);
    let num_hf_presets = if max_presets > 1 && src.chance(128) { src.range(2, max_presets.min(4) as u64) as usize } else { 1 };
    classes.push(format!("presets:{num_hf_presets}"));
    let mut frame = VarDctFrame { width: fw, height: fhh, jpeg_upsampling: fh.jpeg_upsampling, lf_dequant, global_scale, quant_lf, block_ctx, lf_corr, lf_groups, dequant, num_hf_presets, passes: vec![] };
    let max_mag: i32 = if global_scale < 512 { 3 } else if num_passes > 1 { 15 } else { 255 };
    let dense_bias = src.pick(&[0u32, 1, 1, 4]);
    for _ in 0..num_passes {
        let mut orders: Vec<Option<[Vec<u32>; 3]>> = vec![None; 13];
        let mut order_pad = 0;
        if o.allow_custom_orders && src.chance(48) {
            let mut p = Pick::new(src, true);
            for (oid, slot) in orders.iter_mut().enumerate() {
                let used = (0..NUM_TRANSFORMS).any(|t| used_types[t] && ORDER_ID[t] == oid);
                if p.chance(if used { 160 } else { 24 }) {
                    *slot = Some(std::array::from_fn(|_| gen_order_prefix(&mut p, ORDER_COEFFS[oid])));
                    classes.push(format!("orders:id{oid}{}", if used { "(used)" } else { "" }));
                }
            }
            if p.chance(40) {
                order_pad = 1 + p.below(3);
            }
        }
        let lz77 = if o.allow_hf_lz77 && src.chance(20) {
            classes.push("hf:lz77".into());
            Some(crate::entropy::Lz77Params::gen_min_length(src))
        } else {
            None
        };
        let mut groups = vec![];
        let mut p = Pick::new(src, direct);
        let mut any_dense = false;
        let mut any_full = false;
        for g in 0..num_groups {
            let (lg, _, _) = frame.group_place(g);
            let idxs = frame.group_block_indices(g);
            let preset = p.below(num_hf_presets);
            let mut blocks = vec![];
            for &bi in &idxs {
                let b = &frame.lf_groups[lg].blocks[bi];
                let (dw, dh) = TRANSFORM_BLOCKS[b.ty as usize];
                let nb = dw * dh;
                let (bx, by) = (b.bx, b.by);
                let bc: BlockCoeffs = std::array::from_fn(|c| {
                    let (hs, vs) = frame.shifts(c);
                    if ((bx >> hs) << hs, (by >> vs) << vs) != (bx, by) {
                        return vec![];
                    }
                    gen_block_coeffs(&mut p, nb, dense_bias, max_mag)
                });
                for c in &bc {
                    any_dense |= c.len() > 16 * nb;
                    any_full |= c.len() == 63 * nb;
                }
                blocks.push(bc);
            }
            groups.push(GroupCoeffs { preset, blocks });
        }
        if any_dense {
            classes.push("coeff:dense".into());
        }
        if any_full {
            classes.push("coeff:all-nonzero".into());
        }
        frame.passes.push(PassSpec { orders, order_pad, groups, lz77 });
    }

    // ---- Modular side: extra channels ---------------------------------------
    let geom = FrameGeom {
        group_dim: GROUP_DIM,
        groups_per_row: fg.groups_per_row as usize,
        groups_per_col: (fg.num_groups / fg.groups_per_row) as usize,
        lf_groups_per_row: fg.lf_groups_per_row as usize,
        lf_groups_per_col: (fg.num_lf_groups / fg.lf_groups_per_row) as usize,
        pass_shifts: pass_shifts_of(&fh.passes),
    };
    let mut ec_image: Vec<Chan> = vec![];
    for e in ec_info {
        let s = e.dim_shift;
        let cs = |v: usize| (v + (1 << s) - 1) >> s;
        let mut ch = Chan::with_shift(cs(fw), cs(fhh), s as i32, s as i32);
        fill_channel(src, &mut ch, 0, (1i64 << e.bit_depth.bits().min(30)) - 1);
        ec_image.push(ch);
    }
    let range_limit = if narrow { 1 << 15 } else { 1 << 31 };
    let mo_ec = ModularOpts { bit_depth: bit_depth.bits(), range_limit, allow_transforms: true, allow_squeeze: true, allow_rct: true, allow_palette: true, allow_lz77: true, allow_multiplier: false, amplitude: 64 };
    let mbits = encode_modular_frame(src, &ec_image, &geom, &mo_ec);
    for c in &mbits.classes {
        classes.push(format!("ec-modular:{c}"));
    }
    let sub_transforms = o.allow_modular_transforms && src.chance(64);
    if sub_transforms {
        classes.push("sub-modular:transforms-allowed".into());
    }
    let mo_sub = ModularOpts {
        bit_depth: bit_depth.bits(),
        range_limit,
        allow_transforms: sub_transforms,
        // squeeze residuals of generated content can leave the 16-bit range quickly; the generator retries without
        allow_squeeze: true,
        allow_rct: true,
        allow_palette: true,
        allow_lz77: true,
        allow_multiplier: false,
        amplitude: lf_amp_seen.iter().copied().max().unwrap().clamp(4, 1 << 20),
    };

    // ---- write -----------------------------------------------------------------
    let vb = write_vardct_frame(src, &frame, &mo_sub);
    classes.extend(vb.classes.iter().cloned());
    let n_entries = toc_entry_count(fh, ih) as usize;
    let mut sections: Vec<Vec<u8>> = vec![];
    // LfGroup: [LfCoeff unless the LF comes from an LF frame] ModularLfGroup HfMetadata
    let lf_group_bits = |wr: &mut BitWriter, lg: usize| {
        if !use_lf_frame {
            wr.append(&vb.lf_groups[lg].0);
        }
        wr.append(&mbits.lf_groups[lg]);
        wr.append(&vb.lf_groups[lg].1);
    };
    if n_entries == 1 {
        let mut wr = BitWriter::new();
        wr.append(b.lf_global_prefix);
        wr.append(&vb.lf_global);
        wr.append(&mbits.global);
        lf_group_bits(&mut wr, 0);
        wr.append(&vb.hf_global);
        wr.append(&vb.pass_groups[0][0]);
        wr.append(&mbits.pass_groups[0][0]);
        sections.push(wr.finish());
        classes.push("toc:single".into());
    } else {
        let mut wr = BitWriter::new();
        wr.append(b.lf_global_prefix);
        wr.append(&vb.lf_global);
        wr.append(&mbits.global);
        sections.push(wr.finish());
        for lg in 0..num_lf_groups {
            let mut wr = BitWriter::new();
            lf_group_bits(&mut wr, lg);
            sections.push(wr.finish());
        }
        sections.push(vb.hf_global.clone().finish());
        for p in 0..num_passes {
            for g in 0..num_groups {
                let mut wr = BitWriter::new();
                wr.append(&vb.pass_groups[p][g]);
                wr.append(&mbits.pass_groups[p][g]);
                sections.push(wr.finish());
            }
        }
        classes.push("toc:multi".into());
    }
    Body { sections, frame, num_groups, num_lf_groups }
}

// ---------------------------------------------------------------------------
// Noise, splines, patches, LF frames.  All decisions of this part come from
// sub-sequences forked off the *tail* of the choice sequence
// (`Src::tail_fork_bytes`): the decisions of the main frame keep their
// positions, and a case without these features is written exactly as before
// they existed.

fn gen_noise(src: &mut Src, classes: &mut Vec<String>) -> NoiseSpec {
    let kind = src.weighted(&[1, 3, 2, 3]);
    let mut lut = [0u16; 8];
    match kind {
        0 => {}
        1 => {
            for v in &mut lut {
                *v = src.range(0, 64) as u16;
            }
        }
        2 => {
            for v in &mut lut {
                *v = src.range(700, 1023) as u16;
            }
            if src.bool() {
                lut = [1023; 8];
            }
        }
        _ => {
            for v in &mut lut {
                *v = src.range(0, 1023) as u16;
            }
        }
    }
    classes.push(format!("noise:{}", ["zero", "small", "large", "mixed"][kind]));
    NoiseSpec { lut }
}

/// A small spline dictionary for a `fw` x `fhh` frame, or None when the frame
/// is too small to carry one (the number of splines is limited to a quarter and
/// the number of control points to half of the pixel count).
fn gen_splines(src: &mut Src, fw: usize, fhh: usize, classes: &mut Vec<String>) -> Option<SplinesSpec> {
    let pixels = fw * fhh;
    let max_splines = (pixels / 4).min(4);
    if max_splines == 0 {
        return None;
    }
    let n = match src.weighted(&[4, 3, 2, 1]) {
        k => (k + 1).min(max_splines),
    };
    // starting points count against the control-point limit in the reference decoder
    let mut point_budget = (pixels / 2).saturating_sub(n);
    let quant_adjust: i32 = match src.weighted(&[3, 3, 1]) {
        0 => 0,
        1 => src.range_i(-8, 8) as i32,
        _ => src.range_i(-24, 24) as i32,
    };
    let inv_quant: f64 = if quant_adjust >= 0 { 1.0 / (1.0 + quant_adjust as f64 / 8.0) } else { 1.0 - quant_adjust as f64 / 8.0 };
    let (w, h) = (fw as i64, fhh as i64);
    let margin = 12i64;
    let mut splines = vec![];
    let mut total_points = 0;
    for si in 0..n {
        // the first starting point is coded unsigned; later ones may lie slightly outside the frame
        let (sx, sy) = if si == 0 || !src.chance(40) { (src.range_i(0, w - 1), src.range_i(0, h - 1)) } else { (src.range_i(-margin, w - 1 + margin), src.range_i(-margin, h - 1 + margin)) };
        let want = match src.weighted(&[1, 6, 4, 2]) {
            0 => 0,
            1 => src.range(1, 3) as usize,
            2 => src.range(2, 8) as usize,
            _ => 8,
        };
        let extra = want.min(point_budget);
        point_budget -= extra;
        let step = match src.weighted(&[3, 3, 1]) {
            0 => 3,
            1 => 14,
            _ => 48,
        };
        let mut points = vec![(sx, sy)];
        let (mut x, mut y) = (sx, sy);
        for _ in 0..extra {
            let mut nx = (x + src.range_i(-step, step)).clamp(-margin, w - 1 + margin);
            let ny = (y + src.range_i(-step, step)).clamp(-margin, h - 1 + margin);
            if (nx, ny) == (x, y) {
                // consecutive control points must differ
                nx = if x < w - 1 + margin { x + 1 } else { x - 1 };
            }
            (x, y) = (nx, ny);
            points.push((x, y));
        }
        total_points += points.len();
        // colour: DC plus a few low-magnitude AC terms; X, Y, B weights are 0.0042, 0.075, 0.07
        let mut xyb_dct = [[0i32; 32]; 3];
        let dc_amp = [40i64, 12, 12];
        let dense = src.chance(24);
        for (c, dct) in xyb_dct.iter_mut().enumerate() {
            dct[0] = src.range_i(-dc_amp[c], dc_amp[c]) as i32;
            if dense {
                for v in dct.iter_mut().skip(1) {
                    *v = src.range_i(-3, 3) as i32;
                }
            } else {
                for _ in 0..src.weighted(&[3, 2, 1, 1]) {
                    dct[1 + src.below(31)] = src.range_i(-6, 6) as i32;
                }
            }
        }
        // sigma: the dequantised DC term is q0 * inv_quant / 3 (after the sqrt(2) of the continuous
        // IDCT); keep it between 0.25 and about 6 and every AC term small against it, so that sigma stays
        // positive along the whole arc
        let target_sigma = match src.weighted(&[3, 3, 1]) {
            0 => 0.4 + src.range(0, 100) as f64 / 100.0,
            1 => 1.0 + src.range(0, 200) as f64 / 100.0,
            _ => 3.0 + src.range(0, 300) as f64 / 100.0,
        };
        let q0 = ((3.0 * target_sigma / inv_quant).round() as i32).max((0.75 / inv_quant).ceil() as i32).max(1);
        let mut sigma_dct = [0i32; 32];
        sigma_dct[0] = q0;
        let mut ac_budget = q0 / 2;
        for _ in 0..src.weighted(&[4, 2, 1]) {
            if ac_budget == 0 {
                break;
            }
            let mag = src.range(1, ac_budget.min(4) as u64) as i32;
            let k = 1 + src.below(31);
            if sigma_dct[k] == 0 {
                sigma_dct[k] = if src.bool() { mag } else { -mag };
                ac_budget -= mag;
            }
        }
        splines.push(SplineSpec { points, xyb_dct, sigma_dct });
    }
    classes.push(format!("splines:{n}"));
    classes.push(format!("spline-points:{}", match total_points - n { 0 => "0", 1..=4 => "1-4", 5..=12 => "5-12", _ => "13+" }));
    if splines.iter().any(|s| s.points.len() == 1) {
        classes.push("splines:single-point".into());
    }
    if splines.iter().any(|s| s.points.iter().any(|&(x, y)| x < 0 || y < 0 || x >= w || y >= h)) {
        classes.push("splines:outside-frame".into());
    }
    if quant_adjust != 0 {
        classes.push(format!("splines:quant-adjust{}", if quant_adjust < 0 { "<0" } else { ">0" }));
    }
    Some(SplinesSpec { quant_adjust, splines })
}

/// Frame header shared by the frames written in front of the main frame.
fn aux_header(ih: &ImageHeaderSpec, mode: usize, frame_type: FrameTypeSpec, modular: bool) -> FrameHeaderSpec {
    let mut fh = if modular { FrameHeaderSpec::simple_modular(ih) } else { FrameHeaderSpec::all_default_for(ih) };
    fh.frame_type = frame_type;
    fh.is_last = false;
    fh.do_ycbcr = mode >= 2;
    fh
}

/// Sections of an auxiliary frame (ReferenceOnly frame for patches, LF frame).
/// `fh` is complete except for the fields that only matter to the chosen
/// encoding, which are filled in here.
fn gen_aux_frame(src: &mut Src, o: &VarDctGenOpts, ih: &ImageHeaderSpec, fh: &mut FrameHeaderSpec, mode: usize, narrow: bool, classes: &mut Vec<String>) -> Vec<Vec<u8>> {
    if !fh.modular {
        if src.chance(128) {
            fh.restoration_filter = gen_filter(src, classes);
        }
        if src.chance(100) {
            fh.flags |= FLAG_SKIP_ADAPTIVE_LF_SMOOTHING;
        }
        let prefix = BitWriter::new();
        let body = gen_vardct_body(src, &BodyIn { o, ih, fh, mode, narrow, lf_global_prefix: &prefix }, classes);
        return body.sections;
    }
    fh.group_size_shift = src.range(0, 3) as u32;
    let fg = frame_geometry(fh, ih);
    let (fw, fhh) = (fg.width as usize, fg.height as usize);
    let geom = FrameGeom {
        group_dim: fg.group_dim as usize,
        groups_per_row: fg.groups_per_row as usize,
        groups_per_col: (fg.num_groups / fg.groups_per_row) as usize,
        lf_groups_per_row: fg.lf_groups_per_row as usize,
        lf_groups_per_col: (fg.num_lf_groups / fg.lf_groups_per_row) as usize,
        pass_shifts: pass_shifts_of(&fh.passes),
    };
    // colour channels: an XYB Modular frame codes Y, X, B - Y as integers scaled by the LF dequantisation
    // factors (defaults 1/512, 1/4096, 1/256); otherwise integer samples of the image's bit depth
    let bits = ih.bit_depth.bits();
    let ranges: [(i64, i64); 3] = if ih.xyb_encoded { [(0, 300), (-60, 60), (-80, 80)] } else { [(0, (1i64 << bits.min(30)) - 1); 3] };
    let mut chans: Vec<Chan> = vec![];
    for (lo, hi) in ranges {
        let mut c = Chan::new(fw, fhh);
        fill_channel(src, &mut c, lo, hi);
        chans.push(c);
    }
    for e in &ih.ec_info {
        let s = e.dim_shift;
        let cs = |v: usize| (v + (1 << s) - 1) >> s;
        let mut ch = Chan::with_shift(cs(fw), cs(fhh), s as i32, s as i32);
        fill_channel(src, &mut ch, 0, (1i64 << e.bit_depth.bits().min(30)) - 1);
        chans.push(ch);
    }
    let mo = ModularOpts { bit_depth: bits, range_limit: if narrow { 1 << 15 } else { 1 << 31 }, allow_transforms: true, allow_squeeze: true, allow_rct: true, allow_palette: true, allow_lz77: true, allow_multiplier: false, amplitude: 64 };
    let mbits = encode_modular_frame(src, &chans, &geom, &mo);
    let mut wr = BitWriter::new();
    write_lf_global_preamble_plain(&mut wr);
    wr.append(&mbits.global);
    let mut sections: Vec<Vec<u8>> = vec![];
    if toc_entry_count(fh, ih) == 1 {
        wr.append(&mbits.lf_groups[0]);
        wr.append(&mbits.pass_groups[0][0]);
        sections.push(wr.finish());
    } else {
        sections.push(wr.finish());
        for lg in &mbits.lf_groups {
            sections.push(lg.clone().finish());
        }
        sections.push(vec![]);
        for p in &mbits.pass_groups {
            for g in p {
                sections.push(g.clone().finish());
            }
        }
    }
    sections
}

/// Modular coding of colour channels needs integer-valued samples; with 32-bit float samples outside XYB
/// the coded integers would be float bit patterns, which this generator does not produce.
fn aux_modular_ok(ih: &ImageHeaderSpec) -> bool {
    ih.xyb_encoded || matches!(ih.bit_depth, BitDepthSpec::Int { .. })
}

/// Patch dictionary for a `fw` x `fhh` frame taking its patches from a `rw` x `rh` reference frame in
/// `slot` (same rules as the multi-frame Modular generator: alpha blend modes only with an alpha
/// channel, the recorded "alpha hazard" excluded).
fn gen_patch_list(src: &mut Src, o: &VarDctGenOpts, ih: &ImageHeaderSpec, slot: usize, (rw, rh): (usize, usize), (fw, fhh): (usize, usize), classes: &mut Vec<String>) -> Vec<PatchModel> {
    let n_ec = ih.ec_info.len();
    let alpha_ecs: Vec<usize> = ih.ec_info.iter().enumerate().filter(|(_, e)| matches!(e.ty, EcTypeSpec::Alpha { .. })).map(|(i, _)| i).collect();
    let can_alpha = !alpha_ecs.is_empty() && !o.exclude_patch_alpha;
    if !alpha_ecs.is_empty() && o.exclude_patch_alpha {
        classes.push("excluded:patch-alpha".into());
    }
    let np = src.range(1, 3.min((fw * fhh / 16) as u64).max(1)) as usize;
    let mut patches = vec![];
    for _ in 0..np {
        let big = src.chance(40);
        let cap = if big { 24 } else { 8 };
        let pw = src.range(1, rw.min(fw).min(cap) as u64) as usize;
        let ph = src.range(1, rh.min(fhh).min(cap) as u64) as usize;
        let px0 = src.range(0, (rw - pw) as u64) as usize;
        let py0 = src.range(0, (rh - ph) as u64) as usize;
        let nt = src.range(1, 3) as usize;
        let mut targets = vec![];
        for _ in 0..nt {
            let tx = src.range(0, (fw - pw) as u64) as i64;
            let ty = src.range(0, (fhh - ph) as u64) as i64;
            let mut blends = vec![];
            for _ in 0..n_ec + 1 {
                let a = if can_alpha { 2 } else { 0 };
                let mode = src.weighted(&[1, 3, 2, 2, a, a, a, a]) as u32;
                // with a single extra channel the alpha index is not signalled and means channel 0
                let alpha_channel = if mode >= 4 { if n_ec > 1 { alpha_ecs[src.below(alpha_ecs.len())] } else { alpha_ecs[0] } } else { 0 };
                blends.push(PatchBlend { mode, alpha_channel, clamp: if mode >= 3 { src.bool() } else { false } });
            }
            for j in 1..blends.len() {
                let (a, m) = (blends[j].alpha_channel, blends[j].mode);
                if m >= 4 && a < j - 1 && blends[a + 1].mode != 0 {
                    blends[j] = PatchBlend { mode: 2, alpha_channel: 0, clamp: false };
                    classes.push("excluded:patch-alpha-hazard".into());
                }
            }
            targets.push((tx, ty, blends));
        }
        patches.push(PatchModel { ref_slot: slot, x0: px0, y0: py0, w: pw, h: ph, targets });
    }
    if patches.iter().any(|p| p.targets.iter().any(|t| t.2.iter().any(|b| b.mode >= 4))) {
        classes.push("patches:alpha-modes".into());
    }
    if patches.iter().any(|p| p.targets.iter().skip(1).any(|t| t.2.iter().any(|b| b.mode != 0))) {
        classes.push("patches:several-targets".into());
    }
    patches
}

pub fn gen_vardct_case(src: &mut Src, o: &VarDctGenOpts) -> VarDctCase {
    let mut classes: Vec<String> = vec![];
    // decisions about noise / splines / patches / LF frames: see the note above `gen_noise`
    let feature_bytes = src.tail_fork_bytes(128);
    let mut fsrc = Src::new(&feature_bytes);
    let want_noise = fsrc.chance(o.noise);
    let want_splines = fsrc.chance(o.splines);
    let want_patches = fsrc.chance(o.patches);
    let want_lf = fsrc.chance(o.lf_frames);
    let lf_two_levels = fsrc.chance(o.lf_two_levels);
    let aux_order_lf_first = fsrc.bool();
    let noise_bytes = fsrc.fork_bytes(if want_noise { 64 } else { 0 });
    let spline_bytes = fsrc.fork_bytes(if want_splines { 3072 } else { 0 });
    let patch_bytes = fsrc.fork_bytes(if want_patches { 8192 } else { 0 });
    let lf_bytes = [fsrc.fork_bytes(if want_lf { 8192 } else { 0 }), fsrc.fork_bytes(if want_lf { 4096 } else { 0 })];

    // drawn first so that the decision does not starve when the choice sequence runs out
    let permute = o.allow_permuted_toc && src.chance(48);
    let (w, h) = gen_dims(src, o, &mut classes);

    // ---- image header -------------------------------------------------------
    // colour mode: 0 XYB, 1 stored RGB (no transform), 2 YCbCr 4:4:4, 3 YCbCr with chroma subsampling
    let mode = if o.allow_non_xyb { src.weighted(&[6, 2, 2, if o.allow_subsampling { 2 } else { 0 }]) } else { 0 };
    classes.push(format!("colour:{}", ["xyb", "rgb", "ycbcr444", "ycbcr-subsampled"][mode]));
    let narrow = src.bool();
    let gray = mode == 0 && src.chance(30);
    let bit_depth = match src.weighted(&[5, 1, 1, 1]) {
        0 => BitDepthSpec::Int { bits: 8 },
        1 => BitDepthSpec::Int { bits: if narrow { src.range(1, 12) as u32 } else { src.range(1, 16) as u32 } },
        2 => BitDepthSpec::Int { bits: if narrow { 12 } else { 16 } },
        _ => {
            if narrow {
                BitDepthSpec::Int { bits: 10 }
            } else {
                BitDepthSpec::Float { bits: 32, exp_bits: 8 }
            }
        }
    };
    let n_ec = if o.allow_ec { src.weighted(&[8, 2, 1]) } else { 0 };
    let mut ec_info = vec![];
    for _ in 0..n_ec {
        let ty = match src.weighted(&[4, 2, 1]) {
            0 => EcTypeSpec::Alpha { associated: src.bool() },
            1 => EcTypeSpec::Depth,
            _ => EcTypeSpec::Thermal,
        };
        let ebits = BitDepthSpec::Int { bits: if narrow { src.range(1, 12) as u32 } else { src.range(1, 16) as u32 } };
        let dim_shift = if src.chance(190) { 0 } else { src.range(1, 3) as u32 };
        ec_info.push(EcInfoSpec { ty, bit_depth: ebits, dim_shift, name: String::new() });
    }
    classes.push(format!("ec:{n_ec}"));
    let colour_encoding = if gray {
        classes.push("colour:grey".into());
        ColourEncodingSpec::Enum { colour_space: 1, white_point: WhitePointSpec::D65, primaries: PrimariesSpec::Srgb, tf: TfSpec::Srgb, intent: 1 }
    } else if src.chance(40) {
        classes.push("colour:linear".into());
        ColourEncodingSpec::Enum { colour_space: 0, white_point: WhitePointSpec::D65, primaries: PrimariesSpec::Srgb, tf: TfSpec::Linear, intent: 1 }
    } else {
        ColourEncodingSpec::default()
    };
    let ih = ImageHeaderSpec { width: w as u32, height: h as u32, bit_depth, modular_16bit_buffers: narrow, ec_info: ec_info.clone(), xyb_encoded: mode == 0, colour_encoding, ..Default::default() };
    classes.push(format!("buffers:{}", if narrow { "16bit" } else { "32bit" }));

    // ---- frame header -------------------------------------------------------
    let mut fh = FrameHeaderSpec::all_default_for(&ih);
    if !src.chance(40) {
        fh.restoration_filter = gen_filter(src, &mut classes);
    } else {
        classes.push("filter:all-default".into());
    }
    if src.chance(100) {
        fh.flags |= FLAG_SKIP_ADAPTIVE_LF_SMOOTHING;
        classes.push("lf-smoothing:skipped".into());
    }
    if mode == 0 && src.chance(100) {
        fh.x_qm_scale = src.range(0, 7) as u32;
        fh.b_qm_scale = src.range(0, 7) as u32;
        classes.push("qm-scale:custom".into());
    }
    if mode >= 2 {
        fh.do_ycbcr = true;
    }
    if mode == 3 {
        // (Cb, Y, Cr) modes: 1 = full resolution, 2 = full horizontally, 3 = full vertically, 0 = reduced
        fh.jpeg_upsampling = match src.weighted(&[4, 2, 2, 2]) {
            0 => [0, 1, 0],
            1 => [3, 1, 3],
            2 => [2, 1, 2],
            _ => loop {
                let m = [src.range(0, 3) as u32, src.range(0, 3) as u32, src.range(0, 3) as u32];
                if m != [0; 3] {
                    break m;
                }
                if src.exhausted() {
                    break [0, 1, 0];
                }
            },
        };
        classes.push(format!(
            "subsampling:{}",
            match fh.jpeg_upsampling {
                [0, 1, 0] => "420",
                [3, 1, 3] => "422",
                [2, 1, 2] => "440",
                m if m.iter().all(|&x| x == m[0]) => "other/no-channel-reduced",
                m if m[1] != 1 => "other/luma-reduced",
                _ => "other",
            }
        ));
        // adaptive LF smoothing is not defined across differently sampled channels
        fh.flags |= FLAG_SKIP_ADAPTIVE_LF_SMOOTHING;
    }
    if o.allow_upsampling && src.chance(24) {
        fh.upsampling = src.pick(&[2u32, 4, 8]);
        // extra channels keep their own resolution relative to the colour channels
        fh.ec_upsampling = vec![fh.upsampling; n_ec];
        classes.push(format!("upsampling:{}", fh.upsampling));
    }
    if o.allow_passes {
        fh.passes = gen_passes_for_modular(src);
    }
    let num_passes = fh.passes.num_passes as usize;
    classes.push(format!("passes:{num_passes}"));
    let fg = frame_geometry(&fh, &ih);
    let (fw, fhh) = (fg.width as usize, fg.height as usize);

    // ---- noise, splines, patches, LF frames ------------------------------------
    // (frame header, logical sections, permute the TOC) of the frames written in front of the main frame
    let mut aux_frames: Vec<(FrameHeaderSpec, Vec<Vec<u8>>, bool)> = vec![];
    let mut prefix = BitWriter::new();
    let mut feature_debug = String::new();
    // the reference frame comes first in the stream order of LfGlobal's parts: Patches, Splines, Noise
    let mut ref_frame: Option<(FrameHeaderSpec, Vec<Vec<u8>>, bool)> = None;
    if want_patches && fw * fhh >= 16 {
        let mut psrc = Src::new(&patch_bytes);
        let mut scratch = vec![];
        let modular = aux_modular_ok(&ih) && psrc.bool();
        let mut rfh = aux_header(&ih, mode, FrameTypeSpec::ReferenceOnly, modular);
        let (rw, rh) = match psrc.weighted(&[4, 2, 2]) {
            0 => (psrc.range(1, 24) as usize, psrc.range(1, 24) as usize),
            1 => (8 * psrc.range(1, 5) as usize, 8 * psrc.range(1, 5) as usize),
            _ => (w.min(96), h.min(96)),
        };
        if (rw, rh) != (w, h) {
            rfh.crop = Some((0, 0, rw as u32, rh as u32));
        }
        let slot = psrc.range(0, 3) as usize;
        rfh.save_as_reference = slot as u32;
        rfh.save_before_ct = true;
        let sections = gen_aux_frame(&mut psrc, o, &ih, &mut rfh, mode, narrow, &mut scratch);
        let patches = gen_patch_list(&mut psrc, o, &ih, slot, (rw, rh), (fw, fhh), &mut classes);
        crate::gen::frames::write_patches(&mut prefix, &patches, n_ec, &mut psrc);
        fh.flags |= FLAG_PATCHES;
        classes.push("patches".into());
        classes.push(format!("patch-ref:{}", if modular { "modular" } else { "vardct" }));
        if n_ec > 0 {
            classes.push("patches:with-extra-channels".into());
        }
        feature_debug.push_str(&format!(" patches(ref {rw}x{rh} slot {slot} {}): {patches:?}", if modular { "modular" } else { "vardct" }));
        ref_frame = Some((rfh, sections, psrc.chance(40)));
    }
    if want_splines {
        let mut ssrc = Src::new(&spline_bytes);
        if let Some(sp) = gen_splines(&mut ssrc, fw, fhh, &mut classes) {
            let lz77 = if ssrc.chance(80) { Some(crate::entropy::Lz77Params::gen_min_length(&mut ssrc)) } else { None };
            for n in write_splines(&mut prefix, &sp, lz77, &mut ssrc) {
                classes.push(format!("splines:{n}"));
            }
            fh.flags |= FLAG_SPLINES;
            feature_debug.push_str(&format!(" splines: {sp:?}"));
        }
    }
    if want_noise && mode == 0 && !gray {
        let mut nsrc = Src::new(&noise_bytes);
        let noise = gen_noise(&mut nsrc, &mut classes);
        write_noise(&mut prefix, &noise);
        fh.flags |= FLAG_NOISE;
        classes.push("noise".into());
        feature_debug.push_str(&format!(" noise: {:?}", noise.lut));
    }
    let mut lf_frames: Vec<(FrameHeaderSpec, Vec<Vec<u8>>, bool)> = vec![];
    if want_lf && fh.upsampling == 1 && mode != 3 {
        let levels: u32 = if lf_two_levels { 2 } else { 1 };
        // highest level first: that is the order the frames must have in the codestream
        for level in (1..=levels).rev() {
            let mut lsrc = Src::new(&lf_bytes[level as usize - 1]);
            let mut scratch = vec![];
            let uses_lf = level < levels;
            let modular = !uses_lf && aux_modular_ok(&ih) && lsrc.bool();
            let mut lfh = aux_header(&ih, mode, FrameTypeSpec::Lf, modular);
            lfh.lf_level = level;
            if uses_lf {
                lfh.flags |= FLAG_USE_LF_FRAME;
            }
            let sections = gen_aux_frame(&mut lsrc, o, &ih, &mut lfh, mode, narrow, &mut scratch);
            classes.push(format!("lf-frame:level{level}:{}", if modular { "modular" } else { "vardct" }));
            feature_debug.push_str(&format!(" lf-frame(level {level} {})", if modular { "modular" } else { "vardct" }));
            lf_frames.push((lfh, sections, lsrc.chance(40)));
        }
        fh.flags |= FLAG_USE_LF_FRAME;
        classes.push(format!("lf-frame:{levels}"));
    }
    if aux_order_lf_first {
        aux_frames.extend(lf_frames);
        aux_frames.extend(ref_frame);
    } else {
        aux_frames.extend(ref_frame);
        aux_frames.extend(lf_frames);
    }

    // ---- main frame body ----------------------------------------------------------
    let body = gen_vardct_body(src, &BodyIn { o, ih: &ih, fh: &fh, mode, narrow, lf_global_prefix: &prefix }, &mut classes);
    let Body { sections, frame, num_groups, num_lf_groups } = body;

    let mut bytes = write_codestream_start(&ih, None, src);
    let header_len = bytes.len();
    let mut layouts = vec![];
    for (k, (afh, asections, apermute)) in aux_frames.iter().enumerate() {
        // header and TOC coding choices of the frames in front: their own sub-sequence
        let mut asrc = Src::new(&feature_bytes[64 + 16 * k.min(3)..]);
        layouts.push(write_frame(&mut bytes, afh, &ih, asections, *apermute, &mut asrc));
    }
    let main_frame = layouts.len();
    let layout = write_frame(&mut bytes, &fh, &ih, &sections, permute, src);
    layouts.push(layout.clone());
    if layout.permuted {
        classes.push("toc:permuted".into());
    }
    if num_groups > 1 {
        classes.push("multi-group".into());
    }
    if num_lf_groups > 1 {
        classes.push("multi-lf-group".into());
    }
    if main_frame > 0 {
        classes.push(format!("frames:{}", main_frame + 1));
    }
    classes.sort();
    classes.dedup();
    let debug = format!(
        "frame {fw}x{fhh} groups={num_groups} lf_groups={num_lf_groups} gs={} quant_lf={} presets={} blocks={:?}{feature_debug}",
        frame.global_scale,
        frame.quant_lf,
        frame.num_hf_presets,
        frame.lf_groups.iter().map(|g| g.blocks.iter().map(|b| (b.bx, b.by, b.ty, b.hf_mul)).take(40).collect::<Vec<_>>()).collect::<Vec<_>>()
    );
    VarDctCase { ih, fh, bytes, layout, layouts, main_frame, header_len, classes, frame, num_groups, num_lf_groups, debug }
}

#[cfg(test)]
mod tests {
    use super::*;

    fn pseudo(seed: u64, n: usize) -> Vec<u8> {
        let mut s = seed | 1;
        (0..n)
            .map(|_| {
                s ^= s << 13;
                s ^= s >> 7;
                s ^= s << 17;
                (s >> 24) as u8
            })
            .collect()
    }

    /// A choice sequence without the tail-seed trailer (every sequence recorded before noise / splines /
    /// patches / LF frames existed) produces the single-frame stream of a generator with those features off.
    #[test]
    fn no_trailer_means_no_new_features() {
        let off = VarDctGenOpts { noise: 0, splines: 0, patches: 0, lf_frames: 0, ..Default::default() };
        for k in 0..40u64 {
            let data = pseudo(0x1234 + k, 64 + 97 * k as usize);
            let a = gen_vardct_case(&mut Src::new(&data), &VarDctGenOpts::default());
            let b = gen_vardct_case(&mut Src::new(&data), &off);
            assert_eq!(a.bytes, b.bytes, "sequence {k}");
            assert_eq!(a.layouts.len(), 1);
            assert_eq!(a.main_frame, 0);
            assert!(!a.classes.iter().any(|c| c == "noise" || c == "patches" || c.starts_with("splines:") || c.starts_with("lf-frame:")));
        }
    }

    /// With the trailer every feature occurs, the layouts list one entry per frame in file order and the
    /// frames tile the codestream after the image header.
    #[test]
    fn trailer_enables_features_and_layouts_tile_the_stream() {
        let mut seen = [0usize; 4];
        for k in 0..300u64 {
            let mut data = pseudo(0x9876 + k, 700);
            crate::src::append_tail_seed(&mut data, 0x5151_0000_0000 + k * 0x9e37_79b9);
            let c = gen_vardct_case(&mut Src::new(&data), &VarDctGenOpts { multi_lf_group: 0, big_square: 0, boundary: 0, ..Default::default() });
            for (i, name) in ["noise", "patches"].iter().enumerate() {
                seen[i] += c.classes.iter().any(|x| x == name) as usize;
            }
            seen[2] += c.classes.iter().any(|x| x.starts_with("splines:")) as usize;
            seen[3] += c.classes.iter().any(|x| x.starts_with("lf-frame:")) as usize;
            assert_eq!(c.main_frame + 1, c.layouts.len());
            let mut at = c.header_len;
            for l in &c.layouts {
                assert_eq!(l.frame_start, at);
                assert!(l.header_end <= l.toc_end && l.toc_end <= l.frame_end);
                let mut end = l.toc_end;
                for &(off, size) in &l.sections {
                    assert!(off >= l.toc_end && off + size <= l.frame_end);
                    end = end.max(off + size);
                }
                assert_eq!(end, l.frame_end);
                at = l.frame_end;
            }
            assert_eq!(at, c.bytes.len());
            assert_eq!(c.layout.frame_start, c.layouts[c.main_frame].frame_start);
            let aux = c.classes.iter().any(|x| x == "patches") as usize + c.classes.iter().find_map(|x| x.strip_prefix("lf-frame:").and_then(|r| r.parse::<usize>().ok())).unwrap_or(0);
            assert_eq!(c.main_frame, aux);
        }
        assert!(seen.iter().all(|&n| n >= 10), "feature counts {seen:?}");
    }
}
