//! Choice-sequence cursor.  Every generator in this crate draws its decisions
//! from a `Src`, which consumes a plain byte buffer.  An exhausted buffer
//! yields 0 for every draw (the "simplest" choice), so shorter / smaller byte
//! vectors mean simpler structured cases; this is what makes proptest's
//! shrinking of `Vec<u8>` and libFuzzer's mutation work on structured data.

/// Marks a choice sequence that carries a tail seed (see `Src::tail_fork_bytes`).
pub const TAIL_MAGIC: [u8; 2] = [0xa5, 0x5a];

/// Appends the trailer read by `Src::tail_fork_bytes`.
pub fn append_tail_seed(choice: &mut Vec<u8>, seed: u64) {
    choice.extend_from_slice(&seed.to_le_bytes());
    choice.extend_from_slice(&TAIL_MAGIC);
}

#[derive(Clone)]
pub struct Src<'a> {
    data: &'a [u8],
    pos: usize,
}

impl<'a> Src<'a> {
    pub fn new(data: &'a [u8]) -> Self {
        Self { data, pos: 0 }
    }

    pub fn exhausted(&self) -> bool {
        self.pos >= self.data.len()
    }

    pub fn consumed(&self) -> usize {
        self.pos
    }

    pub fn remaining(&self) -> usize {
        self.data.len().saturating_sub(self.pos)
    }

    #[inline]
    pub fn byte(&mut self) -> u8 {
        let b = self.data.get(self.pos).copied().unwrap_or(0);
        self.pos += 1;
        b
    }

    pub fn u16(&mut self) -> u16 {
        let a = self.byte() as u16;
        let b = self.byte() as u16;
        a | (b << 8)
    }

    pub fn u32(&mut self) -> u32 {
        let a = self.u16() as u32;
        let b = self.u16() as u32;
        a | (b << 16)
    }

    pub fn u64(&mut self) -> u64 {
        let a = self.u32() as u64;
        let b = self.u32() as u64;
        a | (b << 32)
    }

    pub fn bool(&mut self) -> bool {
        self.byte() & 1 != 0
    }

    /// true with probability about `num/256`; 0 bytes give `false`.
    pub fn chance(&mut self, num: u32) -> bool {
        let b = self.byte() as u32;
        b != 0 && (256 - b) <= num
    }

    /// Integer in `lo..=hi`, monotone in the drawn bytes (so that shrinking a
    /// byte towards 0 shrinks the value towards `lo`).
    pub fn range(&mut self, lo: u64, hi: u64) -> u64 {
        debug_assert!(lo <= hi);
        let span = hi - lo;
        if span == 0 {
            return lo;
        }
        let v: u128 = if span < 256 {
            let b = self.byte() as u128;
            (b * (span as u128 + 1)) >> 8
        } else if span < 65536 {
            let b = self.u16() as u128;
            (b * (span as u128 + 1)) >> 16
        } else if span < (1u64 << 32) {
            let b = self.u32() as u128;
            (b * (span as u128 + 1)) >> 32
        } else {
            let b = self.u64() as u128;
            (b * (span as u128 + 1)) >> 64
        };
        lo + v as u64
    }

    pub fn range_i(&mut self, lo: i64, hi: i64) -> i64 {
        let span = (hi - lo) as u64;
        lo + self.range(0, span) as i64
    }

    pub fn below(&mut self, n: usize) -> usize {
        if n <= 1 {
            return 0;
        }
        self.range(0, n as u64 - 1) as usize
    }

    pub fn pick<T: Copy>(&mut self, items: &[T]) -> T {
        items[self.below(items.len())]
    }

    /// Weighted pick: index `i` chosen with weight `w[i]`; index 0 is the
    /// simplest choice.
    pub fn weighted(&mut self, w: &[u32]) -> usize {
        let total: u32 = w.iter().sum();
        let mut x = self.range(0, total as u64 - 1) as u32;
        for (i, &wi) in w.iter().enumerate() {
            if x < wi {
                return i;
            }
            x -= wi;
        }
        w.len() - 1
    }

    /// Value of `bits` bits, biased towards small magnitudes / boundary values.
    pub fn bits_biased(&mut self, bits: u32) -> u64 {
        if bits == 0 {
            return 0;
        }
        let max = if bits >= 64 { u64::MAX } else { (1u64 << bits) - 1 };
        match self.weighted(&[4, 3, 2, 1, 1]) {
            0 => self.range(0, max.min(16)),
            1 => self.range(0, max),
            2 => {
                // a power of two +-1
                let k = self.range(0, bits as u64 - 1) as u32;
                let base = 1u64 << k;
                match self.below(3) {
                    0 => base.min(max),
                    1 => (base - 1).min(max),
                    _ => base.saturating_add(1).min(max),
                }
            }
            3 => max,
            _ => max - self.range(0, max.min(4)),
        }
    }

    /// Take up to `n` raw bytes.
    pub fn bytes(&mut self, n: usize) -> Vec<u8> {
        (0..n).map(|_| self.byte()).collect()
    }

    /// Draws a 64-bit seed and expands it to `n` choice bytes for a sub-generator
    /// that must not starve when the main sequence runs out late (seed 0 -> all
    /// zero bytes, i.e. the simplest choices).
    pub fn fork_bytes(&mut self, n: usize) -> Vec<u8> {
        let mut s = self.u64();
        if s == 0 {
            return vec![0; n];
        }
        let mut out = Vec::with_capacity(n);
        while out.len() < n {
            s ^= s << 13;
            s ^= s >> 7;
            s ^= s << 17;
            out.extend_from_slice(&s.to_le_bytes());
        }
        out.truncate(n);
        out
    }

    /// Like `fork_bytes`, but the 64-bit seed is read from a *trailer* at the very
    /// end of the choice buffer (`append_tail_seed`: eight seed bytes followed by
    /// `TAIL_MAGIC`) and the cursor does not move.  Generators use it for
    /// decisions added after replays were recorded: no existing draw shifts, and a
    /// choice sequence without the trailer (every sequence recorded before the
    /// trailer existed) gives all-zero bytes, i.e. "off" for every such decision,
    /// so that it keeps producing exactly the case it produced before.  A zero
    /// seed gives all-zero bytes as well.
    pub fn tail_fork_bytes(&self, n: usize) -> Vec<u8> {
        let len = self.data.len();
        if len < 10 || self.data[len - 2..] != TAIL_MAGIC {
            return vec![0; n];
        }
        let mut s = u64::from_le_bytes(self.data[len - 10..len - 2].try_into().unwrap());
        if s == 0 {
            return vec![0; n];
        }
        // spread short / low-entropy tails over all 64 bits first
        s = s.wrapping_add(0x9e37_79b9_7f4a_7c15);
        s = (s ^ (s >> 30)).wrapping_mul(0xbf58_476d_1ce4_e5b9);
        s = (s ^ (s >> 27)).wrapping_mul(0x94d0_49bb_1331_11eb);
        s ^= s >> 31;
        if s == 0 {
            s = 1;
        }
        let mut out = Vec::with_capacity(n + 8);
        while out.len() < n {
            s ^= s << 13;
            s ^= s >> 7;
            s ^= s << 17;
            out.extend_from_slice(&s.wrapping_mul(0x2545_f491_4f6c_dd1d).to_le_bytes());
        }
        out.truncate(n);
        out
    }
}

#[cfg(test)]
mod tests {
    use super::*;

    #[test]
    fn tail_seed_needs_the_trailer_and_leaves_the_cursor() {
        let plain = [7u8, 200, 13, 0xa5, 0x5a, 1, 2, 3, 4, 5, 6, 7];
        assert!(Src::new(&plain).tail_fork_bytes(32).iter().all(|&b| b == 0));
        assert!(Src::new(&[]).tail_fork_bytes(8).iter().all(|&b| b == 0));
        let mut with = plain.to_vec();
        append_tail_seed(&mut with, 0x0123_4567_89ab_cdef);
        let mut s = Src::new(&with);
        let a = s.tail_fork_bytes(64);
        assert_eq!(s.consumed(), 0);
        assert!(a.iter().any(|&b| b != 0));
        let _ = s.u32();
        assert_eq!(s.tail_fork_bytes(64), a, "independent of the cursor");
        let mut zero = plain.to_vec();
        append_tail_seed(&mut zero, 0);
        assert!(Src::new(&zero).tail_fork_bytes(16).iter().all(|&b| b == 0));
    }
}
