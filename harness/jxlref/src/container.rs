//! ISO-BMFF style container writer for JPEG XL files (ISO/IEC 18181-2), plus a
//! stored-block Brotli writer (RFC 7932 uncompressed meta-blocks) for `brob`.

use crate::bits::BitWriter;
use crate::src::Src;

pub const SIGNATURE_BOX: [u8; 12] = [0, 0, 0, 0x0c, b'J', b'X', b'L', b' ', 0x0d, 0x0a, 0x87, 0x0a];
pub const FTYP_PAYLOAD: [u8; 12] = *b"jxl \0\0\0\0jxl ";

#[derive(Clone, Copy, Debug, PartialEq, Eq)]
pub enum SizeForm {
    /// 32-bit size field.
    S32,
    /// size field 1, followed by a 64-bit size after the type.
    S64,
    /// size field 0: the box runs to the end of the file (last box only).
    ToEof,
}

#[derive(Clone, Debug)]
pub struct RawBox {
    pub ty: [u8; 4],
    pub form: SizeForm,
    /// Bytes after the header, exactly as on the wire.
    pub payload: Vec<u8>,
}

impl RawBox {
    pub fn new(ty: &[u8; 4], payload: Vec<u8>) -> Self {
        RawBox { ty: *ty, form: SizeForm::S32, payload }
    }

    pub fn header(&self) -> Vec<u8> {
        let mut out = vec![];
        match self.form {
            SizeForm::S32 => {
                let size = (self.payload.len() + 8) as u32;
                out.extend_from_slice(&size.to_be_bytes());
                out.extend_from_slice(&self.ty);
            }
            SizeForm::S64 => {
                out.extend_from_slice(&1u32.to_be_bytes());
                out.extend_from_slice(&self.ty);
                let size = (self.payload.len() + 16) as u64;
                out.extend_from_slice(&size.to_be_bytes());
            }
            SizeForm::ToEof => {
                out.extend_from_slice(&0u32.to_be_bytes());
                out.extend_from_slice(&self.ty);
            }
        }
        out
    }

    pub fn write(&self, out: &mut Vec<u8>) {
        out.extend_from_slice(&self.header());
        out.extend_from_slice(&self.payload);
    }
}

/// A box header with an explicitly (possibly wrongly) stated size.
pub fn raw_header_32(size_field: u32, ty: &[u8; 4]) -> Vec<u8> {
    let mut out = size_field.to_be_bytes().to_vec();
    out.extend_from_slice(ty);
    out
}

pub fn raw_header_64(size_field: u64, ty: &[u8; 4]) -> Vec<u8> {
    let mut out = 1u32.to_be_bytes().to_vec();
    out.extend_from_slice(ty);
    out.extend_from_slice(&size_field.to_be_bytes());
    out
}

/// Brotli stream made only of uncompressed meta-blocks.  `cuts` are chunk
/// lengths drawn by the caller (each 1..=65536); remaining data goes in
/// further maximal chunks.  `empty_meta` inserts empty metadata blocks between
/// chunks (legal padding, decodes to nothing).
pub fn brotli_stored(data: &[u8], src: &mut Src) -> Vec<u8> {
    let mut w = BitWriter::new();
    // WBITS: a single 0 bit selects 16; other lengths use the 4/7-bit codes.
    match src.weighted(&[4, 1, 1, 1]) {
        0 => w.bits(0, 1),             // 16
        1 => w.bits(0b0011, 4),        // 18
        2 => w.bits(0b1111, 4),        // 24
        _ => w.bits(0b0100001, 7),     // 10
    }
    let mut pos = 0;
    while pos < data.len() {
        let left = data.len() - pos;
        let maxc = left.min(65536);
        let n = if src.chance(96) { src.range(1, maxc as u64) as usize } else { maxc };
        // ISLAST = 0
        w.bits(0, 1);
        // MNIBBLES: 0 -> 4 nibbles (optionally 5 or 6 when the top nibble is non-zero)
        let mlen1 = (n - 1) as u64;
        w.bits(0, 2);
        w.bits(mlen1, 16);
        // ISUNCOMPRESSED = 1
        w.bits(1, 1);
        w.zero_pad();
        w.append_bytes(&data[pos..pos + n]);
        pos += n;
        if src.chance(24) {
            // empty metadata meta-block: ISLAST=0, MNIBBLES=3, reserved 0, MSKIPBYTES=0, pad
            w.bits(0, 1);
            w.bits(3, 2);
            w.bits(0, 1);
            w.bits(0, 2);
            w.zero_pad();
        }
    }
    // ISLAST = 1, ISLASTEMPTY = 1
    w.bits(1, 1);
    w.bits(1, 1);
    w.finish()
}

/// Split `data` into `n` consecutive pieces at generated cut points (pieces
/// may be empty).
pub fn split_points(len: usize, n: usize, src: &mut Src) -> Vec<usize> {
    let mut cuts: Vec<usize> = (0..n.saturating_sub(1)).map(|_| src.range(0, len as u64) as usize).collect();
    cuts.sort();
    cuts
}
