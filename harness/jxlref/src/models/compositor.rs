//! Reference compositor: applies the frame blending rules of the format
//! (ISO/IEC 18181-1, "Frame blending" and "Patches") to a sequence of decoded
//! frames and yields the canvas at every keyframe.  f32 arithmetic with the
//! formulas written as in the definition.

#[derive(Clone, Debug, PartialEq)]
pub struct Plane {
    pub w: usize,
    pub h: usize,
    pub data: Vec<f32>,
}

impl Plane {
    pub fn zeros(w: usize, h: usize) -> Self {
        Plane { w, h, data: vec![0.0; w * h] }
    }
    #[inline]
    pub fn at(&self, x: usize, y: usize) -> f32 {
        self.data[y * self.w + x]
    }
    /// value at signed coordinates, 0 outside
    pub fn at_or_zero(&self, x: i64, y: i64) -> f32 {
        if x < 0 || y < 0 || x >= self.w as i64 || y >= self.h as i64 {
            0.0
        } else {
            self.data[y as usize * self.w + x as usize]
        }
    }
}

/// 0 Replace, 1 Add, 2 Blend, 3 MulAdd, 4 Mul
#[derive(Clone, Debug, PartialEq)]
pub struct BlendRule {
    pub mode: u32,
    pub alpha_channel: usize,
    pub clamp: bool,
    pub source: usize,
}

/// 0 None, 1 Replace, 2 Add, 3 Mul, 4 BlendAbove, 5 BlendBelow, 6 MulAddAbove, 7 MulAddBelow
#[derive(Clone, Debug, PartialEq)]
pub struct PatchBlend {
    pub mode: u32,
    pub alpha_channel: usize,
    pub clamp: bool,
}

#[derive(Clone, Debug)]
pub struct PatchModel {
    pub ref_slot: usize,
    pub x0: usize,
    pub y0: usize,
    pub w: usize,
    pub h: usize,
    /// (x, y, blending per [colour, ec0, ec1, ...])
    pub targets: Vec<(i64, i64, Vec<PatchBlend>)>,
}

#[derive(Clone, Debug)]
pub struct FrameModel {
    pub reference_only: bool,
    pub x0: i64,
    pub y0: i64,
    pub w: usize,
    pub h: usize,
    /// all channels (colour then extra) at frame size
    pub planes: Vec<Plane>,
    /// one rule per channel (colour channels all carry the main rule)
    pub rules: Vec<BlendRule>,
    pub is_keyframe: bool,
    pub can_reference: bool,
    pub save_as_reference: usize,
    pub patches: Vec<PatchModel>,
}

#[derive(Clone, Debug)]
pub struct StoredImage {
    /// position of the stored image's top-left on the canvas
    pub x0: i64,
    pub y0: i64,
    pub planes: Vec<Plane>,
}

pub struct ImageModel {
    pub w: usize,
    pub h: usize,
    pub n_colour: usize,
    /// per extra channel: Some(premultiplied) if it is an alpha channel
    pub alpha_info: Vec<Option<bool>>,
}

fn clamp01(v: f32) -> f32 {
    v.clamp(0.0, 1.0)
}

/// Blend one sample.  `is_alpha_of_rule`: the channel being blended is the alpha channel named by the rule.
#[allow(clippy::too_many_arguments)]
fn blend_sample(mode: u32, clamp: bool, premultiplied: bool, is_alpha_of_rule: bool, has_alpha: bool, bg: f32, fg: f32, bg_a: f32, fg_a: f32) -> f32 {
    match mode {
        0 => fg,
        1 => bg + fg,
        2 => {
            if !has_alpha {
                return fg;
            }
            if is_alpha_of_rule {
                let f = if clamp { clamp01(fg) } else { fg };
                return bg + f * (1.0 - bg);
            }
            let fa = if clamp { clamp01(fg_a) } else { fg_a };
            if premultiplied {
                fg + bg * (1.0 - fa)
            } else {
                let new_a = 1.0 - (1.0 - fa) * (1.0 - bg_a);
                let rnew_a = if new_a > 0.0 { 1.0 / new_a } else { 0.0 };
                (fa * fg + bg_a * bg * (1.0 - fa)) * rnew_a
            }
        }
        3 => {
            if !has_alpha {
                return bg + fg;
            }
            if is_alpha_of_rule {
                return bg;
            }
            let fa = if clamp { clamp01(fg_a) } else { fg_a };
            bg + fa * fg
        }
        4 => {
            let f = if clamp { clamp01(fg) } else { fg };
            bg * f
        }
        _ => unreachable!(),
    }
}

fn apply_patches(img: &ImageModel, f: &FrameModel, slots: &[Option<StoredImage>; 4]) -> Vec<Plane> {
    let mut planes = f.planes.clone();
    let nc = img.n_colour;
    for p in &f.patches {
        let Some(src) = &slots[p.ref_slot] else { continue };
        for (tx, ty, blends) in &p.targets {
            // all channels see the frame as it was before this target is applied
            let before = planes.clone();
            for c in 0..planes.len() {
                let b = if c < nc { &blends[0] } else { &blends[c - nc + 1] };
                if b.mode == 0 {
                    continue;
                }
                let uses_alpha = b.mode >= 4;
                let a_plane = nc + b.alpha_channel;
                let premult = if uses_alpha { img.alpha_info.get(b.alpha_channel).copied().flatten().unwrap_or(false) } else { false };
                let is_alpha_of_rule = uses_alpha && c == a_plane;
                for dy in 0..p.h {
                    for dx in 0..p.w {
                        let (x, y) = (tx + dx as i64, ty + dy as i64);
                        if x < 0 || y < 0 || x >= f.w as i64 || y >= f.h as i64 {
                            continue;
                        }
                        let (sx, sy) = ((p.x0 + dx) as i64 - src.x0 * 0, (p.y0 + dy) as i64);
                        if sx >= src.planes[c].w as i64 || sy >= src.planes[c].h as i64 {
                            continue;
                        }
                        let patch = src.planes[c].at_or_zero(sx, sy);
                        let cur = before[c].at(x as usize, y as usize);
                        let (patch_a, cur_a) = if uses_alpha && a_plane < before.len() { (src.planes[a_plane].at_or_zero(sx, sy), before[a_plane].at(x as usize, y as usize)) } else { (0.0, 0.0) };
                        let out = match b.mode {
                            1 => patch,
                            2 => cur + patch,
                            3 => blend_sample(4, b.clamp, false, false, false, cur, patch, 0.0, 0.0),
                            // "above": the patch is the foreground
                            4 => blend_sample(2, b.clamp, premult, is_alpha_of_rule, true, cur, patch, cur_a, patch_a),
                            // "below": the patch is the background
                            5 => blend_sample(2, b.clamp, premult, is_alpha_of_rule, true, patch, cur, patch_a, cur_a),
                            6 => blend_sample(3, b.clamp, premult, is_alpha_of_rule, true, cur, patch, cur_a, patch_a),
                            7 => {
                                if is_alpha_of_rule {
                                    patch
                                } else {
                                    blend_sample(3, b.clamp, premult, false, true, patch, cur, patch_a, cur_a)
                                }
                            }
                            _ => unreachable!(),
                        };
                        planes[c].data[y as usize * f.w + x as usize] = out;
                    }
                }
            }
        }
    }
    planes
}

/// Returns the canvas (all channels, image size) at each keyframe, in order.
pub fn compose(img: &ImageModel, frames: &[FrameModel]) -> Vec<Vec<Plane>> {
    let mut slots: [Option<StoredImage>; 4] = [None, None, None, None];
    let mut out = vec![];
    let nc = img.n_colour;
    for f in frames {
        let planes = if f.patches.is_empty() { f.planes.clone() } else { apply_patches(img, f, &slots) };
        if f.reference_only {
            slots[f.save_as_reference] = Some(StoredImage { x0: 0, y0: 0, planes });
            continue;
        }
        let n = planes.len();
        let mut canvas: Vec<Plane> = Vec::with_capacity(n);
        for c in 0..n {
            let rule = &f.rules[c];
            let base_img = &slots[rule.source];
            let uses_alpha = rule.mode == 2 || rule.mode == 3;
            let has_alpha = uses_alpha && !img.alpha_info.is_empty();
            let a_plane = nc + rule.alpha_channel;
            let premult = if has_alpha { img.alpha_info[rule.alpha_channel].unwrap_or(false) } else { false };
            let mut p = Plane::zeros(img.w, img.h);
            for y in 0..img.h {
                for x in 0..img.w {
                    let bg = match base_img {
                        Some(s) => s.planes[c].at_or_zero(x as i64 - s.x0, y as i64 - s.y0),
                        None => 0.0,
                    };
                    let (fx, fy) = (x as i64 - f.x0, y as i64 - f.y0);
                    let inside = fx >= 0 && fy >= 0 && fx < f.w as i64 && fy < f.h as i64;
                    let v = if !inside {
                        bg
                    } else {
                        let fg = planes[c].at(fx as usize, fy as usize);
                        let (bg_a, fg_a) = if has_alpha {
                            let ba = match base_img {
                                Some(s) => s.planes[a_plane].at_or_zero(x as i64 - s.x0, y as i64 - s.y0),
                                None => 0.0,
                            };
                            (ba, planes[a_plane].at(fx as usize, fy as usize))
                        } else {
                            (0.0, 0.0)
                        };
                        blend_sample(rule.mode, rule.clamp, premult, has_alpha && c == a_plane, has_alpha, bg, fg, bg_a, fg_a)
                    };
                    p.data[y * img.w + x] = v;
                }
            }
            canvas.push(p);
        }
        if f.is_keyframe {
            out.push(canvas.clone());
        }
        if f.can_reference {
            slots[f.save_as_reference] = Some(StoredImage { x0: 0, y0: 0, planes: canvas });
        }
    }
    out
}
