//! Reference models (oracles that are not stream writers).

pub mod idct;
pub mod compositor;
