//! Reference model of the 27 JPEG XL varblock inverse transforms, evaluated
//! in f64 straight from their definitions (ISO/IEC 18181-1, "DCT, IDCT and
//! the other varblock transforms").  Written to be obviously right, not fast.
//!
//! Conventions used by *this model* (the check adapts the decoder to them):
//!
//! * A varblock of type `t` covers `bw8 x bh8` 8x8 blocks, i.e. `W = 8*bw8`
//!   columns and `H = 8*bh8` rows of samples.  The format names rectangular
//!   transforms `DCT<rows>x<columns>`: `DCT16x8` (type 6) is 16 rows tall and
//!   8 columns wide.
//! * Coefficients are passed in *natural orientation*: a row-major `W x H`
//!   array in which `coeff[v * W + u]` multiplies the basis function with
//!   horizontal frequency `u` and vertical frequency `v`.  (In the codestream
//!   the coefficients of a block with `rows >= columns` are stored transposed,
//!   so that the longer dimension is horizontal; undoing that belongs to
//!   coefficient decoding, not to the transform.)  For the 8x8 family that is
//!   not a plain DCT (DCT2x2, DCT4x4, DCT4x8, DCT8x4, Hornuss, AFV) the array
//!   is the 8x8 coefficient block exactly as the format's pseudo-code indexes it
//!   (`coefficients(x, y)` = `coeff[y * 8 + x]`).
//! * Samples are returned row-major `W x H`: `out[y * W + x]`.
//!
//! The 1-D basis is the JPEG XL normalisation
//! `b_N(0, x) = 1`, `b_N(k, x) = sqrt(2) * cos(k * pi * (2x + 1) / (2N))`,
//! inverse `f(x) = sum_k F(k) b_N(k, x)`, forward `F(k) = 1/N sum_x f(x) b_N(k, x)`.

use std::f64::consts::{PI, SQRT_2};
use std::sync::OnceLock;

pub const NUM_TYPES: usize = 27;

#[derive(Clone, Copy, Debug, PartialEq, Eq)]
pub enum Family {
    /// Plain separable DCT of W x H samples.
    Dct,
    Hornuss,
    Dct2x2,
    Dct4x4,
    /// two 4-row x 8-column DCTs stacked vertically
    Dct4x8,
    /// two 8-row x 4-column DCTs side by side
    Dct8x4,
    Afv(usize),
}

#[derive(Clone, Copy, Debug)]
pub struct TypeInfo {
    pub name: &'static str,
    /// width in 8x8 blocks
    pub bw8: usize,
    /// height in 8x8 blocks
    pub bh8: usize,
    pub family: Family,
}

/// The DctSelect table of the format (index = coded value).
pub const TYPES: [TypeInfo; NUM_TYPES] = [
    TypeInfo { name: "DCT8x8", bw8: 1, bh8: 1, family: Family::Dct },
    TypeInfo { name: "Hornuss", bw8: 1, bh8: 1, family: Family::Hornuss },
    TypeInfo { name: "DCT2x2", bw8: 1, bh8: 1, family: Family::Dct2x2 },
    TypeInfo { name: "DCT4x4", bw8: 1, bh8: 1, family: Family::Dct4x4 },
    TypeInfo { name: "DCT16x16", bw8: 2, bh8: 2, family: Family::Dct },
    TypeInfo { name: "DCT32x32", bw8: 4, bh8: 4, family: Family::Dct },
    TypeInfo { name: "DCT16x8", bw8: 1, bh8: 2, family: Family::Dct },
    TypeInfo { name: "DCT8x16", bw8: 2, bh8: 1, family: Family::Dct },
    TypeInfo { name: "DCT32x8", bw8: 1, bh8: 4, family: Family::Dct },
    TypeInfo { name: "DCT8x32", bw8: 4, bh8: 1, family: Family::Dct },
    TypeInfo { name: "DCT32x16", bw8: 2, bh8: 4, family: Family::Dct },
    TypeInfo { name: "DCT16x32", bw8: 4, bh8: 2, family: Family::Dct },
    TypeInfo { name: "DCT4x8", bw8: 1, bh8: 1, family: Family::Dct4x8 },
    TypeInfo { name: "DCT8x4", bw8: 1, bh8: 1, family: Family::Dct8x4 },
    TypeInfo { name: "AFV0", bw8: 1, bh8: 1, family: Family::Afv(0) },
    TypeInfo { name: "AFV1", bw8: 1, bh8: 1, family: Family::Afv(1) },
    TypeInfo { name: "AFV2", bw8: 1, bh8: 1, family: Family::Afv(2) },
    TypeInfo { name: "AFV3", bw8: 1, bh8: 1, family: Family::Afv(3) },
    TypeInfo { name: "DCT64x64", bw8: 8, bh8: 8, family: Family::Dct },
    TypeInfo { name: "DCT64x32", bw8: 4, bh8: 8, family: Family::Dct },
    TypeInfo { name: "DCT32x64", bw8: 8, bh8: 4, family: Family::Dct },
    TypeInfo { name: "DCT128x128", bw8: 16, bh8: 16, family: Family::Dct },
    TypeInfo { name: "DCT128x64", bw8: 8, bh8: 16, family: Family::Dct },
    TypeInfo { name: "DCT64x128", bw8: 16, bh8: 8, family: Family::Dct },
    TypeInfo { name: "DCT256x256", bw8: 32, bh8: 32, family: Family::Dct },
    TypeInfo { name: "DCT256x128", bw8: 16, bh8: 32, family: Family::Dct },
    TypeInfo { name: "DCT128x256", bw8: 32, bh8: 16, family: Family::Dct },
];

impl TypeInfo {
    pub fn width(&self) -> usize {
        self.bw8 * 8
    }
    pub fn height(&self) -> usize {
        self.bh8 * 8
    }
    pub fn num_samples(&self) -> usize {
        self.width() * self.height()
    }
    /// True if the lowest-frequency coefficients are a `bw8 x bh8` corner
    /// derived from the LF image by a forward DCT (all plain DCTs above 8x8);
    /// otherwise the single LF sample is coefficient (0, 0).
    pub fn is_plain_dct(&self) -> bool {
        self.family == Family::Dct
    }
}

// ---------------------------------------------------------------------------
// 1-D basis.

/// `b_N(k, x)`, computed from the formula every time.
pub fn basis(n: usize, k: usize, x: usize) -> f64 {
    if k == 0 {
        1.0
    } else {
        SQRT_2 * ((k * (2 * x + 1)) as f64 * PI / (2 * n) as f64).cos()
    }
}

/// Table `t[k * n + x] = b_n(k, x)` (cached per size; entries come from `basis`).
pub fn basis_table(n: usize) -> &'static [f64] {
    static TABLES: [OnceLock<Vec<f64>>; 9] = [const { OnceLock::new() }; 9];
    assert!(n.is_power_of_two() && n <= 256);
    let idx = n.trailing_zeros() as usize;
    TABLES[idx].get_or_init(|| {
        let mut t = vec![0.0; n * n];
        for k in 0..n {
            for x in 0..n {
                t[k * n + x] = basis(n, k, x);
            }
        }
        t
    })
}

/// Separable inverse DCT: `coeff` is `w x h` row-major (u along x), result likewise.
/// out(x, y) = sum_{u, v} coeff(u, v) b_w(u, x) b_h(v, y).
pub fn idct2d(coeff: &[f64], w: usize, h: usize) -> Vec<f64> {
    assert_eq!(coeff.len(), w * h);
    let bw = basis_table(w);
    let bh = basis_table(h);
    // rows: tmp(x, v) = sum_u coeff(u, v) b_w(u, x); all-zero rows are skipped
    let mut tmp = vec![0.0f64; w * h];
    let mut live_rows = vec![];
    for v in 0..h {
        let row = &coeff[v * w..(v + 1) * w];
        if row.iter().all(|&c| c == 0.0) {
            continue;
        }
        live_rows.push(v);
        for (u, &c) in row.iter().enumerate() {
            if c == 0.0 {
                continue;
            }
            for x in 0..w {
                tmp[v * w + x] += c * bw[u * w + x];
            }
        }
    }
    // columns: out(x, y) = sum_v tmp(x, v) b_h(v, y)
    let mut out = vec![0.0f64; w * h];
    for &v in &live_rows {
        for y in 0..h {
            let b = bh[v * h + y];
            for x in 0..w {
                out[y * w + x] += tmp[v * w + x] * b;
            }
        }
    }
    out
}

/// The same sum written as the literal quadruple loop (O(N^4)); used to
/// validate `idct2d` on small sizes.
pub fn idct2d_naive(coeff: &[f64], w: usize, h: usize) -> Vec<f64> {
    let mut out = vec![0.0f64; w * h];
    for y in 0..h {
        for x in 0..w {
            let mut s = 0.0;
            for v in 0..h {
                for u in 0..w {
                    s += coeff[v * w + u] * basis(w, u, x) * basis(h, v, y);
                }
            }
            out[y * w + x] = s;
        }
    }
    out
}

/// Forward DCT: F(u, v) = 1/(w h) sum_{x, y} f(x, y) b_w(u, x) b_h(v, y).
pub fn dct2d(samples: &[f64], w: usize, h: usize) -> Vec<f64> {
    assert_eq!(samples.len(), w * h);
    let mut out = vec![0.0f64; w * h];
    for v in 0..h {
        for u in 0..w {
            let mut s = 0.0;
            for y in 0..h {
                for x in 0..w {
                    s += samples[y * w + x] * basis(w, u, x) * basis(h, v, y);
                }
            }
            out[v * w + u] = s / (w * h) as f64;
        }
    }
    out
}

// ---------------------------------------------------------------------------
// LLF from LF.

/// The factor by which an 8-sample box average attenuates the 1-D basis function of
/// frequency `c` of a length-`b` DCT:
/// 1/8 sum_{i<8} cos(c pi (2 (8j + i) + 1) / (2b)) = ScaleF(c, b) * cos(c pi (2j + 1) / (2 b/8)),
/// ScaleF(c, b) = cos(c pi / (2b)) cos(c pi / b) cos(2 c pi / b).
pub fn scale_f(c: usize, b: usize) -> f64 {
    let t = c as f64 * PI / b as f64;
    (t / 2.0).cos() * t.cos() * (2.0 * t).cos()
}

/// Lowest-frequency coefficients of a plain-DCT varblock from its `bw8 x bh8`
/// LF samples (row-major): the forward DCT of the LF samples, each coefficient
/// divided by the box-average attenuation of its basis function, so that the
/// 8x8 box averages of the reconstructed block reproduce the LF samples when
/// all other coefficients are zero.
pub fn llf_from_lf(t: usize, lf: &[f64]) -> Vec<f64> {
    let ti = &TYPES[t];
    assert_eq!(lf.len(), ti.bw8 * ti.bh8);
    if !ti.is_plain_dct() || ti.bw8 * ti.bh8 == 1 {
        return lf.to_vec();
    }
    let mut f = dct2d(lf, ti.bw8, ti.bh8);
    for v in 0..ti.bh8 {
        for u in 0..ti.bw8 {
            f[v * ti.bw8 + u] /= scale_f(u, ti.width()) * scale_f(v, ti.height());
        }
    }
    f
}

/// Coefficient block after the LLF corner has been overwritten with the values
/// derived from `lf` (what the inverse transform then consumes).
pub fn with_llf(t: usize, coeff: &[f64], lf: &[f64]) -> Vec<f64> {
    let ti = &TYPES[t];
    let w = ti.width();
    assert_eq!(coeff.len(), ti.num_samples());
    let llf = llf_from_lf(t, lf);
    let mut c = coeff.to_vec();
    for v in 0..ti.bh8 {
        for u in 0..ti.bw8 {
            c[v * w + u] = llf[v * ti.bw8 + u];
        }
    }
    c
}

// ---------------------------------------------------------------------------
// The 8x8 family.

/// One level of the 2x2 pyramid ("AuxIDCT2x2(block, S)"): the top-left S x S
/// corner is replaced; each 2x2 output cell mixes the four coefficients at
/// (x, y), (x + S/2, y), (x, y + S/2), (x + S/2, y + S/2).
fn aux_idct2x2(block: &mut [f64; 64], s: usize) {
    let n = s / 2;
    let src = *block;
    let at = |x: usize, y: usize| src[y * 8 + x];
    for y in 0..n {
        for x in 0..n {
            let c00 = at(x, y);
            let c01 = at(x + n, y);
            let c10 = at(x, y + n);
            let c11 = at(x + n, y + n);
            let r00 = c00 + c01 + c10 + c11;
            let r01 = c00 + c01 - c10 - c11;
            let r10 = c00 - c01 + c10 - c11;
            let r11 = c00 - c01 - c10 + c11;
            block[(2 * y) * 8 + 2 * x] = r00;
            block[(2 * y) * 8 + 2 * x + 1] = r01;
            block[(2 * y + 1) * 8 + 2 * x] = r10;
            block[(2 * y + 1) * 8 + 2 * x + 1] = r11;
        }
    }
}

fn to64(coeff: &[f64]) -> [f64; 64] {
    let mut b = [0.0; 64];
    b.copy_from_slice(coeff);
    b
}

fn inv_dct2x2(coeff: &[f64]) -> Vec<f64> {
    let mut b = to64(coeff);
    aux_idct2x2(&mut b, 2);
    aux_idct2x2(&mut b, 4);
    aux_idct2x2(&mut b, 8);
    b.to_vec()
}

/// The four DC-like values of DCT4x4 / Hornuss: AuxIDCT2x2 with S = 2 of the
/// top-left 2x2 coefficients; `dcs[y][x]` belongs to the 4x4 quadrant (x, y).
fn quadrant_dcs(coeff: &[f64]) -> [[f64; 2]; 2] {
    let mut b = to64(coeff);
    aux_idct2x2(&mut b, 2);
    [[b[0], b[1]], [b[8], b[9]]]
}

fn inv_dct4x4(coeff: &[f64]) -> Vec<f64> {
    let dcs = quadrant_dcs(coeff);
    let mut out = vec![0.0; 64];
    for y in 0..2 {
        for x in 0..2 {
            // The quadrant's 4x4 coefficients are interleaved: (x + 2 ix, y + 2 iy).
            // As for every transform with rows >= columns, the 4x4 block is held
            // transposed: index iy (stepping down the 8x8 array) is the *horizontal*
            // frequency, ix the vertical one.
            let mut blk = [0.0f64; 16]; // natural orientation: blk[v * 4 + u]
            for iy in 0..4 {
                for ix in 0..4 {
                    let c = if ix == 0 && iy == 0 { dcs[y][x] } else { coeff[(y + 2 * iy) * 8 + x + 2 * ix] };
                    let (u, v) = (iy, ix);
                    blk[v * 4 + u] = c;
                }
            }
            let px = idct2d(&blk, 4, 4);
            for py in 0..4 {
                for pxx in 0..4 {
                    out[(4 * y + py) * 8 + 4 * x + pxx] = px[py * 4 + pxx];
                }
            }
        }
    }
    out
}

fn inv_hornuss(coeff: &[f64]) -> Vec<f64> {
    let dcs = quadrant_dcs(coeff);
    let mut out = vec![0.0; 64];
    for y in 0..2 {
        for x in 0..2 {
            let at = |ix: usize, iy: usize| coeff[(y + 2 * iy) * 8 + x + 2 * ix];
            let mut residual_sum = 0.0;
            for iy in 0..4 {
                for ix in 0..4 {
                    if ix == 0 && iy == 0 {
                        continue;
                    }
                    residual_sum += at(ix, iy);
                }
            }
            // the quadrant's mean is dcs; sample (1, 1) carries no residual of its own
            let sample11 = dcs[y][x] - residual_sum / 16.0;
            for iy in 0..4 {
                for ix in 0..4 {
                    let v = if ix == 1 && iy == 1 {
                        sample11
                    } else if ix == 0 && iy == 0 {
                        // the residual of sample (0, 0) is stored where (1, 1)'s would be
                        at(1, 1) + sample11
                    } else {
                        at(ix, iy) + sample11
                    };
                    out[(4 * y + iy) * 8 + 4 * x + ix] = v;
                }
            }
        }
    }
    out
}

/// DCT4x8 (`tall_halves == false`): two 4-row x 8-column blocks stacked
/// vertically; DCT8x4 (`true`): two 8-row x 4-column blocks side by side.
/// Both read their coefficients the same way: half `i` uses rows `i, i+2, i+4, i+6`
/// of the 8x8 array as a 4 x 8 array whose 8-long axis is the frequency along the
/// half's long side, with DC `c(0,0) + c(0,1)` resp. `c(0,0) - c(0,1)`.
fn inv_dct4x8(coeff: &[f64], tall_halves: bool) -> Vec<f64> {
    let c0 = coeff[0];
    let c1 = coeff[8]; // coefficients(0, 1)
    let dcs = [c0 + c1, c0 - c1];
    let mut out = vec![0.0; 64];
    for i in 0..2 {
        let mut long_short = [0.0f64; 32]; // [short_freq * 8 + long_freq]
        for iy in 0..4 {
            for ix in 0..8 {
                long_short[iy * 8 + ix] = if ix == 0 && iy == 0 { dcs[i] } else { coeff[(i + 2 * iy) * 8 + ix] };
            }
        }
        if !tall_halves {
            // 8 wide, 4 tall: long axis horizontal: natural orientation already
            let px = idct2d(&long_short, 8, 4);
            for y in 0..4 {
                for x in 0..8 {
                    out[(4 * i + y) * 8 + x] = px[y * 8 + x];
                }
            }
        } else {
            // 4 wide, 8 tall: the long (8) axis is vertical -> transpose to natural
            let mut nat = [0.0f64; 32]; // w = 4, h = 8: nat[v * 4 + u]
            for s in 0..4 {
                for l in 0..8 {
                    nat[l * 4 + s] = long_short[s * 8 + l];
                }
            }
            let px = idct2d(&nat, 4, 8);
            for y in 0..8 {
                for x in 0..4 {
                    out[y * 8 + 4 * i + x] = px[y * 4 + x];
                }
            }
        }
    }
    out
}

fn inv_afv(coeff: &[f64], kind: usize) -> Vec<f64> {
    let flip_x = kind & 1;
    let flip_y = kind >> 1;
    let c00 = coeff[0];
    let c01 = coeff[1]; // coefficients(1, 0)
    let c10 = coeff[8]; // coefficients(0, 1)
    let dc_afv = (c00 + c10 + c01) * 4.0;
    let dc_4x4 = c00 + c10 - c01;
    let dc_4x8 = c00 - c10;
    let mut out = vec![0.0; 64];

    // AFV corner: coefficients at (even, even)
    let mut ca = [0.0f64; 16];
    for iy in 0..4 {
        for ix in 0..4 {
            ca[iy * 4 + ix] = if ix == 0 && iy == 0 { dc_afv } else { coeff[(2 * iy) * 8 + 2 * ix] };
        }
    }
    let mut sa = [0.0f64; 16];
    for (i, &c) in ca.iter().enumerate() {
        for j in 0..16 {
            sa[j] += c * AFV_BASIS[i][j];
        }
    }
    for iy in 0..4 {
        for ix in 0..4 {
            let sy = if flip_y == 1 { 3 - iy } else { iy };
            let sx = if flip_x == 1 { 3 - ix } else { ix };
            out[(4 * flip_y + iy) * 8 + 4 * flip_x + ix] = sa[sy * 4 + sx];
        }
    }

    // 4x4 DCT next to it (same rows, other column half): coefficients at (odd, even),
    // held transposed like every square block
    let mut blk = [0.0f64; 16];
    for iy in 0..4 {
        for ix in 0..4 {
            let c = if ix == 0 && iy == 0 { dc_4x4 } else { coeff[(2 * iy) * 8 + 2 * ix + 1] };
            let (u, v) = (iy, ix);
            blk[v * 4 + u] = c;
        }
    }
    let px = idct2d(&blk, 4, 4);
    let x0 = if flip_x == 1 { 0 } else { 4 };
    for y in 0..4 {
        for x in 0..4 {
            out[(4 * flip_y + y) * 8 + x0 + x] = px[y * 4 + x];
        }
    }

    // 4-row x 8-column DCT in the other row half: coefficients of the odd rows
    let mut blk = [0.0f64; 32];
    for iy in 0..4 {
        for ix in 0..8 {
            blk[iy * 8 + ix] = if ix == 0 && iy == 0 { dc_4x8 } else { coeff[(1 + 2 * iy) * 8 + ix] };
        }
    }
    let px = idct2d(&blk, 8, 4);
    let y0 = if flip_y == 1 { 0 } else { 4 };
    for y in 0..4 {
        for x in 0..8 {
            out[(y0 + y) * 8 + x] = px[y * 8 + x];
        }
    }
    out
}

/// Inverse transform of type `t` applied to a complete coefficient block
/// (the LLF corner is taken from `coeff` as is).
pub fn inverse(t: usize, coeff: &[f64]) -> Vec<f64> {
    let ti = &TYPES[t];
    assert_eq!(coeff.len(), ti.num_samples());
    match ti.family {
        Family::Dct => idct2d(coeff, ti.width(), ti.height()),
        Family::Hornuss => inv_hornuss(coeff),
        Family::Dct2x2 => inv_dct2x2(coeff),
        Family::Dct4x4 => inv_dct4x4(coeff),
        Family::Dct4x8 => inv_dct4x8(coeff, false),
        Family::Dct8x4 => inv_dct4x8(coeff, true),
        Family::Afv(k) => inv_afv(coeff, k),
    }
}

/// LLF-from-LF followed by the inverse transform.  Returns (samples, the
/// effective coefficient block that was transformed).
pub fn inverse_with_lf(t: usize, coeff: &[f64], lf: &[f64]) -> (Vec<f64>, Vec<f64>) {
    let eff = with_llf(t, coeff, lf);
    (inverse(t, &eff), eff)
}

// ---------------------------------------------------------------------------
// The AFV basis (fixed by the format: a 16 x 16 table, row = coefficient,
// column = sample y * 4 + x of the 4x4 corner).

#[rustfmt::skip]
pub const AFV_BASIS: [[f64; 16]; 16] = [
    [0.25, 0.25, 0.25, 0.25, 0.25, 0.25, 0.25, 0.25, 0.25, 0.25, 0.25, 0.25, 0.25, 0.25, 0.25, 0.25],
    [0.876902929799142, 0.2206518106944235, -0.10140050393753763, -0.1014005039375375,
     0.2206518106944236, -0.10140050393753777, -0.10140050393753772, -0.10140050393753763,
     -0.10140050393753758, -0.10140050393753769, -0.1014005039375375, -0.10140050393753768,
     -0.10140050393753768, -0.10140050393753759, -0.10140050393753763, -0.10140050393753741],
    [0.0, 0.0, 0.40670075830260755, 0.44444816619734445,
     0.0, 0.0, 0.19574399372042936, 0.2929100136981264,
     -0.40670075830260716, -0.19574399372042872, 0.0, 0.11379074460448091,
     -0.44444816619734384, -0.29291001369812636, -0.1137907446044814, 0.0],
    [0.0, 0.0, -0.21255748058288748, 0.3085497062849767,
     0.0, 0.4706702258572536, -0.1621205195722993, 0.0,
     -0.21255748058287047, -0.16212051957228327, -0.47067022585725277, -0.1464291867126764,
     0.3085497062849487, 0.0, -0.14642918671266536, 0.4251149611657548],
    [0.0, -0.7071067811865474, 0.0, 0.0,
     0.7071067811865476, 0.0, 0.0, 0.0,
     0.0, 0.0, 0.0, 0.0,
     0.0, 0.0, 0.0, 0.0],
    [-0.4105377591765233, 0.6235485373547691, -0.06435071657946274, -0.06435071657946266,
     0.6235485373547694, -0.06435071657946284, -0.0643507165794628, -0.06435071657946274,
     -0.06435071657946272, -0.06435071657946279, -0.06435071657946266, -0.06435071657946277,
     -0.06435071657946277, -0.06435071657946273, -0.06435071657946274, -0.0643507165794626],
    [0.0, 0.0, -0.4517556589999482, 0.15854503551840063,
     0.0, -0.04038515160822202, 0.0074182263792423875, 0.39351034269210167,
     -0.45175565899994635, 0.007418226379244351, 0.1107416575309343, 0.08298163094882051,
     0.15854503551839705, 0.3935103426921022, 0.0829816309488214, -0.45175565899994796],
    [0.0, 0.0, -0.304684750724869, 0.5112616136591823,
     0.0, 0.0, -0.290480129728998, -0.06578701549142804,
     0.304684750724884, 0.2904801297290076, 0.0, -0.23889773523344604,
     -0.5112616136592012, 0.06578701549142545, 0.23889773523345467, 0.0],
    [0.0, 0.0, 0.3017929516615495, 0.25792362796341184,
     0.0, 0.16272340142866204, 0.09520022653475037, 0.0,
     0.3017929516615503, 0.09520022653475055, -0.16272340142866173, -0.35312385449816297,
     0.25792362796341295, 0.0, -0.3531238544981624, -0.6035859033230976],
    [0.0, 0.0, 0.40824829046386274, 0.0,
     0.0, 0.0, 0.0, -0.4082482904638628,
     -0.4082482904638635, 0.0, 0.0, -0.40824829046386296,
     0.0, 0.4082482904638634, 0.408248290463863, 0.0],
    [0.0, 0.0, 0.1747866975480809, 0.0812611176717539,
     0.0, 0.0, -0.3675398009862027, -0.307882213957909,
     -0.17478669754808135, 0.3675398009862011, 0.0, 0.4826689115059883,
     -0.08126111767175039, 0.30788221395790305, -0.48266891150598584, 0.0],
    [0.0, 0.0, -0.21105601049335784, 0.18567180916109802,
     0.0, 0.0, 0.49215859013738733, -0.38525013709251915,
     0.21105601049335806, -0.49215859013738905, 0.0, 0.17419412659916217,
     -0.18567180916109904, 0.3852501370925211, -0.1741941265991621, 0.0],
    [0.0, 0.0, -0.14266084808807264, -0.3416446842253372,
     0.0, 0.7367497537172237, 0.24627107722075148, -0.08574019035519306,
     -0.14266084808807344, 0.24627107722075137, 0.14883399227113567, -0.04768680350229251,
     -0.3416446842253373, -0.08574019035519267, -0.047686803502292804, -0.14266084808807242],
    [0.0, 0.0, -0.13813540350758585, 0.3302282550303788,
     0.0, 0.08755115000587084, -0.07946706605909573, -0.4613374887461511,
     -0.13813540350758294, -0.07946706605910261, 0.49724647109535086, 0.12538059448563663,
     0.3302282550303805, -0.4613374887461554, 0.12538059448564315, -0.13813540350758452],
    [0.0, 0.0, -0.17437602599651067, 0.0702790691196284,
     0.0, -0.2921026642334881, 0.3623817333531167, 0.0,
     -0.1743760259965108, 0.36238173335311646, 0.29210266423348785, -0.4326608024727445,
     0.07027906911962818, 0.0, -0.4326608024727457, 0.34875205199302267],
    [0.0, 0.0, 0.11354987314994337, -0.07417504595810355,
     0.0, 0.19402893032594343, -0.435190496523228, 0.21918684838857466,
     0.11354987314994257, -0.4351904965232251, 0.5550443808910661, -0.25468277124066463,
     -0.07417504595810233, 0.2191868483885728, -0.25468277124066413, 0.1135498731499429],
];

/// max |<row_i, row_j> - delta_ij| of the AFV basis (an orthonormal basis of R^16).
pub fn afv_orthonormality_defect() -> f64 {
    let mut worst = 0.0f64;
    for i in 0..16 {
        for j in 0..16 {
            let d: f64 = (0..16).map(|k| AFV_BASIS[i][k] * AFV_BASIS[j][k]).sum();
            let want = if i == j { 1.0 } else { 0.0 };
            worst = worst.max((d - want).abs());
        }
    }
    worst
}

// ---------------------------------------------------------------------------
// Invariants implied by the definitions (used by the check on the
// implementation's output; none of them uses the tables above).

/// For two unit impulses at positions `a` and `b` (index `y * W + x` of the coefficient block,
/// LF contribution zero) the definition implies a value of `<response(a), response(b)>`
/// whenever this returns `Some`:
/// * plain DCT: W*H on the diagonal, 0 elsewhere (the basis is orthogonal with
///   `sum_x b_N(k, x)^2 = N`);
/// * DCT2x2: orthogonal; a coefficient of pyramid level S (max(x, y) in [S/2, S)) reaches
///   (8 / (S/2))^2 samples with +-1: norm^2 = 64 for the 2x2 corner, 16 for level 4, 4 for level 8;
/// * DCT4x4 / DCT4x8 / DCT8x4 / AFV: away from the DC-like positions the responses are
///   basis functions of the sub-transforms living on one sub-block: orthogonal; norm^2 =
///   sub-block sample count (16 or 32) resp. 1 for the orthonormal AFV corner.
/// Hornuss and the DC-like positions return `None` (they are covered by the direct comparison).
pub fn impulse_gram(t: usize, a: usize, b: usize) -> Option<f64> {
    let ti = &TYPES[t];
    let (ax, ay, bx, by) = (a % ti.width(), a / ti.width(), b % ti.width(), b / ti.width());
    let dc_like = |x: usize, y: usize| match ti.family {
        Family::Dct | Family::Dct2x2 => false,
        Family::Hornuss => true,
        Family::Dct4x4 => x < 2 && y < 2,
        Family::Dct4x8 | Family::Dct8x4 => x == 0 && y < 2,
        Family::Afv(_) => (x < 2 && y < 2) && !(x == 1 && y == 1),
    };
    if dc_like(ax, ay) || dc_like(bx, by) {
        return None;
    }
    if a != b {
        return Some(0.0);
    }
    Some(match ti.family {
        Family::Dct => ti.num_samples() as f64,
        Family::Dct2x2 => {
            let m = ax.max(ay);
            if m < 2 {
                64.0
            } else if m < 4 {
                16.0
            } else {
                4.0
            }
        }
        Family::Dct4x4 => 16.0,
        Family::Dct4x8 | Family::Dct8x4 => 32.0,
        Family::Afv(_) => {
            if ay % 2 == 1 {
                32.0
            } else if ax % 2 == 1 {
                16.0
            } else {
                1.0
            }
        }
        Family::Hornuss => unreachable!(),
    })
}

#[cfg(test)]
mod tests {
    use super::*;

    fn lcg(s: &mut u64) -> f64 {
        *s = s.wrapping_mul(6364136223846793005).wrapping_add(1442695040888963407);
        ((*s >> 11) as f64 / (1u64 << 53) as f64) * 2.0 - 1.0
    }

    #[test]
    fn afv_basis_is_orthonormal() {
        assert!(afv_orthonormality_defect() < 1e-12, "{}", afv_orthonormality_defect());
    }

    #[test]
    fn separable_equals_naive() {
        let mut s = 1;
        for &(w, h) in &[(8, 8), (4, 4), (8, 4), (4, 8), (16, 8), (8, 16), (16, 16), (32, 8)] {
            let c: Vec<f64> = (0..w * h).map(|_| lcg(&mut s)).collect();
            let a = idct2d(&c, w, h);
            let b = idct2d_naive(&c, w, h);
            for i in 0..w * h {
                assert!((a[i] - b[i]).abs() < 1e-12);
            }
        }
    }

    #[test]
    fn forward_inverts_inverse() {
        let mut s = 2;
        for &(w, h) in &[(2, 2), (4, 2), (2, 4), (8, 8), (4, 8)] {
            let c: Vec<f64> = (0..w * h).map(|_| lcg(&mut s)).collect();
            let p = idct2d(&c, w, h);
            let back = dct2d(&p, w, h);
            for i in 0..w * h {
                assert!((back[i] - c[i]).abs() < 1e-12);
            }
        }
    }

    /// Every transform maps "LF = v, nothing else" to the constant v, and the 8x8 box
    /// averages of a plain DCT block with only LLF coefficients reproduce the LF samples.
    #[test]
    fn lf_only_blocks() {
        let mut s = 3;
        for t in 0..NUM_TYPES {
            let ti = &TYPES[t];
            if ti.num_samples() > 64 * 64 {
                continue;
            }
            let zero = vec![0.0; ti.num_samples()];
            let lf = vec![0.375; ti.bw8 * ti.bh8];
            let (px, _) = inverse_with_lf(t, &zero, &lf);
            for p in &px {
                assert!((p - 0.375).abs() < 1e-12, "{} constant", ti.name);
            }
            let lf: Vec<f64> = (0..ti.bw8 * ti.bh8).map(|_| lcg(&mut s)).collect();
            let (px, _) = inverse_with_lf(t, &zero, &lf);
            let w = ti.width();
            for by in 0..ti.bh8 {
                for bx in 0..ti.bw8 {
                    let mut m = 0.0;
                    for y in 0..8 {
                        for x in 0..8 {
                            m += px[(by * 8 + y) * w + bx * 8 + x];
                        }
                    }
                    assert!((m / 64.0 - lf[by * ti.bw8 + bx]).abs() < 1e-12, "{} box average", ti.name);
                }
            }
        }
    }

    /// The impulse responses of the model have the Gram matrix `impulse_gram` predicts.
    #[test]
    fn gram_of_model() {
        for t in 0..NUM_TYPES {
            let ti = &TYPES[t];
            let n = ti.num_samples();
            if n > 256 {
                continue;
            }
            let resp: Vec<Vec<f64>> = (0..n)
                .map(|a| {
                    let mut c = vec![0.0; n];
                    c[a] = 1.0;
                    inverse(t, &c)
                })
                .collect();
            for a in 0..n {
                for b in 0..n {
                    if let Some(want) = impulse_gram(t, a, b) {
                        let got: f64 = (0..n).map(|i| resp[a][i] * resp[b][i]).sum();
                        assert!((got - want).abs() < 1e-9, "{} a={a} b={b} got {got} want {want}", ti.name);
                    }
                }
            }
        }
    }

    /// Each 8x8-family transform is a bijection of R^64 (the format codes 64 coefficients for 64 samples).
    #[test]
    fn small_transforms_are_invertible() {
        for t in 0..NUM_TYPES {
            let ti = &TYPES[t];
            if ti.num_samples() != 64 {
                continue;
            }
            let mut m: Vec<Vec<f64>> = (0..64)
                .map(|a| {
                    let mut c = vec![0.0; 64];
                    c[a] = 1.0;
                    inverse(t, &c)
                })
                .collect();
            // Gaussian elimination with partial pivoting: rank must be 64
            let mut rank = 0;
            for col in 0..64 {
                let mut best = rank;
                for r in rank..64 {
                    if m[r][col].abs() > m[best][col].abs() {
                        best = r;
                    }
                }
                if m[best][col].abs() < 1e-9 {
                    continue;
                }
                m.swap(rank, best);
                for r in rank + 1..64 {
                    let f = m[r][col] / m[rank][col];
                    for k in col..64 {
                        m[r][k] -= f * m[rank][k];
                    }
                }
                rank += 1;
            }
            assert_eq!(rank, 64, "{}", ti.name);
        }
    }
}
